(* XmlStructure.v — property C05, writer direction: the structure of EVERY event list [xml_encode] emits.
     (A) the element-tree view of a writer event list: [wnode], [flat]/[flats] (tree -> events), the parser
         [tree_of_wevents]; the parser inverts the flattening and nothing else parses: evs has the tree view ts iff
         evs = flats ts
     (B) every value element is one well-nested element  <tag name="..."> ... </tag>  containing no Item element
     (C) the run of the serializer as a derivation ([irun]/[kids_run]/[props_run]) that builds the tree
     (1) skeleton: one `roblox` element, version="4", one Item per root, then nothing or one SharedStrings element
     (2) every Item (at any depth): attributes class, referent; children: one Properties, then one Item per child
     (3) referents: numerals of an injective map; pairwise distinct when the written instances are; never `null`
     (5) the dictionary: sorted, one entry per hash, every key used in the body is defined; when keys are unique
     (4) Ref elements: `null` iff the null Ref, else the referent of the target's Item (forward and backward alike)
     (6) Properties: first the Name string, then the properties in the order of their (sorted) keys
   Standard library only. *)
From Coq Require Import List NArith ZArith Bool Lia String Permutation Sorted.
From RbxVerif Require Import Base Bytes Value Db CodecDom XmlEvents XmlValues XmlFile XmlInt XmlText XmlBase64 XmlCompound2 XmlFileFacts XmlDeterminism.
Import ListNotations.
Open Scope list_scope.
Open Scope N_scope.

(* ================================================================= (A) the element-tree view *)
Inductive wnode :=
| WNode (tag : bytes) (a : attrs) (kids : list wnode)
| WText (s : bytes)
| WCD (s : bytes).

Fixpoint flat (n : wnode) : list wevent :=
  match n with
  | WNode t a ks => WStart t a :: flat_map flat ks ++ [WEnd]
  | WText s => [WChars s]
  | WCD s => [WCData s]
  end.
Definition flats (ts : list wnode) : list wevent := flat_map flat ts.

Lemma flats_app a b : flats (a ++ b) = flats a ++ flats b.
Proof. apply flat_map_app. Qed.
Lemma flats_cons n ts : flats (n :: ts) = flat n ++ flats ts.
Proof. reflexivity. Qed.
Lemma flat_node t a ks : flat (WNode t a ks) = WStart t a :: flats ks ++ [WEnd].
Proof. reflexivity. Qed.

(* induction over trees (the nested occurrence in [list wnode] needs its own principle) *)
Section WnodeInd.
  Variable P : wnode -> Prop.
  Hypothesis Hnode : forall t a ks, Forall P ks -> P (WNode t a ks).
  Hypothesis Htext : forall s, P (WText s).
  Hypothesis Hcd : forall s, P (WCD s).
  Fixpoint wnode_ind' (n : wnode) : P n :=
    match n with
    | WNode t a ks =>
        Hnode t a ks ((fix go (l : list wnode) : Forall P l :=
                         match l with [] => Forall_nil P | x :: r => Forall_cons x (wnode_ind' x) (go r) end) ks)
    | WText s => Htext s
    | WCD s => Hcd s
    end.
End WnodeInd.

(* the parser: a stack of open elements (tag, attributes, the siblings already closed, newest first) *)
Fixpoint parse_go (stack : list (bytes * attrs * list wnode)) (cur : list wnode) (evs : list wevent) : option (list wnode) :=
  match evs with
  | [] => match stack with [] => Some (rev cur) | _ => None end
  | WStart t a :: r => parse_go ((t, a, cur) :: stack) [] r
  | WEnd :: r => match stack with
                 | [] => None
                 | (t, a, up) :: st => parse_go st (WNode t a (rev cur) :: up) r
                 end
  | WChars s :: r => parse_go stack (WText s :: cur) r
  | WCData s :: r => parse_go stack (WCD s :: cur) r
  end.
Definition tree_of_wevents (evs : list wevent) : option (list wnode) := parse_go [] [] evs.

Lemma parse_flat n : forall stack cur rest, parse_go stack cur (flat n ++ rest) = parse_go stack (n :: cur) rest.
Proof.
  induction n as [t a ks IH| |] using wnode_ind'; intros stack cur rest; [|reflexivity|reflexivity].
  cbn [flat app parse_go]. rewrite <- app_assoc.
  assert (H : forall acc rest', parse_go ((t, a, cur) :: stack) acc (flat_map flat ks ++ rest')
                               = parse_go ((t, a, cur) :: stack) (rev ks ++ acc) rest').
  { clear rest. induction IH as [|x r Hx Hr IHr]; intros acc rest'; [reflexivity|].
    cbn [flat_map]. rewrite <- app_assoc, Hx, IHr. cbn [rev]. rewrite <- app_assoc. reflexivity. }
  rewrite H. cbn [app parse_go]. rewrite app_nil_r, rev_involutive. reflexivity.
Qed.

Lemma parse_flats ts : forall stack cur rest, parse_go stack cur (flats ts ++ rest) = parse_go stack (rev ts ++ cur) rest.
Proof.
  induction ts as [|n ts IH]; intros stack cur rest; [reflexivity|].
  rewrite flats_cons, <- app_assoc, parse_flat, IH. cbn [rev]. rewrite <- app_assoc. reflexivity.
Qed.

(* the parser inverts the flattening *)
Theorem tree_of_flats ts : tree_of_wevents (flats ts) = Some ts.
Proof.
  unfold tree_of_wevents. rewrite <- (app_nil_r (flats ts)), parse_flats. cbn [parse_go].
  rewrite app_nil_r, rev_involutive. reflexivity.
Qed.

(* ... and nothing else parses: what has been consumed is the flattening of what has been built *)
Fixpoint consumed (stack : list (bytes * attrs * list wnode)) (cur : list wnode) : list wevent :=
  match stack with
  | [] => flats (rev cur)
  | (t, a, up) :: st => consumed st up ++ WStart t a :: flats (rev cur)
  end.

Lemma consumed_push stack n cur : consumed stack (n :: cur) = consumed stack cur ++ flat n.
Proof.
  destruct stack as [|[[t a] up] st]; cbn [consumed rev]; rewrite flats_app; cbn [flats flat_map]; rewrite app_nil_r.
  - reflexivity.
  - rewrite <- app_assoc. reflexivity.
Qed.

Lemma parse_go_sound evs : forall stack cur ts, parse_go stack cur evs = Some ts -> flats ts = consumed stack cur ++ evs.
Proof.
  induction evs as [|ev evs IH]; intros stack cur ts H.
  - cbn [parse_go] in H. destruct stack; [|discriminate]. inversion H. cbn [consumed]. now rewrite app_nil_r.
  - destruct ev as [t a| |s|s]; cbn [parse_go] in H.
    + apply IH in H. rewrite H. cbn [consumed rev flats flat_map]. rewrite <- app_assoc. reflexivity.
    + destruct stack as [|[[t a] up] st]; [discriminate|]. apply IH in H. rewrite H.
      rewrite consumed_push. cbn [consumed flat]. fold (flats (rev cur)). rewrite <- !app_assoc. cbn [app].
      rewrite <- !app_assoc. reflexivity.
    + apply IH in H. rewrite H, consumed_push, <- app_assoc. reflexivity.
    + apply IH in H. rewrite H, consumed_push, <- app_assoc. reflexivity.
Qed.

Theorem tree_of_wevents_iff evs ts : tree_of_wevents evs = Some ts <-> evs = flats ts.
Proof.
  split.
  - intro H. apply parse_go_sound in H. cbn [consumed rev flats flat_map app] in H. now symmetry.
  - intros ->. apply tree_of_flats.
Qed.

Corollary flats_injective ts ts' : flats ts = flats ts' -> ts = ts'.
Proof. intro H. pose proof (tree_of_flats ts) as A. rewrite H, tree_of_flats in A. now inversion A. Qed.
Print Assumptions tree_of_wevents_iff.

(* ================================================================= (B) value elements *)
(* no element named `Item` at any depth *)
Fixpoint item_free (n : wnode) : bool :=
  match n with
  | WNode t _ ks => negb (bytes_eqb t (B "Item")) && forallb item_free ks
  | _ => true
  end.

(* an event list that is a well-nested forest without Item elements *)
Definition good (evs : list wevent) : Prop := exists ts, evs = flats ts /\ forallb item_free ts = true.

Lemma good_nil : good [].
Proof. exists []. split; reflexivity. Qed.
Lemma good_app a b : good a -> good b -> good (a ++ b).
Proof.
  intros (ta & -> & Ha) (tb & -> & Hb). exists (ta ++ tb). split; [now rewrite flats_app|].
  rewrite forallb_app, Ha, Hb. reflexivity.
Qed.
Lemma good_chars s : good [WChars s].
Proof. exists [WText s]. split; reflexivity. Qed.
Lemma good_cdata s : good [WCData s].
Proof. exists [WCD s]. split; reflexivity. Qed.
Lemma good_cons_chars s l : good l -> good (WChars s :: l).
Proof. intro H. apply (good_app [WChars s] l); [apply good_chars|exact H]. Qed.
Lemma good_w_string s : good (w_string s).
Proof. unfold w_string. destruct (has_outer_ws s); [apply good_cdata|apply good_chars]. Qed.
Lemma good_w_elem t inner : bytes_eqb t (B "Item") = false -> good inner -> good (w_elem t inner).
Proof.
  intros Ht (ts & -> & Hts). exists [WNode t [] ts]. split.
  - unfold w_elem. cbn [flats flat_map flat]. rewrite app_nil_r. reflexivity.
  - cbn [forallb item_free]. rewrite Ht, Hts. reflexivity.
Qed.

Definition rgood (r : res (list wevent)) : Prop := forall evs, r = Ok evs -> good evs.
Lemma rgood_ok evs : good evs -> rgood (Ok evs).
Proof. intros H x E. inversion E; subst. exact H. Qed.
Lemma rgood_bind {A} (r : res A) k : (forall a, rgood (k a)) -> rgood (rbind r k).
Proof. intros H evs. destruct r as [a| |c|]; cbn [rbind]; try discriminate. apply H. Qed.
Lemma rgood_bind_good (r : res (list wevent)) k : rgood r -> (forall a, good a -> rgood (k a)) -> rgood (rbind r k).
Proof. intros Hr H evs. destruct r as [a| |c|]; cbn [rbind]; try discriminate. apply H. apply Hr. reflexivity. Qed.
Lemma rgood_concat l : Forall rgood l -> rgood (concat_res l).
Proof.
  induction 1 as [|r l Hr Hl IH]; cbn [concat_res]; [apply rgood_ok, good_nil|].
  apply rgood_bind_good; [exact Hr|]. intros a Ha. apply rgood_bind_good; [exact IH|]. intros b Hb.
  apply rgood_ok. now apply good_app.
Qed.
Lemma rgood_concat_map {A} (f : A -> res (list wevent)) l : (forall x, rgood (f x)) -> rgood (concat_res (List.map f l)).
Proof. intro H. apply rgood_concat. apply Forall_forall. intros r Hr. apply in_map_iff in Hr. destruct Hr as (x & <- & _). apply H. Qed.

Lemma rgood_xw_f32 o x : rgood (xw_f32 o x).
Proof. unfold xw_f32. apply rgood_bind. intro t. apply rgood_ok, good_w_string. Qed.
Lemma rgood_xw_f64 o x : rgood (xw_f64 o x).
Proof. unfold xw_f64. apply rgood_bind. intro t. apply rgood_ok, good_w_string. Qed.
Lemma rgood_xw_f32_display o x : rgood (xw_f32_display o x).
Proof. unfold xw_f32_display. apply rgood_bind. intro t. apply rgood_ok, good_w_string. Qed.
Lemma rgood_xw_f32_display_tag o tag x : bytes_eqb (B tag) (B "Item") = false -> rgood (xw_f32_display_tag o tag x).
Proof.
  intro Ht. unfold xw_f32_display_tag. apply rgood_bind_good; [apply rgood_xw_f32_display|].
  intros a Ha. apply rgood_ok. now apply good_w_elem.
Qed.
Lemma rgood_xw_f32_tag o tag x : bytes_eqb (B tag) (B "Item") = false -> rgood (xw_f32_tag o tag x).
Proof.
  intro Ht. unfold xw_f32_tag. apply rgood_bind_good; [apply rgood_xw_f32|].
  intros a Ha. apply rgood_ok. now apply good_w_elem.
Qed.
Lemma good_w_int_tag tag z : bytes_eqb (B tag) (B "Item") = false -> good (w_int_tag tag z).
Proof. intro Ht. unfold w_int_tag. apply good_w_elem; [exact Ht|apply good_w_string]. Qed.
Lemma good_w_tag_chars tag s : bytes_eqb (B tag) (B "Item") = false -> good (w_tag_chars tag s).
Proof. intro Ht. unfold w_tag_chars. apply good_w_elem; [exact Ht|apply good_w_string]. Qed.
Lemma good_w_content_tag tag s : bytes_eqb (B tag) (B "Item") = false -> good (w_content_tag tag s).
Proof.
  intro Ht. unfold w_content_tag. apply good_w_elem; [exact Ht|].
  destruct s; apply good_w_elem; try reflexivity; [apply good_nil|apply good_w_string].
Qed.

Ltac good_step :=
  first [ apply good_nil | apply good_chars | apply good_cdata | apply good_w_string
        | apply good_w_int_tag; reflexivity | apply good_w_tag_chars; reflexivity | apply good_w_content_tag; reflexivity
        | apply good_cons_chars | apply good_app | apply good_w_elem; [reflexivity|]
        | apply rgood_ok | apply rgood_xw_f32 | apply rgood_xw_f64 | apply rgood_xw_f32_display
        | apply rgood_xw_f32_display_tag; reflexivity | apply rgood_xw_f32_tag; reflexivity
        | apply rgood_concat; repeat (constructor; [|]); try apply Forall_nil
        | assumption ].

Lemma rgood_w_vec3 o v : rgood (w_vec3 o v).
Proof. unfold w_vec3. repeat good_step. Qed.
Lemma rgood_w_vec2 o v : rgood (w_vec2 o v).
Proof. unfold w_vec2. repeat good_step. Qed.
Lemma rgood_w_cframe o c : rgood (w_cframe o c).
Proof. unfold w_cframe. cbv zeta. repeat good_step. Qed.

(* the events between the start and end tag of every value element [write_xml] writes, and its element name *)
Lemma rgood_fail (r : res (list wevent)) : match r with Ok _ => False | _ => True end -> rgood r.
Proof. destruct r; try contradiction; intros _ evs E; discriminate. Qed.

Ltac good_auto :=
  repeat first
    [ match goal with |- rgood (concat_res (List.map _ _)) => apply rgood_concat_map; intro end
    | good_step
    | apply rgood_w_vec3 | apply rgood_w_vec2 | apply rgood_w_cframe
    | apply rgood_fail; exact I
    | match goal with
      | |- rgood (Ok (match ?x with _ => _ end)) => destruct x
      | |- rgood (match ?x with _ => _ end) => destruct x
      | |- good (match ?x with _ => _ end) => destruct x
      | |- rgood (rbind _ _) => apply rgood_bind_good; [|intros ? ?]
      | |- rgood (concat_res (List.map _ _)) => apply rgood_concat_map; intro
      end ].

Lemma write_xml_good_aux o v :
  match write_xml o v with
  | Some (tag, r) => (bytes_eqb tag (B "Item") = false /\ bytes_eqb tag (B "Ref") = false /\ bytes_eqb tag (B "SharedString") = false) /\ rgood r
  | None => True
  end.
Proof.
  destruct v as [| | | | | | | | | | | | | | | | | | | | | | | | | | | | | | | | | | | | | | |c]; try (destruct c); cbn [write_xml]; try exact I;
    (split; [repeat split; reflexivity|]).
  all: good_auto.
Qed.

Lemma write_xml_good o v tag r : write_xml o v = Some (tag, r) ->
  (bytes_eqb tag (B "Item") = false /\ bytes_eqb tag (B "Ref") = false /\ bytes_eqb tag (B "SharedString") = false) /\ rgood r.
Proof. intro H. pose proof (write_xml_good_aux o v) as A. rewrite H in A. exact A. Qed.

(* a text leaf as [w_string] writes it: CDATA when the text starts or ends with whitespace, characters otherwise *)
Definition leaf (s : bytes) : wnode := if has_outer_ws s then WCD s else WText s.
Lemma flat_leaf s : flat (leaf s) = w_string s.
Proof. unfold leaf, w_string. destruct (has_outer_ws s); reflexivity. Qed.
Lemma leaf_item_free s : item_free (leaf s) = true.
Proof. unfold leaf. destruct (has_outer_ws s); reflexivity. Qed.
Lemma leaf_dec n : leaf (dec_of_N n) = WText (dec_of_N n).
Proof. unfold leaf. rewrite (printable_no_outer_ws _ (dec_of_N_printable n)). reflexivity. Qed.

(* the text a Ref element carries under the referent map [m] *)
Definition ref_text (m : list (N * N)) (r : N) : bytes :=
  if r =? 0 then B "null" else match lookup r m with Some v => dec_of_N v | None => [] end.

(* what [write_value_xml] does, case by case: one element <tag name=pn>inner</tag>, and the state after it *)
Inductive value_written (e : xenv) (st : estate) (pn : bytes) : value -> wnode -> estate -> Prop :=
| VW_ref r st' :
    st' = (if r =? 0 then st else snd (map_id st r)) ->
    value_written e st pn (VRef r) (WNode (B "Ref") (name_attr pn) [WText (ref_text (es_map st') r)]) st'
| VW_shared c h :
    xe_hash e c = Some h ->
    value_written e st pn (VSharedString c)
      (WNode (B "SharedString") (name_attr pn) [leaf (b64_encode (firstn 16 h))])
      (mkES (es_map st) (es_next st) (shared_insert h c (es_shared st)))
| VW_other v tag inner :
    (forall r, v <> VRef r) -> (forall c, v <> VSharedString c) ->
    bytes_eqb tag (B "Item") = false -> bytes_eqb tag (B "Ref") = false -> bytes_eqb tag (B "SharedString") = false ->
    forallb item_free inner = true ->
    value_written e st pn v (WNode tag (name_attr pn) inner) st.

Lemma lookup_map_id st r : lookup r (es_map (snd (map_id st r))) = Some (fst (map_id st r)).
Proof.
  unfold map_id. destruct (lookup r (es_map st)) as [v|] eqn:E; cbn [fst snd]; [exact E|].
  cbn [es_map lookup]. rewrite N.eqb_refl. reflexivity.
Qed.

Lemma write_value_xml_cases e st pn v ev st' :
  write_value_xml e st pn v = Ok (ev, st') -> exists n, ev = flat n /\ value_written e st pn v n st'.
Proof.
  destruct v; cbn [write_value_xml].
  all: try (destruct (write_xml (xe_o e) _) as [[tag0 rr]|] eqn:Ew; [|discriminate];
            destruct (write_xml_good _ _ _ _ Ew) as ((T1 & T2 & T3) & Hr);
            destruct rr as [evs0| |cc|]; cbn [rbind]; try discriminate; intro H; inversion H; subst; clear H;
            destruct (Hr evs0 eq_refl) as (tss & -> & Hts);
            exists (WNode tag0 (name_attr pn) tss); split; [reflexivity|];
            apply VW_other; try assumption; intros; discriminate).
  all: try (cbn [write_xml]; discriminate).
  - (* Ref *)
    destruct (r =? 0) eqn:E0.
    + intro H; inversion H; subst; clear H. eexists. split; [|apply (VW_ref e st' pn r st'); rewrite E0; reflexivity].
      unfold ref_text. rewrite E0. reflexivity.
    + pose proof (lookup_map_id st r) as L. destruct (map_id st r) as [id st1] eqn:Em. cbn [fst snd] in L.
      intro H; inversion H; subst; clear H. eexists. split; [|apply (VW_ref e st pn r st'); rewrite E0, Em; reflexivity].
      unfold ref_text. rewrite E0, L, (printable_no_outer_ws _ (dec_of_N_printable id)). reflexivity.
  - (* SharedString *)
    match goal with |- context [xe_hash e ?c] => destruct (xe_hash e c) as [h|] eqn:Eh end; cbn [ask rbind]; [|discriminate].
    intro H; inversion H; subst; clear H. eexists. split; [|apply VW_shared; exact Eh].
    cbn [flat flat_map]. rewrite flat_leaf, app_nil_r. reflexivity.
Qed.

(* ---- the property step *)
(* conversion and migration neither create nor destroy a Ref or a SharedString *)
Lemma try_convert_special o v t w : try_convert o v t = Ok w ->
  (forall r, w = VRef r <-> v = VRef r) /\ (forall c, w = VSharedString c <-> v = VSharedString c).
Proof.
  destruct v; cbn [try_convert];
    repeat match goal with
           | |- (if ?c then _ else _) = _ -> _ => destruct c
           | |- match ?x with _ => _ end = _ -> _ => destruct x
           | |- rbind (ask ?x) _ = _ -> _ => destruct x; cbn [ask rbind]
           end;
    intro H; inversion H; subst; split; intros; split; intro E; try discriminate E; try exact E.
Qed.

Lemma migrate_special ft bt op v w : migrate ft bt op v = Some w ->
  (forall r, w <> VRef r) /\ (forall c, w <> VSharedString c).
Proof.
  destruct op, v; cbn [migrate]; try discriminate.
  - intro H; inversion H; split; intros; discriminate.
  - destruct (font_lookup ft n) as [[[fam wt] s]|]; [|discriminate]. intro H; inversion H; split; intros; discriminate.
  - destruct (brick_lookup bt n) as [[[r g] b]|]; [|discriminate]. intro H; inversion H; split; intros; discriminate.
  - intro H; inversion H. split; intros; discriminate.
Qed.

Definition desc_lookup (e : xenv) (beh : ebehavior) (class k : bytes) : res (option (pdesc * pdesc)) :=
  match beh with ENoReflection => Ok None | _ => find_desc_xml (xe_db e) (S_ class) (S_ k) end.

(* the `name` attribute a property with key [k] can be written under: its own key when the database has nothing to say
   (unknown property written as it is, or no reflection); else the name of the serialized form, or the migration target *)
Definition name_rel (e : xenv) (beh : ebehavior) (class k pn : bytes) : Prop :=
  (desc_lookup e beh class k = Ok None /\ pn = k) \/
  (exists canon ser, desc_lookup e beh class k = Ok (Some (canon, ser)) /\
     (pn = bytes_of_string (pd_name ser) \/ exists to op, pd_kind ser = KCanon (PMigrate to op) /\ pn = bytes_of_string to)).

Definition opt_nodes (o : option wnode) : list wnode := match o with Some n => [n] | None => [] end.

(* one turn of the property loop: nothing, or one value element; [w] is the value written (converted / migrated) *)
Inductive prop_step (e : xenv) (beh : ebehavior) (class : bytes) (st : estate) (k : bytes) (v : value) : option wnode -> estate -> Prop :=
| PS_skip : prop_step e beh class st k v None st
| PS_write pn w n st' :
    value_written e st pn w n st' ->
    (forall r, w = VRef r <-> v = VRef r) -> (forall c, w = VSharedString c <-> v = VSharedString c) ->
    name_rel e beh class k pn ->
    prop_step e beh class st k v (Some n) st'.

Lemma serialize_property_cases e beh class keys st k v ev st' :
  serialize_property e beh class keys st k v = Ok (ev, st') ->
  exists on, ev = flats (opt_nodes on) /\ prop_step e beh class st k v on st'.
Proof.
  unfold serialize_property. fold (desc_lookup e beh class k).
  destruct (desc_lookup e beh class k) as [[[canon ser]|]| |c|] eqn:Ed; cbn [rbind]; try discriminate.
  - destruct (try_convert (xe_o e) v (dtype_vt (pd_type ser))) as [conv| |c|] eqn:Ec; cbn [rbind]; try discriminate.
    2:{ destruct (c =? DE_CONVERT); discriminate. }
    destruct (try_convert_special _ _ _ _ Ec) as [Cr Cs].
    assert (W : forall pn, (pn = bytes_of_string (pd_name ser) \/ exists to op, pd_kind ser = KCanon (PMigrate to op) /\ pn = bytes_of_string to) ->
                forall w, (forall r, w = VRef r <-> v = VRef r) -> (forall c, w = VSharedString c <-> v = VSharedString c) ->
                write_value_xml e st pn w = Ok (ev, st') ->
                exists on, ev = flats (opt_nodes on) /\ prop_step e beh class st k v on st').
    { intros pn Hpn w Wr Ws H. destruct (write_value_xml_cases _ _ _ _ _ _ H) as (n & -> & Hn).
      exists (Some n). split; [cbn [opt_nodes flats flat_map]; now rewrite app_nil_r|].
      apply (PS_write e beh class st k v pn w n st' Hn Wr Ws). right. exists canon, ser. split; [exact Ed|exact Hpn]. }
    destruct (pd_kind ser) as [[| | |to op]|] eqn:Ek; try (apply (W _ (or_introl eq_refl) conv Cr Cs)).
    destruct (has_explicit_new_value e class k to keys) as [[|]| |c|]; cbn [rbind]; try discriminate.
    + intro H; inversion H; subst. exists None. split; [reflexivity|constructor].
    + destruct (migrate (xe_font e) (xe_brick e) op conv) as [nv|] eqn:Em.
      * destruct (migrate_special _ _ _ _ _ Em) as [Mr Ms].
        apply (W _ (or_intror (ex_intro _ to (ex_intro _ op (conj eq_refl eq_refl))))).
        -- intro r. split; [intro E; destruct (Mr r E)|]. intro E. apply Cr in E. subst conv.
           destruct op; discriminate Em.
        -- intro c. split; [intro E; destruct (Ms c E)|]. intro E. apply Cs in E. subst conv.
           destruct op; discriminate Em.
      * apply (W _ (or_introl eq_refl) conv Cr Cs).
  - assert (W : write_value_xml e st k v = Ok (ev, st') ->
                exists on, ev = flats (opt_nodes on) /\ prop_step e beh class st k v on st').
    { intro H. destruct (write_value_xml_cases _ _ _ _ _ _ H) as (n & -> & Hn).
      exists (Some n). split; [cbn [opt_nodes flats flat_map]; now rewrite app_nil_r|].
      apply (PS_write e beh class st k v k v n st' Hn); [tauto|tauto|]. left. split; [exact Ed|reflexivity]. }
    destruct beh; try exact W; try discriminate.
    intro H; inversion H; subst. exists None. split; [reflexivity|constructor].
Qed.

(* ================================================================= (C) the run of the serializer as a derivation *)
Definition name_node (s : bytes) : wnode := WNode (B "string") (name_attr (B "Name")) [leaf s].

Lemma write_name e st s : write_value_xml e st (B "Name") (VString s) = Ok (flat (name_node s), st).
Proof. cbn [write_value_xml write_xml rbind name_node flat flat_map]. rewrite flat_leaf, app_nil_r. reflexivity. Qed.

Definition item_node (class referent : bytes) (props kids : list wnode) : wnode :=
  WNode (B "Item") [(B "class", class); (B "referent", referent)] (WNode (B "Properties") [] props :: kids).

Lemma flat_item_node c r nm props kids :
  flat (item_node c r (nm :: props) kids) =
  WStart (B "Item") [(B "class", c); (B "referent", r)] :: WStart (B "Properties") [] :: flat nm ++ flats props ++ WEnd :: flats kids ++ [WEnd].
Proof.
  unfold item_node. rewrite flat_node, flats_cons, flat_node, flats_cons. rewrite <- !app_assoc. cbn [app].
  rewrite <- !app_assoc. reflexivity.
Qed.

Section Run.
  Variables (e : xenv) (beh : ebehavior) (d : cdom).

  (* the property loop over the sorted properties: one optional element per property, in order *)
  Inductive props_run (class : bytes) : estate -> list (bytes * value) -> list (option wnode) -> estate -> Prop :=
  | PR_nil st : props_run class st [] [] st
  | PR_cons st k v on st1 r ons st2 :
      prop_step e beh class st k v on st1 -> props_run class st1 r ons st2 ->
      props_run class st ((k, v) :: r) (on :: ons) st2.

  (* serialize_instance: the Item of instance [id] written from state [st]; [ids] = the instances written, in document order *)
  Inductive irun : estate -> N -> wnode -> list N -> estate -> Prop :=
  | IRun st id i ons st2 knodes kids st3 :
      find_inst d id = Some i ->
      props_run (i_class i) (snd (map_id st id)) (bsort (i_props i)) ons st2 ->
      kids_run st2 (children_of d id) knodes kids st3 ->
      irun st id (item_node (i_class i) (dec_of_N (fst (map_id st id)))
                            (name_node (i_name i) :: flat_map opt_nodes ons) knodes)
           (id :: kids) st3
  (* the loop over the children / over the roots *)
  with kids_run : estate -> list N -> list wnode -> list N -> estate -> Prop :=
  | KR_nil st : kids_run st [] [] [] st
  | KR_cons st c n ids1 st1 r ns ids2 st2 :
      irun st c n ids1 st1 -> kids_run st1 r ns ids2 st2 ->
      kids_run st (c :: r) (n :: ns) (ids1 ++ ids2) st2.

  Scheme irun_ind2 := Induction for irun Sort Prop
    with kids_run_ind2 := Induction for kids_run Sort Prop.
  Combined Scheme run_mutind from irun_ind2, kids_run_ind2.

  Lemma serialize_properties_run class keys : forall ps st ev st',
    serialize_properties e beh class keys st ps = Ok (ev, st') ->
    exists ons, ev = flats (flat_map opt_nodes ons) /\ props_run class st ps ons st'.
  Proof.
    unfold serialize_properties. induction ps as [|[k v] ps IH]; intros st ev st' H; cbn [serialize_properties_with] in H.
    - inversion H; subst. exists []. split; [reflexivity|constructor].
    - destruct (serialize_property e beh class keys st k v) as [[ev1 st1]| |c|] eqn:E1; cbn [rbind] in H; try discriminate.
      destruct (serialize_properties_with serialize_property e beh class keys st1 ps) as [[ev2 st2]| |c|] eqn:E2; cbn [rbind] in H; try discriminate.
      inversion H; subst. destruct (serialize_property_cases _ _ _ _ _ _ _ _ _ E1) as (on & -> & Hon).
      destruct (IH _ _ _ E2) as (ons & -> & Hons). exists (on :: ons). split.
      + cbn [flat_map]. unfold flats. now rewrite flat_map_app.
      + econstructor; eassumption.
  Qed.

  (* the instances [serialize_instance] reaches with fuel [f], in document order *)
  Fixpoint subtree (f : nat) (id : N) : list N :=
    match f with O => [] | S f' => id :: flat_map (subtree f') (children_of d id) end.

  Lemma seq_with_run (F : estate -> N -> res (list wevent * estate)) (sub : N -> list N) :
    (forall st c ev st', F st c = Ok (ev, st') -> exists n, ev = flat n /\ irun st c n (sub c) st') ->
    forall cs st ev st', seq_with F cs st = Ok (ev, st') ->
      exists ns, ev = flats ns /\ kids_run st cs ns (flat_map sub cs) st'.
  Proof.
    intros HF cs. induction cs as [|c r IH]; intros st ev st' H; cbn [seq_with] in H.
    - inversion H; subst. exists []. split; [reflexivity|constructor].
    - destruct (F st c) as [[e1 s1]| |k|] eqn:E1; cbn [rbind] in H; try discriminate.
      fold (seq_with F) in H. destruct (seq_with F r s1) as [[e2 s2]| |k|] eqn:E2; cbn [rbind] in H; try discriminate.
      inversion H; subst. destruct (HF _ _ _ _ E1) as (n & -> & Hn). destruct (IH _ _ _ E2) as (ns & -> & Hns).
      exists (n :: ns). split; [reflexivity|]. cbn [flat_map]. econstructor; eassumption.
  Qed.

  Theorem serialize_instance_run f : forall st id ev st',
    serialize_instance f e beh d st id = Ok (ev, st') -> exists n, ev = flat n /\ irun st id n (subtree f id) st'.
  Proof.
    unfold serialize_instance. induction f as [|f IH]; intros st id ev st' H; [discriminate|].
    rewrite serialize_instance_with_S in H. destruct (find_inst d id) as [i|] eqn:Ef; [|discriminate].
    destruct (map_id st id) as [mapped st0] eqn:Em. rewrite write_name in H. cbn [rbind] in H. cbv zeta in H.
    destruct (serialize_properties_with serialize_property e beh (i_class i) (List.map fst (bsort (i_props i))) st0 (bsort (i_props i)))
      as [[pev st2]| |c|] eqn:Ep; cbn [rbind] in H; try discriminate.
    destruct (seq_with (serialize_instance_with serialize_property f e beh d) (children_of d id) st2) as [[cev st3]| |c|] eqn:Ec;
      cbn [rbind] in H; try discriminate.
    destruct (serialize_properties_run _ _ _ _ _ _ Ep) as (ons & -> & Hons).
    destruct (seq_with_run _ (subtree f) IH _ _ _ _ Ec) as (ns & -> & Hns).
    match type of H with Ok (?a, ?b) = Ok (?c, ?d) => assert (Ha : c = a) by congruence; assert (Hb : d = b) by congruence end.
    clear H. subst ev st'.
    exists (item_node (i_class i) (dec_of_N mapped) (name_node (i_name i) :: flat_map opt_nodes ons) ns). split.
    - rewrite flat_item_node. reflexivity.
    - cbn [subtree]. replace mapped with (fst (map_id st id)) by now rewrite Em.
      apply (IRun st id i ons st2); [exact Ef| rewrite Em; exact Hons|exact Hns].
  Qed.
End Run.

(* ================================================================= the emitter state along a run *)
(* what is known at [st] is still known, unchanged, at [st']: referent numbers are never reassigned, dictionary keys stay *)
Definition st_le (st st' : estate) : Prop :=
  (forall r x, lookup r (es_map st) = Some x -> lookup r (es_map st') = Some x) /\
  (forall h, In h (List.map fst (es_shared st)) -> In h (List.map fst (es_shared st'))).

(* the referent map is injective with values below the counter; the dictionary holds (hash of c, c) pairs *)
Definition st_ok (e : xenv) (st : estate) : Prop :=
  (forall r x, lookup r (es_map st) = Some x -> x < es_next st) /\
  (forall r1 r2 x, lookup r1 (es_map st) = Some x -> lookup r2 (es_map st) = Some x -> r1 = r2) /\
  (forall h c, In (h, c) (es_shared st) -> xe_hash e c = Some h).

Definition st_ext (e : xenv) (st st' : estate) : Prop := st_le st st' /\ (st_ok e st -> st_ok e st').

Lemma st_le_refl st : st_le st st.
Proof. split; auto. Qed.
Lemma st_le_trans a b c : st_le a b -> st_le b c -> st_le a c.
Proof. intros [A1 A2] [B1 B2]. split; auto. Qed.
Lemma st_ext_refl e st : st_ext e st st.
Proof. split; [apply st_le_refl|auto]. Qed.
Lemma st_ext_trans e a b c : st_ext e a b -> st_ext e b c -> st_ext e a c.
Proof. intros [A1 A2] [B1 B2]. split; [eapply st_le_trans; eassumption|auto]. Qed.

Lemma st_ok_es0 e : st_ok e es0.
Proof. repeat split; cbn; intros; try discriminate; contradiction. Qed.

Lemma map_id_ext e st r : st_ext e st (snd (map_id st r)).
Proof.
  unfold map_id. destruct (lookup r (es_map st)) as [v|] eqn:E; cbn [snd]; [apply st_ext_refl|]. split.
  - split; [|auto]. intros r' x H. cbn [es_map lookup]. destruct (r' =? r) eqn:Er; [|exact H].
    apply N.eqb_eq in Er. subst r'. congruence.
  - intros (Hlt & Hinj & Hd). split; [|split; [|exact Hd]]; cbn [es_map es_next lookup].
    + intros r' x. destruct (r' =? r); [intro H; inversion H; lia|]. intro H. specialize (Hlt _ _ H). lia.
    + intros r1 r2 x. destruct (r1 =? r) eqn:E1, (r2 =? r) eqn:E2.
      * apply N.eqb_eq in E1, E2. congruence.
      * intros H1 H2. inversion H1; subst. specialize (Hlt _ _ H2). lia.
      * intros H1 H2. inversion H2; subst. specialize (Hlt _ _ H1). lia.
      * apply Hinj.
Qed.

Lemma shared_insert_keys h c m k : In k (List.map fst (shared_insert h c m)) <-> k = h \/ In k (List.map fst m).
Proof.
  induction m as [|[h' c'] m IH]; cbn [shared_insert List.map fst In]; [intuition|].
  destruct (bytes_ltb h h'); [cbn [List.map fst In]; intuition|].
  destruct (bytes_eqb h h') eqn:E; cbn [List.map fst In].
  - apply beqb_true_iff in E. subst h'. intuition.
  - rewrite IH. intuition.
Qed.

Lemma shared_insert_In_weak h c m x : In x (shared_insert h c m) -> x = (h, c) \/ In x m.
Proof.
  induction m as [|[h' c'] m IH]; cbn [shared_insert In]; [intuition|].
  destruct (bytes_ltb h h'); [cbn [In]; intuition|].
  destruct (bytes_eqb h h'); cbn [In]; intuition.
Qed.

Lemma value_written_ext e st pn w n st' : value_written e st pn w n st' -> st_ext e st st'.
Proof.
  intros [r st1 ->|c h Hh|]; [|split|apply st_ext_refl].
  - destruct (r =? 0); [apply st_ext_refl|apply map_id_ext].
  - split; [auto|]. cbn [es_shared]. intros k Hk. apply shared_insert_keys. now right.
  - intros (Hlt & Hinj & Hd). split; [exact Hlt|split; [exact Hinj|]]. cbn [es_shared]. intros h' c' Hin.
    apply shared_insert_In_weak in Hin. destruct Hin as [E|Hin]; [inversion E; subst; exact Hh|now apply Hd].
Qed.

Lemma prop_step_ext e beh class st k v on st' : prop_step e beh class st k v on st' -> st_ext e st st'.
Proof. intros [|pn w n st1 Hw _ _ _]; [apply st_ext_refl|eapply value_written_ext; exact Hw]. Qed.

Lemma props_run_ext e beh class st ps ons st' : props_run e beh class st ps ons st' -> st_ext e st st'.
Proof.
  induction 1 as [|st k v on st1 r ons st2 H1 _ IH]; [apply st_ext_refl|].
  eapply st_ext_trans; [eapply prop_step_ext; exact H1|exact IH].
Qed.

Lemma run_ext e beh d :
  (forall st id n ids st', irun e beh d st id n ids st' -> st_ext e st st') /\
  (forall st cs ns ids st', kids_run e beh d st cs ns ids st' -> st_ext e st st').
Proof.
  apply run_mutind.
  - intros st id i ons st2 knodes kids st3 Hf Hp Hk IHk.
    eapply st_ext_trans; [apply (map_id_ext e st id)|]. eapply st_ext_trans; [eapply props_run_ext; exact Hp|exact IHk].
  - intro st. apply st_ext_refl.
  - intros st c n ids1 st1 r ns ids2 st2 H1 IH1 H2 IH2. eapply st_ext_trans; eassumption.
Qed.

(* ================================================================= the document, specified from the final state *)
(* [m] = the referent map at the end of the run, [dict] = the dictionary at the end of the run *)
Section Spec.
  Variables (e : xenv) (beh : ebehavior) (d : cdom) (m : list (N * N)) (dict : list (bytes * bytes)).

  (* the element written for the property (k, v) of an instance of class [class], if any *)
  Inductive prop_spec (class k : bytes) (v : value) : option wnode -> Prop :=
  | PSp_skip : prop_spec class k v None
  | PSp_ref r pn :
      v = VRef r -> name_rel e beh class k pn -> (r <> 0 -> exists x, lookup r m = Some x) ->
      prop_spec class k v (Some (WNode (B "Ref") (name_attr pn) [WText (ref_text m r)]))
  | PSp_shared c h pn :
      v = VSharedString c -> name_rel e beh class k pn -> xe_hash e c = Some h -> In h (List.map fst dict) ->
      prop_spec class k v (Some (WNode (B "SharedString") (name_attr pn) [leaf (b64_encode (firstn 16 h))]))
  | PSp_other tag pn inner :
      (forall r, v <> VRef r) -> (forall c, v <> VSharedString c) -> name_rel e beh class k pn ->
      bytes_eqb tag (B "Item") = false -> bytes_eqb tag (B "Ref") = false -> bytes_eqb tag (B "SharedString") = false ->
      forallb item_free inner = true ->
      prop_spec class k v (Some (WNode tag (name_attr pn) inner)).

  (* the Item element of instance [id]; [ids] = the instances whose Items it contains, itself first, in document order *)
  Inductive item_spec : N -> wnode -> list N -> Prop :=
  | ISp id i x ons knodes kids :
      find_inst d id = Some i -> lookup id m = Some x ->
      Forall2 (fun kv on => prop_spec (i_class i) (fst kv) (snd kv) on) (bsort (i_props i)) ons ->
      items_spec (children_of d id) knodes kids ->
      item_spec id (item_node (i_class i) (dec_of_N x) (name_node (i_name i) :: flat_map opt_nodes ons) knodes) (id :: kids)
  with items_spec : list N -> list wnode -> list N -> Prop :=
  | ISp_nil : items_spec [] [] []
  | ISp_cons c n ids1 r ns ids2 : item_spec c n ids1 -> items_spec r ns ids2 -> items_spec (c :: r) (n :: ns) (ids1 ++ ids2).

  Scheme item_spec_ind2 := Minimality for item_spec Sort Prop
    with items_spec_ind2 := Minimality for items_spec Sort Prop.
  Combined Scheme spec_mutind from item_spec_ind2, items_spec_ind2.
End Spec.

Lemma prop_step_spec e beh class st k v on st1 stF :
  prop_step e beh class st k v on st1 -> st_le st1 stF -> prop_spec e beh (es_map stF) (es_shared stF) class k v on.
Proof.
  intros [|pn w n st' Hw Wr Ws Hn] [Lm Ld]; [constructor|].
  destruct Hw as [r st2 E|c h Hh|w tag inner N1 N2 T1 T2 T3 Hi].
  - assert (R : ref_text (es_map st2) r = ref_text (es_map stF) r /\ (r <> 0 -> exists x, lookup r (es_map stF) = Some x)).
    { unfold ref_text. destruct (r =? 0) eqn:E0; [split; [reflexivity|]; intro C; apply N.eqb_neq in C; congruence|].
      subst st2. pose proof (lookup_map_id st r) as L. rewrite L, (Lm _ _ L). split; [reflexivity|]. intros _. eexists. reflexivity. }
    destruct R as [-> Rx]. apply (PSp_ref e beh _ _ class k v r pn); [now apply Wr|exact Hn|exact Rx].
  - apply (PSp_shared e beh _ _ class k v c h pn); [now apply Ws|exact Hn|exact Hh|].
    apply Ld. cbn [es_shared]. apply shared_insert_keys. now left.
  - apply PSp_other; try assumption.
    + intros r E. apply Wr in E. exact (N1 r E).
    + intros c E. apply Ws in E. exact (N2 c E).
Qed.

Lemma props_run_spec e beh class st ps ons st2 stF :
  props_run e beh class st ps ons st2 -> st_le st2 stF ->
  Forall2 (fun kv on => prop_spec e beh (es_map stF) (es_shared stF) class (fst kv) (snd kv) on) ps ons.
Proof.
  induction 1 as [|st k v on st1 r ons st2 H1 H2 IH]; intro L; [constructor|].
  constructor; [|now apply IH]. cbn [fst snd]. eapply prop_step_spec; [exact H1|].
  eapply st_le_trans; [apply (props_run_ext _ _ _ _ _ _ _ H2)|exact L].
Qed.

Lemma run_spec e beh d :
  (forall st id n ids st', irun e beh d st id n ids st' ->
     forall stF, st_le st' stF -> item_spec e beh d (es_map stF) (es_shared stF) id n ids) /\
  (forall st cs ns ids st', kids_run e beh d st cs ns ids st' ->
     forall stF, st_le st' stF -> items_spec e beh d (es_map stF) (es_shared stF) cs ns ids).
Proof.
  apply run_mutind.
  - intros st id i ons st2 knodes kids st3 Hf Hp Hk IHk stF L.
    pose proof (proj1 (proj2 (run_ext e beh d) _ _ _ _ _ Hk)) as L23.
    pose proof (proj1 (props_run_ext _ _ _ _ _ _ _ Hp)) as L02.
    assert (L2F : st_le st2 stF) by (eapply st_le_trans; eassumption).
    apply ISp; [exact Hf| |eapply props_run_spec; eassumption|now apply IHk].
    apply (proj1 L), (proj1 L23), (proj1 L02), lookup_map_id.
  - intros st stF _. constructor.
  - intros st c n ids1 st1 r ns ids2 st2 H1 IH1 H2 IH2 stF L. constructor; [|now apply IH2].
    apply IH1. eapply st_le_trans; [apply (proj1 (proj2 (run_ext e beh d) _ _ _ _ _ H2))|exact L].
Qed.

(* ---- the dictionary element *)
Definition dict_entry (hc : bytes * bytes) : wnode :=
  WNode (B "SharedString") [(B "md5", b64_encode (firstn 16 (fst hc)))] [leaf (b64_encode (snd hc))].
Definition dict_nodes (dict : list (bytes * bytes)) : list wnode :=
  match dict with [] => [] | _ => [WNode (B "SharedStrings") [] (List.map dict_entry dict)] end.

Lemma flats_dict st : serialize_shared_strings st = flats (dict_nodes (es_shared st)).
Proof.
  unfold serialize_shared_strings, dict_nodes. destruct (es_shared st) as [|x r]; [reflexivity|].
  set (l := x :: r). cbn [flats flat_map flat]. rewrite app_nil_r. f_equal. f_equal.
  induction l as [|hc l IH]; [reflexivity|]. cbn [flat_map List.map]. rewrite IH. f_equal.
  unfold dict_entry. cbn [flat flat_map]. rewrite flat_leaf, app_nil_r. reflexivity.
Qed.

Definition doc_node (items dictn : list wnode) : wnode := WNode (B "roblox") [(B "version", B "4")] (items ++ dictn).

(* the instances written, in document order *)
Definition written (d : cdom) (roots : list N) : list N := flat_map (subtree d (S (List.length d))) roots.

(* ---- the master statement: the tree view of every emitted document, specified by the final referent map and dictionary *)
Theorem xml_encode_document e beh d roots evs :
  xml_encode e beh d roots = Ok evs ->
  exists m dict items,
    tree_of_wevents evs = Some [doc_node items (dict_nodes dict)] /\
    items_spec e beh d m dict roots items (written d roots) /\
    (forall r1 r2 x, lookup r1 m = Some x -> lookup r2 m = Some x -> r1 = r2) /\
    StronglySorted klt dict /\
    (forall h c, In (h, c) dict -> xe_hash e c = Some h).
Proof.
  unfold xml_encode. rewrite xml_encode_with_eq.
  destruct (seq_with (serialize_instance_with serialize_property (S (List.length d)) e beh d) roots es0) as [[body stF]| |c|] eqn:E;
    cbn [rbind]; try discriminate.
  intro H. inversion H; subst; clear H.
  destruct (seq_with_run e beh d _ (subtree d (S (List.length d))) (serialize_instance_run e beh d (S (List.length d))) _ _ _ _ E)
    as (items & -> & Hrun).
  exists (es_map stF), (es_shared stF), items. split; [|split; [|split; [|split]]].
  - apply tree_of_wevents_iff. rewrite flats_dict. unfold doc_node. cbn [flats flat_map]. rewrite flat_node, flats_app, app_nil_r, <- app_assoc.
    reflexivity.
  - apply (proj2 (run_spec e beh d) _ _ _ _ _ Hrun). apply st_le_refl.
  - apply (proj2 (proj2 (run_ext e beh d) _ _ _ _ _ Hrun) (st_ok_es0 e)).
  - exact (xml_encode_dictionary_sorted e beh d roots _ _ E).
  - apply (proj2 (proj2 (run_ext e beh d) _ _ _ _ _ Hrun) (st_ok_es0 e)).
Qed.
Print Assumptions xml_encode_document.

Lemma Forall2_imp {A B} (R R' : A -> B -> Prop) l l' : (forall a b, R a b -> R' a b) -> Forall2 R l l' -> Forall2 R' l l'.
Proof. intros H. induction 1; constructor; auto. Qed.

(* ================================================================= (1) the skeleton *)
Definition is_item_of (d : cdom) (r : N) (n : wnode) : Prop :=
  exists i referent props kids, find_inst d r = Some i /\ n = item_node (i_class i) referent props kids.

Lemma item_spec_is_item e beh d m dict id n ids : item_spec e beh d m dict id n ids -> is_item_of d id n.
Proof. intros [id' i x ons knodes kids Hf _ _ _]. exists i. repeat eexists. exact Hf. Qed.

Lemma items_spec_Forall2 e beh d m dict cs ns ids :
  items_spec e beh d m dict cs ns ids -> Forall2 (fun c n => exists ids', item_spec e beh d m dict c n ids') cs ns.
Proof.
  revert cs ns ids.
  apply (items_spec_ind2 e beh d m dict (fun id n ids => item_spec e beh d m dict id n ids)
           (fun cs ns ids => Forall2 (fun c n => exists ids', item_spec e beh d m dict c n ids') cs ns)).
  - intros id i x ons knodes kids Hf Hx Hp Hk _. now apply ISp.
  - constructor.
  - intros c n ids1 r ns ids2 _ H1 _ IH. constructor; [exists ids1; exact H1|exact IH].
Qed.

(* every emitted event list is, as a tree, exactly one `roblox` element whose only attribute is version="4"; its children
   are one Item element per root, in the order of the roots, followed by nothing or by exactly one SharedStrings element *)
Theorem xml_encode_skeleton e beh d roots evs :
  xml_encode e beh d roots = Ok evs ->
  exists items dictn,
    tree_of_wevents evs = Some [WNode (B "roblox") [(B "version", B "4")] (items ++ dictn)] /\
    Forall2 (is_item_of d) roots items /\
    (dictn = [] \/ exists entries, entries <> [] /\ dictn = [WNode (B "SharedStrings") [] entries]).
Proof.
  intro H. destruct (xml_encode_document _ _ _ _ _ H) as (m & dict & items & Ht & Hs & _).
  exists items, (dict_nodes dict). split; [exact Ht|split].
  - apply items_spec_Forall2 in Hs. eapply Forall2_imp; [|exact Hs].
    intros c0 n0 (ids' & Hn). eapply item_spec_is_item; exact Hn.
  - unfold dict_nodes. destruct dict as [|x r]; [left; reflexivity|right]. eexists. split; [|reflexivity]. discriminate.
Qed.
Print Assumptions xml_encode_skeleton.

(* ================================================================= (2) every Item element, at any depth *)
(* the elements named `Item` of a tree, in document order *)
Fixpoint items_of (n : wnode) : list wnode :=
  match n with
  | WNode t a ks => (if bytes_eqb t (B "Item") then [n] else []) ++ flat_map items_of ks
  | _ => []
  end.

Lemma item_free_items_of n : item_free n = true -> items_of n = [].
Proof.
  induction n as [t a ks IH| |] using wnode_ind'; intro H; [|reflexivity|reflexivity].
  cbn [item_free] in H. apply andb_true_iff in H. destruct H as [Ht Hk]. apply negb_true_iff in Ht.
  cbn [items_of]. rewrite Ht. cbn [app]. induction IH as [|x r Hx Hr IHr]; [reflexivity|].
  cbn [forallb] in Hk. apply andb_true_iff in Hk. destruct Hk as [Hk1 Hk2]. cbn [flat_map]. rewrite (Hx Hk1), (IHr Hk2). reflexivity.
Qed.

Lemma forallb_item_free_items_of ps : forallb item_free ps = true -> flat_map items_of ps = [].
Proof.
  induction ps as [|p ps IH]; [reflexivity|]. cbn [forallb flat_map]. intro H. apply andb_true_iff in H.
  destruct H as [H1 H2]. rewrite (item_free_items_of p H1), (IH H2). reflexivity.
Qed.

Lemma prop_spec_item_free e beh m dict class k v n : prop_spec e beh m dict class k v (Some n) -> item_free n = true.
Proof.
  intro H. inversion H; subst; cbn [item_free forallb]; rewrite ?leaf_item_free; try reflexivity.
  match goal with T : bytes_eqb _ (B "Item") = false, I : forallb item_free _ = true |- _ => rewrite T, I end. reflexivity.
Qed.

Lemma props_item_free e beh m dict class ps ons :
  Forall2 (fun kv on => prop_spec e beh m dict class (fst kv) (snd kv) on) ps ons ->
  forallb item_free (flat_map opt_nodes ons) = true.
Proof.
  induction 1 as [|kv on ps ons H _ IH]; [reflexivity|]. cbn [flat_map]. rewrite forallb_app, IH, andb_true_r.
  destruct on as [n|]; [|reflexivity]. cbn [opt_nodes forallb]. rewrite (prop_spec_item_free _ _ _ _ _ _ _ _ H). reflexivity.
Qed.

Lemma items_of_item_node c r props kids :
  items_of (item_node c r props kids) = item_node c r props kids :: items_of (WNode (B "Properties") [] props) ++ flat_map items_of kids.
Proof. reflexivity. Qed.

(* the Item elements of the tree of an instance are exactly the Items of the instances written below it, in order *)
Lemma spec_items_of e beh d m dict :
  (forall id n ids, item_spec e beh d m dict id n ids ->
     Forall2 (fun c x => exists ids', item_spec e beh d m dict c x ids') ids (items_of n)) /\
  (forall cs ns ids, items_spec e beh d m dict cs ns ids ->
     Forall2 (fun c x => exists ids', item_spec e beh d m dict c x ids') ids (flat_map items_of ns)).
Proof.
  pose (P := fun id n ids => item_spec e beh d m dict id n ids /\
                             Forall2 (fun c x => exists ids', item_spec e beh d m dict c x ids') ids (items_of n)).
  pose (P0 := fun cs ns ids => items_spec e beh d m dict cs ns ids /\
                               Forall2 (fun c x => exists ids', item_spec e beh d m dict c x ids') ids (flat_map items_of ns)).
  assert (M : (forall id n ids, item_spec e beh d m dict id n ids -> P id n ids) /\
              (forall cs ns ids, items_spec e beh d m dict cs ns ids -> P0 cs ns ids)).
  { apply spec_mutind; unfold P, P0.
    - intros id i x ons knodes kids Hf Hx Hp _ [Hk IHk].
      assert (Hme : item_spec e beh d m dict id
                      (item_node (i_class i) (dec_of_N x) (name_node (i_name i) :: flat_map opt_nodes ons) knodes) (id :: kids))
        by now apply ISp.
      split; [exact Hme|].
      assert (HP : items_of (WNode (B "Properties") [] (name_node (i_name i) :: flat_map opt_nodes ons)) = []).
      { apply item_free_items_of. unfold name_node. cbn [item_free forallb].
        rewrite (props_item_free _ _ _ _ _ _ _ Hp), leaf_item_free. reflexivity. }
      rewrite items_of_item_node, HP. cbn [app].
      constructor; [eexists; exact Hme|exact IHk].
    - split; constructor.
    - intros c n ids1 r ns ids2 _ [H1 IH1] _ [H2 IH2]. split; [now constructor|].
      cbn [flat_map]. now apply Forall2_app. }
  destruct M as [M1 M2]. split; [intros id n ids H; exact (proj2 (M1 _ _ _ H))|intros cs ns ids H; exact (proj2 (M2 _ _ _ H))].
Qed.

(* the shape of one Item element *)
Definition item_shape (d : cdom) (id : N) (x : wnode) : Prop :=
  exists i referent props kids,
    find_inst d id = Some i /\
    x = WNode (B "Item") [(B "class", i_class i); (B "referent", referent)] (WNode (B "Properties") [] props :: kids) /\
    forallb item_free props = true /\                      (* no Item inside the Properties element *)
    Forall2 (is_item_of d) (children_of d id) kids.          (* one Item per child, in children order, and nothing else *)

Lemma item_spec_shape e beh d m dict id n ids : item_spec e beh d m dict id n ids -> item_shape d id n.
Proof.
  intros [id' i x ons knodes kids Hf Hx Hp Hk]. exists i, (dec_of_N x), (name_node (i_name i) :: flat_map opt_nodes ons), knodes.
  split; [exact Hf|split; [reflexivity|split]].
  - cbn [forallb]. rewrite (props_item_free _ _ _ _ _ _ _ Hp), andb_true_r. unfold name_node. cbn [item_free forallb].
    rewrite leaf_item_free. reflexivity.
  - apply items_spec_Forall2 in Hk. eapply Forall2_imp; [|exact Hk]. intros c0 n0 (ids' & Hn). eapply item_spec_is_item; exact Hn.
Qed.

(* the Item elements of the document, at any depth and in document order, are the Items of the written instances in
   document order; each has exactly the attributes class (the instance's class name) and referent, in that order, exactly
   one Properties element, first, and then one Item per child instance in [children_of] order *)
Theorem xml_encode_items e beh d roots evs :
  xml_encode e beh d roots = Ok evs ->
  exists doc, tree_of_wevents evs = Some [doc] /\ Forall2 (item_shape d) (written d roots) (items_of doc).
Proof.
  intro H. destruct (xml_encode_document _ _ _ _ _ H) as (m & dict & items & Ht & Hs & _).
  eexists. split; [exact Ht|].
  apply (proj2 (spec_items_of e beh d m dict)) in Hs.
  unfold doc_node. cbn [items_of]. replace (bytes_eqb (B "roblox") (B "Item")) with false by reflexivity. cbn [app].
  rewrite flat_map_app.
  assert (Hd : flat_map items_of (dict_nodes dict) = []).
  { apply forallb_item_free_items_of. unfold dict_nodes. destruct dict as [|x r]; [reflexivity|].
    set (l := x :: r). cbn [forallb item_free]. replace (bytes_eqb (B "SharedStrings") (B "Item")) with false by reflexivity.
    rewrite andb_true_r. cbn [negb andb]. induction l as [|hc l IH]; [reflexivity|]. cbn [List.map forallb]. rewrite IH, andb_true_r.
    unfold dict_entry. cbn [item_free forallb]. rewrite leaf_item_free. reflexivity. }
  rewrite Hd, app_nil_r. eapply Forall2_imp; [|exact Hs]. intros c0 n0 (ids' & Hn). eapply item_spec_shape; exact Hn.
Qed.
Print Assumptions xml_encode_items.

(* ================================================================= (3) referents *)
Definition attr_of (k : bytes) (n : wnode) : option bytes := match n with WNode _ a _ => bfind k a | _ => None end.

Lemma dec_of_N_inj a b : dec_of_N a = dec_of_N b -> a = b.
Proof. intro H. pose proof (digits_val_dec a) as A. rewrite H, digits_val_dec in A. now inversion A. Qed.

Lemma Forall2_In_r {A B} (R : A -> B -> Prop) l l' y : Forall2 R l l' -> In y l' -> exists x, In x l /\ R x y.
Proof.
  induction 1 as [|a b l l' Hab _ IH]; [contradiction|]. intros [<-|Hy]; [exists a; split; [now left|exact Hab]|].
  destruct (IH Hy) as (x & Hx & Hr). exists x. split; [now right|exact Hr].
Qed.
Lemma Forall2_In_l {A B} (R : A -> B -> Prop) l l' x : Forall2 R l l' -> In x l -> exists y, In y l' /\ R x y.
Proof.
  induction 1 as [|a b l l' Hab _ IH]; [contradiction|]. intros [<-|Hx]; [exists b; split; [now left|exact Hab]|].
  destruct (IH Hx) as (y & Hy & Hr). exists y. split; [now right|exact Hr].
Qed.

Lemma Forall2_NoDup_map {A B C} (R : A -> B -> Prop) (f : B -> C) l l' :
  (forall a a' b b', R a b -> R a' b' -> f b = f b' -> a = a') -> Forall2 R l l' -> NoDup l -> NoDup (List.map f l').
Proof.
  intros Hinj. induction 1 as [|a b l l' Hab Hr IH]; intro Hnd; [constructor|].
  inversion Hnd as [|? ? Ha Hl]; subst. cbn [List.map]. constructor; [|now apply IH].
  intro Hin. apply in_map_iff in Hin. destruct Hin as (b' & Hf & Hb').
  destruct (Forall2_In_r _ _ _ _ Hr Hb') as (a' & Ha' & Hab'). apply Ha.
  rewrite (Hinj a a' b b' Hab Hab' (eq_sym Hf)). exact Ha'.
Qed.

(* the Item of instance [id] carries the numeral of the referent number the final map gives [id], and its class name *)
Definition item_referent (d : cdom) (m : list (N * N)) (id : N) (x : wnode) : Prop :=
  exists i v, find_inst d id = Some i /\ lookup id m = Some v /\
              attr_of (B "referent") x = Some (dec_of_N v) /\ attr_of (B "class") x = Some (i_class i).

Lemma item_spec_referent e beh d m dict id x ids : item_spec e beh d m dict id x ids -> item_referent d m id x.
Proof. intros [id' i v ons knodes kids Hf Hx _ _]. exists i, v. repeat split; assumption. Qed.

Definition map_injective (m : list (N * N)) : Prop := forall r1 r2 x, lookup r1 m = Some x -> lookup r2 m = Some x -> r1 = r2.

(* the tree of the document, the final referent map and dictionary, and the Items of the written instances: the form in
   which the remaining theorems use [xml_encode_document] *)
Lemma xml_encode_view e beh d roots evs :
  xml_encode e beh d roots = Ok evs ->
  exists m dict items,
    tree_of_wevents evs = Some [doc_node items (dict_nodes dict)] /\
    items_of (doc_node items (dict_nodes dict)) = flat_map items_of items /\
    Forall2 (fun id x => exists ids', item_spec e beh d m dict id x ids') (written d roots) (flat_map items_of items) /\
    map_injective m /\ StronglySorted klt dict /\ (forall h c, In (h, c) dict -> xe_hash e c = Some h).
Proof.
  intro H. destruct (xml_encode_document _ _ _ _ _ H) as (m & dict & items & Ht & Hs & Hinj & Hsort & Hh).
  exists m, dict, items. split; [exact Ht|]. split; [|split; [exact (proj2 (spec_items_of e beh d m dict) _ _ _ Hs)|auto]].
  unfold doc_node. cbn [items_of]. replace (bytes_eqb (B "roblox") (B "Item")) with false by reflexivity. cbn [app].
  rewrite flat_map_app.
  assert (Hd : flat_map items_of (dict_nodes dict) = []).
  { apply forallb_item_free_items_of. unfold dict_nodes. destruct dict as [|x r]; [reflexivity|].
    set (l := x :: r). cbn [forallb item_free]. replace (bytes_eqb (B "SharedStrings") (B "Item")) with false by reflexivity.
    rewrite andb_true_r. cbn [negb andb]. clear. induction l as [|hc l IH]; [reflexivity|]. cbn [List.map forallb]. rewrite IH, andb_true_r.
    unfold dict_entry. cbn [item_free forallb]. rewrite leaf_item_free. reflexivity. }
  rewrite Hd, app_nil_r. reflexivity.
Qed.

(* Referents.  There is an injective map [m] from instances to numbers such that the Item elements of the document, in
   document order, are the Items of the written instances in document order, each carrying  referent = numeral of m(id)
   and class = the class name.  Hence: no referent is `null`; Items of different instances carry different referents; and
   when no instance is written twice, the referent attributes of all Item elements are pairwise distinct. *)
Theorem xml_encode_referents e beh d roots evs :
  xml_encode e beh d roots = Ok evs ->
  exists doc m,
    tree_of_wevents evs = Some [doc] /\ map_injective m /\
    Forall2 (item_referent d m) (written d roots) (items_of doc) /\
    (forall x, In x (items_of doc) -> exists v, attr_of (B "referent") x = Some (dec_of_N v) /\ dec_of_N v <> B "null") /\
    (NoDup (written d roots) -> NoDup (List.map (attr_of (B "referent")) (items_of doc))).
Proof.
  intro H. destruct (xml_encode_view _ _ _ _ _ H) as (m & dict & items & Ht & Hi & Hs & Hinj & _).
  exists (doc_node items (dict_nodes dict)), m. rewrite Hi.
  assert (Hr : Forall2 (item_referent d m) (written d roots) (flat_map items_of items)).
  { eapply Forall2_imp; [|exact Hs]. intros c0 n0 (ids' & Hn). eapply item_spec_referent; exact Hn. }
  split; [exact Ht|split; [exact Hinj|split; [exact Hr|split]]].
  - intros x Hx. destruct (Forall2_In_r _ _ _ _ Hr Hx) as (id & _ & i & v & _ & _ & Ha & _).
    exists v. split; [exact Ha|apply dec_of_N_not_null].
  - apply (Forall2_NoDup_map (item_referent d m)); [|exact Hr].
    intros a a' b b' (i & v & _ & Hl & Ha & _) (i' & v' & _ & Hl' & Ha' & _) E. rewrite Ha, Ha' in E. inversion E as [E'].
    apply dec_of_N_inj in E'. subst v'. exact (Hinj _ _ _ Hl Hl').
Qed.
Print Assumptions xml_encode_referents.

(* the hypothesis is needed: a root listed twice (or an instance reachable twice) is written twice, under one referent *)
Example duplicate_root_duplicate_referent :
  xml_encode e0 EWriteUnknown [mkInst 1 0 (B "Folder") (B "f") []] [1; 1]
  = Ok [WStart (B "roblox") [(B "version", B "4")];
        WStart (B "Item") [(B "class", B "Folder"); (B "referent", B "0")];
        WStart (B "Properties") []; WStart (B "string") [(B "name", B "Name")]; WChars (B "f"); WEnd; WEnd; WEnd;
        WStart (B "Item") [(B "class", B "Folder"); (B "referent", B "0")];
        WStart (B "Properties") []; WStart (B "string") [(B "name", B "Name")]; WChars (B "f"); WEnd; WEnd; WEnd;
        WEnd].
Proof. vm_compute. reflexivity. Qed.

(* ================================================================= the property elements of an Item *)
Definition tag_of (n : wnode) : bytes := match n with WNode t _ _ => t | _ => [] end.
Definition kids_of (n : wnode) : list wnode := match n with WNode _ _ ks => ks | _ => [] end.
(* the children of the first child: for an Item, the children of its Properties element *)
Definition props_of (x : wnode) : list wnode := match kids_of x with p :: _ => kids_of p | [] => [] end.

Lemma Forall2_opt_nodes {A} (R : A -> option wnode -> Prop) ps ons p :
  Forall2 R ps ons -> In p (flat_map opt_nodes ons) -> exists a, In a ps /\ R a (Some p).
Proof.
  induction 1 as [|a on ps ons Ha _ IH]; [contradiction|]. cbn [flat_map]. intro Hin. apply in_app_or in Hin.
  destruct Hin as [Hin|Hin].
  - destruct on as [n|]; [|contradiction]. destruct Hin as [<-|[]]. exists a. split; [now left|exact Ha].
  - destruct (IH Hin) as (a' & Ha' & Hr). exists a'. split; [now right|exact Hr].
Qed.

(* every child of the Properties element of the Item of [id] is the Name element or the element of one of the
   instance's properties *)
Lemma item_spec_props e beh d m dict id x ids : item_spec e beh d m dict id x ids ->
  exists i, find_inst d id = Some i /\
    forall p, In p (props_of x) ->
      p = name_node (i_name i) \/ exists k v, In (k, v) (i_props i) /\ prop_spec e beh m dict (i_class i) k v (Some p).
Proof.
  intros [id' i v ons knodes kids Hf _ Hp _]. exists i. split; [exact Hf|]. intros p Hin.
  cbn [props_of item_node kids_of] in Hin. destruct Hin as [<-|Hin]; [left; reflexivity|right].
  destruct (Forall2_opt_nodes _ _ _ _ Hp Hin) as ([k v'] & Hkv & Hs). exists k, v'. split; [|exact Hs].
  eapply Permutation_in; [apply bsort_permutation|exact Hkv].
Qed.

(* ================================================================= (5) the dictionary *)
Definition md5_key (h : bytes) : bytes := b64_encode (firstn 16 h).

Lemma in_dict_keys {V} h (dict : list (bytes * V)) : In h (List.map fst dict) -> exists c, In (h, c) dict.
Proof. intro H. apply in_map_iff in H. destruct H as ([h' c] & <- & Hin). exists c. exact Hin. Qed.

(* The SharedStrings element (absent when no shared string was met) has one SharedString child per entry of the final
   dictionary [dict], which is strictly sorted by hash (one entry per hash) and holds (hash of c, c) pairs; the entry of
   (h, c) has the single attribute md5 = base64 of the first 16 bytes of h and the text base64 of c.  Every SharedString
   property element in the body belongs to a SharedString value c of the instance, and its text is the md5 attribute of
   the dictionary entry stored under the hash of c: every key used is defined. *)
Theorem xml_encode_dictionary e beh d roots evs :
  xml_encode e beh d roots = Ok evs ->
  exists items dict,
    tree_of_wevents evs = Some [WNode (B "roblox") [(B "version", B "4")] (items ++ dict_nodes dict)] /\
    StronglySorted klt dict /\
    (forall h c, In (h, c) dict -> xe_hash e c = Some h) /\
    Forall2 (fun id x =>
      exists i, find_inst d id = Some i /\
        forall p, In p (props_of x) -> tag_of p = B "SharedString" ->
          exists k c h c', In (k, VSharedString c) (i_props i) /\ xe_hash e c = Some h /\
                           kids_of p = [leaf (md5_key h)] /\
                           In (h, c') dict /\ attr_of (B "md5") (dict_entry (h, c')) = Some (md5_key h))
      (written d roots) (flat_map items_of items).
Proof.
  intro H. destruct (xml_encode_view _ _ _ _ _ H) as (m & dict & items & Ht & _ & Hs & _ & Hsort & Hh).
  exists items, dict. split; [exact Ht|split; [exact Hsort|split; [exact Hh|]]].
  eapply Forall2_imp; [|exact Hs]. intros id x (ids' & Hx).
  destruct (item_spec_props _ _ _ _ _ _ _ _ Hx) as (i & Hf & Hp). exists i. split; [exact Hf|].
  intros p Hin Htag. destruct (Hp p Hin) as [->|(k & v & Hkv & Hspec)]; [discriminate Htag|].
  inversion Hspec as [|r pn Hv _ _ Hn|c h pn Hv _ Hhash Hd Hn|tag pn inner _ _ _ _ _ T3 _ Hn]; subst p.
  - discriminate Htag.
  - subst v. destruct (in_dict_keys _ _ Hd) as (c' & Hc'). exists k, c, h, c'. repeat split; try assumption.
  - cbn [tag_of] in Htag. subst tag. discriminate T3.
Qed.
Print Assumptions xml_encode_dictionary.

(* ---- when are the keys of the dictionary unique?  The dictionary is keyed by the whole hash, the document by its first
   16 bytes.  If hashes that agree on their first 16 bytes are equal (and are byte strings), no md5 attribute occurs twice. *)
Definition prefix_injective (e : xenv) : Prop :=
  forall c1 c2 h1 h2, xe_hash e c1 = Some h1 -> xe_hash e c2 = Some h2 -> firstn 16 h1 = firstn 16 h2 -> h1 = h2.
Definition hash_is_bytes (e : xenv) : Prop := forall c h, xe_hash e c = Some h -> Forall (fun x => x < 256) h.

Lemma Forall_firstn {A} (P : A -> Prop) n l : Forall P l -> Forall P (firstn n l).
Proof. intro H. rewrite <- (firstn_skipn n l) in H. apply Forall_app in H. tauto. Qed.

Lemma b64_encode_inj a b : Forall (fun x => x < 256) a -> Forall (fun x => x < 256) b -> b64_encode a = b64_encode b -> a = b.
Proof. intros Ha Hb E. pose proof (b64_roundtrip a Ha) as A. rewrite E, (b64_roundtrip b Hb) in A. now inversion A. Qed.

Lemma sorted_keys_NoDup {V} (l : list (bytes * V)) : StronglySorted klt l -> NoDup (List.map fst l).
Proof.
  induction 1 as [|x l _ IH Hx]; [constructor|]. cbn [List.map]. constructor; [|exact IH].
  intro Hin. apply in_map_iff in Hin. destruct Hin as (y & Hy & Hin). rewrite Forall_forall in Hx. specialize (Hx y Hin).
  unfold klt in Hx. rewrite Hy, bltb_irrefl in Hx. discriminate.
Qed.

Theorem dictionary_keys_unique e (dict : list (bytes * bytes)) :
  prefix_injective e -> hash_is_bytes e ->
  StronglySorted klt dict -> (forall h c, In (h, c) dict -> xe_hash e c = Some h) ->
  NoDup (List.map (fun hc => md5_key (fst hc)) dict).
Proof.
  intros Hpi Hb Hs Hh. apply sorted_keys_NoDup in Hs. clear - Hpi Hb Hs Hh.
  induction dict as [|[h c] r IH]; [constructor|]. cbn [List.map fst] in *. inversion Hs as [|? ? Hn Hr]; subst.
  constructor; [|apply IH; [exact Hr|intros h' c' Hin; apply Hh; now right]].
  intro Hin. apply in_map_iff in Hin. destruct Hin as ([h' c'] & Hk & Hin). cbn [fst] in Hk. apply Hn.
  assert (H1 : xe_hash e c = Some h) by (apply Hh; now left).
  assert (H2 : xe_hash e c' = Some h') by (apply Hh; now right).
  unfold md5_key in Hk. apply b64_encode_inj in Hk; try (apply Forall_firstn; eapply Hb; eassumption).
  rewrite (Hpi _ _ _ _ H1 H2 (eq_sym Hk)). apply in_map_iff. exists (h', c'). split; [reflexivity|exact Hin].
Qed.
Print Assumptions dictionary_keys_unique.

Corollary xml_encode_dictionary_keys_unique e beh d roots evs :
  prefix_injective e -> hash_is_bytes e -> xml_encode e beh d roots = Ok evs ->
  exists items dict,
    tree_of_wevents evs = Some [WNode (B "roblox") [(B "version", B "4")] (items ++ dict_nodes dict)] /\
    NoDup (List.map (attr_of (B "md5")) (List.map dict_entry dict)).
Proof.
  intros Hpi Hb H. destruct (xml_encode_dictionary _ _ _ _ _ H) as (items & dict & Ht & Hs & Hh & _).
  exists items, dict. split; [exact Ht|]. rewrite map_map.
  pose proof (dictionary_keys_unique e dict Hpi Hb Hs Hh) as Hnd.
  assert (Hinj : forall a b : bytes, Some a = Some b -> a = b) by (intros a b E; now inversion E).
  replace (List.map (fun x => attr_of (B "md5") (dict_entry x)) dict) with (List.map Some (List.map (fun hc => md5_key (fst hc)) dict))
    by (rewrite map_map; reflexivity).
  apply FinFun.Injective_map_NoDup; [exact Hinj|exact Hnd].
Qed.

Print Assumptions xml_encode_dictionary_keys_unique.

(* a finding about the truncation: two contents whose 32-byte hashes agree on the first 16 bytes get two dictionary entries
   under ONE md5 key, both property elements carry that key, and reading the document back gives both properties the
   content of the later entry.  (In the crate the hash is blake3, so this needs a 128-bit prefix collision.) *)
Definition h_a : bytes := repeat 7 16 ++ repeat 1 16.
Definition h_b : bytes := repeat 7 16 ++ repeat 2 16.
Definition e_amb : xenv := mkXE (mkDb [] []) [] [] o0
  (fun c => if bytes_eqb c (B "aaa") then Some h_a else if bytes_eqb c (B "bbb") then Some h_b else None).
Definition d_amb : cdom :=
  [mkInst 1 0 (B "Folder") (B "f") [(B "S1", VSharedString (B "aaa")); (B "S2", VSharedString (B "bbb"))]].

Example truncated_hash_makes_dictionary_ambiguous :
  h_a <> h_b /\ firstn 16 h_a = firstn 16 h_b /\
  exists items e1 e2,
    (evs <- xml_encode e_amb EWriteUnknown d_amb [1] ;; Ok (tree_of_wevents evs))
      = Ok (Some [WNode (B "roblox") [(B "version", B "4")] (items ++ [WNode (B "SharedStrings") [] [e1; e2]])]) /\
    attr_of (B "md5") e1 = attr_of (B "md5") e2 /\ kids_of e1 = [WText (B "YWFh")] /\ kids_of e2 = [WText (B "YmJi")] /\
    (evs <- xml_encode e_amb EWriteUnknown d_amb [1] ;; revs <- channel evs ;; xml_decode e_amb DReadUnknown revs)
      = Ok [mkInst 1 0 (B "Folder") (B "f") [(B "S2", VSharedString (B "bbb")); (B "S1", VSharedString (B "bbb"))]].
Proof.
  split; [vm_compute; discriminate|]. split; [reflexivity|].
  eexists [_], _, _. split; [vm_compute; reflexivity|]. repeat split; vm_compute; reflexivity.
Qed.

(* ================================================================= (4) Ref elements *)
Lemma ref_text_null m r : (r <> 0 -> exists v, lookup r m = Some v) -> (ref_text m r = B "null" <-> r = 0).
Proof.
  intro Hv. unfold ref_text. destruct (N.eqb_spec r 0) as [->|Hne]; [tauto|].
  destruct (Hv Hne) as (v & ->). split; [intro E; destruct (dec_of_N_not_null v E)|contradiction].
Qed.

(* use and definition agree: the text of a Ref element for the target [r] is the referent attribute of the Item of [r] *)
Lemma ref_text_matches_item d m r x : r <> 0 -> item_referent d m r x -> attr_of (B "referent") x = Some (ref_text m r).
Proof.
  intros Hne (i & v & _ & Hl & Ha & _). unfold ref_text. apply N.eqb_neq in Hne. rewrite Hne, Hl. exact Ha.
Qed.

Lemma prop_spec_ref_iff e beh m dict class k v p :
  prop_spec e beh m dict class k v (Some p) -> (tag_of p = B "Ref" <-> exists r, v = VRef r).
Proof.
  intro H. inversion H as [|r pn Hv _ _ Hn|c h pn Hv _ _ _ Hn|tag pn inner N1 _ _ _ T2 _ _ Hn]; subst p; cbn [tag_of].
  - split; [intros _; eexists; exact Hv|reflexivity].
  - split; [discriminate|]. intros (r & E). congruence.
  - split; [intro E; subst tag; discriminate T2|]. intros (r & E). destruct (N1 r E).
Qed.

(* Ref elements.  With the injective map [m] of [xml_encode_referents] (each Item of instance id carries the numeral of
   m(id)): among the children of the Properties element of the Item of an instance, the elements named Ref are exactly the
   elements of its Ref-valued properties that are written; the text of the element of VRef r is `null` iff r is the null
   Ref 0, and otherwise the numeral of m(r), which is the referent attribute of every Item of instance r in the document,
   wherever it stands (before or after the use), and of no Item of another instance: so if r is not written, of no Item. *)
Theorem xml_encode_refs e beh d roots evs :
  xml_encode e beh d roots = Ok evs ->
  exists doc m,
    tree_of_wevents evs = Some [doc] /\ map_injective m /\
    Forall2 (item_referent d m) (written d roots) (items_of doc) /\
    Forall2 (fun id x =>
      exists i, find_inst d id = Some i /\
        forall p, In p (props_of x) -> tag_of p = B "Ref" ->
          exists k r, In (k, VRef r) (i_props i) /\ kids_of p = [WText (ref_text m r)] /\
            (ref_text m r = B "null" <-> r = 0) /\
            (r <> 0 ->
               (exists v, lookup r m = Some v /\ ref_text m r = dec_of_N v) /\
               (forall id' x', In x' (items_of doc) -> item_referent d m id' x' ->
                               (attr_of (B "referent") x' = Some (ref_text m r) <-> id' = r))))
      (written d roots) (items_of doc).
Proof.
  intro H. destruct (xml_encode_view _ _ _ _ _ H) as (m & dict & items & Ht & Hi & Hs & Hinj & _).
  exists (doc_node items (dict_nodes dict)), m. rewrite Hi.
  assert (Hr : Forall2 (item_referent d m) (written d roots) (flat_map items_of items)).
  { eapply Forall2_imp; [|exact Hs]. intros c0 n0 (ids' & Hn). eapply item_spec_referent; exact Hn. }
  split; [exact Ht|split; [exact Hinj|split; [exact Hr|]]].
  eapply Forall2_imp; [|exact Hs]. intros id x (ids' & Hx).
  destruct (item_spec_props _ _ _ _ _ _ _ _ Hx) as (i & Hf & Hp). exists i. split; [exact Hf|].
  intros p Hin Htag. destruct (Hp p Hin) as [->|(k & v & Hkv & Hspec)]; [discriminate Htag|].
  inversion Hspec as [|r pn Hv _ Hlk Hn|c h pn Hv _ _ _ Hn|tag pn inner _ _ _ _ T2 _ _ Hn]; subst p.
  - subst v. exists k, r. split; [exact Hkv|split; [reflexivity|split; [now apply ref_text_null|]]].
    intro Hne. destruct (Hlk Hne) as (v & Hv). split.
    + exists v. split; [exact Hv|]. unfold ref_text. apply N.eqb_neq in Hne. rewrite Hne, Hv. reflexivity.
    + intros id' x' _ Hx'. split.
      * intro E. destruct Hx' as (i' & v' & _ & Hl' & Ha' & _). rewrite Ha' in E. unfold ref_text in E.
        pose proof Hne as Hne'. apply N.eqb_neq in Hne'. rewrite Hne', Hv in E. inversion E as [E'].
        apply dec_of_N_inj in E'. subst v'. exact (Hinj _ _ _ Hl' Hv).
      * intros ->. now apply (ref_text_matches_item d).
  - discriminate Htag.
  - cbn [tag_of] in Htag. subst tag. discriminate T2.
Qed.
Print Assumptions xml_encode_refs.

(* ================================================================= (6) the Properties element *)
Definition attrs_of (n : wnode) : attrs := match n with WNode _ a _ => a | _ => [] end.
Definition pname_of (n : wnode) : bytes := match attr_of (B "name") n with Some v => v | None => [] end.

Lemma prop_spec_name e beh m dict class k v p :
  prop_spec e beh m dict class k v (Some p) -> exists pn, attrs_of p = [(B "name", pn)] /\ name_rel e beh class k pn.
Proof. intro H. inversion H; subst; eexists; (split; [reflexivity|assumption]). Qed.

Lemma prop_spec_shared_iff e beh m dict class k v p :
  prop_spec e beh m dict class k v (Some p) -> (tag_of p = B "SharedString" <-> exists c, v = VSharedString c).
Proof.
  intro H. inversion H as [|r pn Hv _ _ Hn|c h pn Hv _ _ _ Hn|tag pn inner _ N2 _ _ _ T3 _ Hn]; subst p; cbn [tag_of].
  - split; [discriminate|]. intros (c & E). congruence.
  - split; [intros _; eexists; exact Hv|reflexivity].
  - split; [intro E; subst tag; discriminate T3|]. intros (c & E). destruct (N2 c E).
Qed.

(* what one property element looks like, relative to the property (k, v) it is written for *)
Definition prop_elem (e : xenv) (beh : ebehavior) (class : bytes) (kv : bytes * value) (p : wnode) : Prop :=
  item_free p = true /\
  (exists pn, attrs_of p = [(B "name", pn)] /\ name_rel e beh class (fst kv) pn) /\
  (tag_of p = B "Ref" <-> exists r, snd kv = VRef r) /\
  (tag_of p = B "SharedString" <-> exists c, snd kv = VSharedString c).

(* Exactly one Properties element per Item (it is the first child, every other child is an Item: [xml_encode_items]), and
   inside it: first the `string` element named Name with the instance's name, then, for the properties of the instance in
   the byte order of their keys, nothing or one element each.  The element's only attribute is `name`; its value is the
   key itself or the name the database gives ([name_rel]: serialized form or migration target). *)
Theorem xml_encode_properties e beh d roots evs :
  xml_encode e beh d roots = Ok evs ->
  exists doc,
    tree_of_wevents evs = Some [doc] /\
    Forall2 (fun id x =>
      exists i ons, find_inst d id = Some i /\
        props_of x = WNode (B "string") [(B "name", B "Name")] [leaf (i_name i)] :: flat_map opt_nodes ons /\
        Forall2 (fun kv on => forall p, on = Some p -> prop_elem e beh (i_class i) kv p) (bsort (i_props i)) ons)
      (written d roots) (items_of doc).
Proof.
  intro H. destruct (xml_encode_view _ _ _ _ _ H) as (m & dict & items & Ht & Hi & Hs & _).
  exists (doc_node items (dict_nodes dict)). rewrite Hi. split; [exact Ht|].
  eapply Forall2_imp; [|exact Hs]. intros id x (ids' & Hx).
  destruct Hx as [id' i v ons knodes kids Hf _ Hp _]. exists i, ons. split; [exact Hf|split; [reflexivity|]].
  eapply Forall2_imp; [|exact Hp]. intros kv on Hspec p ->. split; [|split; [|split]].
  - eapply prop_spec_item_free; exact Hspec.
  - eapply prop_spec_name; exact Hspec.
  - eapply prop_spec_ref_iff; exact Hspec.
  - eapply prop_spec_shared_iff; exact Hspec.
Qed.
Print Assumptions xml_encode_properties.

(* ---- the order of the `name` attributes *)
Inductive subseq {A} : list A -> list A -> Prop :=
| SS_nil : subseq [] []
| SS_skip x l l' : subseq l l' -> subseq l (x :: l')
| SS_take x l l' : subseq l l' -> subseq (x :: l) (x :: l').

Lemma subseq_In {A} (l l' : list A) x : subseq l l' -> In x l -> In x l'.
Proof. induction 1; intro Hin; [contradiction|right; auto|destruct Hin; [left; assumption|right; auto]]. Qed.

Lemma subseq_sorted {A} (R : A -> A -> Prop) l l' : subseq l l' -> StronglySorted R l' -> StronglySorted R l.
Proof.
  induction 1 as [|x l l' Hs IH|x l l' Hs IH]; intro H; [constructor| |].
  - apply StronglySorted_inv in H. now apply IH.
  - apply StronglySorted_inv in H. destruct H as [H1 H2]. constructor; [now apply IH|].
    rewrite Forall_forall in *. intros y Hy. apply H2. eapply subseq_In; eassumption.
Qed.

Definition blt (a b : bytes) : Prop := bytes_ltb a b = true.

Lemma sorted_map_fst {V} (l : list (bytes * V)) : StronglySorted klt l -> StronglySorted blt (List.map fst l).
Proof.
  induction 1 as [|x l _ IH Hx]; [constructor|]. cbn [List.map]. constructor; [exact IH|].
  rewrite Forall_forall in *. intros k Hk. apply in_map_iff in Hk. destruct Hk as (y & <- & Hy). exact (Hx y Hy).
Qed.

Lemma name_rel_noreflection e class k pn : name_rel e ENoReflection class k pn -> pn = k.
Proof. intros [[_ ->]|(canon & ser & Hd & _)]; [reflexivity|discriminate Hd]. Qed.

Lemma own_names_subseq (ps : list (bytes * value)) ons :
  Forall2 (fun kv on => forall p, on = Some p -> pname_of p = fst kv) ps ons ->
  subseq (List.map pname_of (flat_map opt_nodes ons)) (List.map fst ps).
Proof.
  induction 1 as [|kv on ps ons H _ IH]; [constructor|].
  cbn [flat_map List.map]. destruct on as [p|]; cbn [opt_nodes app List.map].
  - rewrite (H p eq_refl). now constructor.
  - now constructor.
Qed.

(* without reflection every element is written under its own key: the names after `Name` are a subsequence of the sorted
   keys, strictly increasing when the instance has no key twice *)
Theorem xml_encode_properties_sorted_noreflection e d roots evs :
  xml_encode e ENoReflection d roots = Ok evs ->
  exists doc,
    tree_of_wevents evs = Some [doc] /\
    Forall2 (fun id x =>
      exists i, find_inst d id = Some i /\
        subseq (List.map pname_of (tl (props_of x))) (List.map fst (bsort (i_props i))) /\
        (NoDup (List.map fst (i_props i)) -> StronglySorted blt (List.map pname_of (tl (props_of x)))))
      (written d roots) (items_of doc).
Proof.
  intro H. destruct (xml_encode_properties _ _ _ _ _ H) as (doc & Ht & Hs). exists doc. split; [exact Ht|].
  eapply Forall2_imp; [|exact Hs]. intros id x (i & ons & Hf & Hp & Hps). exists i. split; [exact Hf|].
  rewrite Hp. cbn [tl].
  assert (Hsub : subseq (List.map pname_of (flat_map opt_nodes ons)) (List.map fst (bsort (i_props i)))).
  { apply own_names_subseq. eapply Forall2_imp; [|exact Hps].
    intros kv on Hon p Ep. destruct (Hon p Ep) as (_ & (pn & Ha & Hn) & _). apply name_rel_noreflection in Hn. subst pn.
    unfold pname_of, attr_of. destruct p as [t a ks| |]; cbn [attrs_of] in Ha; try discriminate. rewrite Ha. reflexivity. }
  split; [exact Hsub|]. intro Hnd. eapply subseq_sorted; [exact Hsub|]. apply sorted_map_fst, bsort_sorted, Hnd.
Qed.
Print Assumptions xml_encode_properties_sorted_noreflection.

(* with reflection the names need NOT be sorted: as in the bundled database, `Size` is serialized as `size`, which sorts
   after `Transparency` *)
Definition o_zero : xoracle :=
  mkXO (fun x => if x =? 0 then Some (B "0") else None) (fun _ => None) (fun _ => None) (fun _ => None) (fun _ => None) (fun _ => None).
Definition db_size : db :=
  mkDb [mkCD "Part" None false
          [mkPD "Size" (DValue 29) (KCanon (PSerAs "size")); mkPD "size" (DValue 29) (KAlias "Size");
           mkPD "Transparency" (DValue 11) (KCanon PSerializes); mkPD "Name" (DValue 24) (KCanon PSerializes)] []] [].
Definition e_size : xenv := mkXE db_size [] [] o_zero (fun _ => None).

Example names_not_sorted_with_reflection :
  exists doc x,
    (evs <- xml_encode e_size EIgnoreUnknown
              [mkInst 1 0 (B "Part") (B "p") [(B "Transparency", VFloat32 0); (B "Size", VVector3 (mkV3 0 0 0))]] [1] ;;
     Ok (tree_of_wevents evs)) = Ok (Some [doc]) /\
    items_of doc = [x] /\ List.map pname_of (props_of x) = [B "Name"; B "size"; B "Transparency"] /\
    bytes_ltb (B "size") (B "Transparency") = false.
Proof. eexists _, _. split; [vm_compute; reflexivity|]. split; [reflexivity|]. split; reflexivity. Qed.

(* ================================================================= non-vacuity: the tree view of concrete documents *)
Definition h_c : bytes := repeat 9 32.
Definition e_ex : xenv := mkXE (mkDb [] []) [] [] o0
  (fun c => if bytes_eqb c (B "xyz") then Some h_a else if bytes_eqb c (B "abc") then Some h_c else None).

(* a forward reference (1 -> 2, written `1` before the Item with referent 1), a backward one, a null one, a shared string *)
Definition d_small : cdom :=
  [mkInst 1 0 (B "ObjectValue") (B "a") [(B "Value", VRef 2); (B "S", VSharedString (B "xyz"))];
   mkInst 2 1 (B "Folder") (B "b") [(B "Up", VRef 1); (B "None", VRef 0)]].

Example tree_view_small :
  exists evs, xml_encode e_ex EWriteUnknown d_small [1] = Ok evs /\
  tree_of_wevents evs = Some
    [WNode (B "roblox") [(B "version", B "4")]
       [WNode (B "Item") [(B "class", B "ObjectValue"); (B "referent", B "0")]
          [WNode (B "Properties") []
             [WNode (B "string") [(B "name", B "Name")] [WText (B "a")];
              WNode (B "SharedString") [(B "name", B "S")] [WText (B "BwcHBwcHBwcHBwcHBwcHBw==")];
              WNode (B "Ref") [(B "name", B "Value")] [WText (B "1")]];
           WNode (B "Item") [(B "class", B "Folder"); (B "referent", B "1")]
             [WNode (B "Properties") []
                [WNode (B "string") [(B "name", B "Name")] [WText (B "b")];
                 WNode (B "Ref") [(B "name", B "None")] [WText (B "null")];
                 WNode (B "Ref") [(B "name", B "Up")] [WText (B "0")]]]];
        WNode (B "SharedStrings") []
          [WNode (B "SharedString") [(B "md5", B "BwcHBwcHBwcHBwcHBwcHBw==")] [WText (B "eHl6")]]]].
Proof. eexists. split; vm_compute; reflexivity. Qed.

(* two roots, three levels, a forward reference to a grandchild, a dangling reference, one shared string used twice and
   another one: the hypotheses of the theorems hold and their conclusions can be read off *)
Definition d_ex : cdom :=
  [mkInst 1 0 (B "Folder") (B "root") [(B "Target", VRef 3); (B "Nothing", VRef 0); (B "Blob", VSharedString (B "xyz"))];
   mkInst 2 1 (B "Model") (B "m") [(B "Back", VRef 1); (B "Blob2", VSharedString (B "xyz"))];
   mkInst 3 2 (B "Part") (B "p") [(B "Dangling", VRef 99)];
   mkInst 4 0 (B "Folder") (B "g") [(B "Other", VSharedString (B "abc"))]].

Example tree_view_ex :
  written d_ex [1; 4] = [1; 2; 3; 4] /\ NoDup (written d_ex [1; 4]) /\
  exists evs doc items e1 e2,
    xml_encode e_ex EWriteUnknown d_ex [1; 4] = Ok evs /\ tree_of_wevents evs = Some [doc] /\
    doc = WNode (B "roblox") [(B "version", B "4")] (items ++ [WNode (B "SharedStrings") [] [e1; e2]]) /\
    List.map (attr_of (B "class")) (items_of doc) = [Some (B "Folder"); Some (B "Model"); Some (B "Part"); Some (B "Folder")] /\
    List.map (attr_of (B "referent")) (items_of doc) = [Some (B "0"); Some (B "2"); Some (B "1"); Some (B "4")] /\
    List.map (fun x => List.map (fun p => (tag_of p, pname_of p, kids_of p)) (props_of x)) (items_of doc) =
      [[(B "string", B "Name", [WText (B "root")]); (B "SharedString", B "Blob", [WText (B "BwcHBwcHBwcHBwcHBwcHBw==")]);
        (B "Ref", B "Nothing", [WText (B "null")]); (B "Ref", B "Target", [WText (B "1")])];
       [(B "string", B "Name", [WText (B "m")]); (B "Ref", B "Back", [WText (B "0")]);
        (B "SharedString", B "Blob2", [WText (B "BwcHBwcHBwcHBwcHBwcHBw==")])];
       [(B "string", B "Name", [WText (B "p")]); (B "Ref", B "Dangling", [WText (B "3")])];
       [(B "string", B "Name", [WText (B "g")]); (B "SharedString", B "Other", [WText (B "CQkJCQkJCQkJCQkJCQkJCQ==")])]] /\
    List.map (attr_of (B "md5")) [e1; e2] = [Some (B "BwcHBwcHBwcHBwcHBwcHBw=="); Some (B "CQkJCQkJCQkJCQkJCQkJCQ==")].
Proof.
  split; [reflexivity|]. split; [repeat constructor; cbn; intuition discriminate|].
  eexists _, _, [_; _], _, _. split; [vm_compute; reflexivity|]. split; [vm_compute; reflexivity|].
  split; [reflexivity|]. repeat split; vm_compute; reflexivity.
Qed.

(* the hypotheses of [dictionary_keys_unique] are satisfiable by an oracle that hashes something *)
Example e_ex_keys_unique : prefix_injective e_ex /\ hash_is_bytes e_ex.
Proof.
  split.
  - intros c1 c2 h1 h2. cbn [xe_hash e_ex].
    destruct (bytes_eqb c1 (B "xyz")), (bytes_eqb c1 (B "abc")), (bytes_eqb c2 (B "xyz")), (bytes_eqb c2 (B "abc"));
      intros H1 H2; inversion H1; inversion H2; subst; try reflexivity; intro E; vm_compute in E; discriminate E.
  - intros c h. cbn [xe_hash e_ex]. destruct (bytes_eqb c (B "xyz")); [|destruct (bytes_eqb c (B "abc")); [|discriminate]];
      intro H; inversion H; subst; repeat constructor.
Qed.

(* EXPORT (for Properties/C05.v):
     tree_of_wevents_iff flats_injective                        (A) the tree view: evs parses to ts iff evs = flats ts
     xml_encode_document                                        master statement (tree + final map + dictionary + item_spec)
     xml_encode_skeleton                                        (1)
     xml_encode_items                                           (2)   (item_shape)
     xml_encode_referents                                       (3)   example: duplicate_root_duplicate_referent (hypothesis needed)
     xml_encode_dictionary dictionary_keys_unique xml_encode_dictionary_keys_unique
                                                                (5)   finding: truncated_hash_makes_dictionary_ambiguous;
                                                                      satisfiable: e_ex_keys_unique
     xml_encode_refs                                            (4)   (ref_text_null, ref_text_matches_item)
     xml_encode_properties xml_encode_properties_sorted_noreflection
                                                                (6)   example: names_not_sorted_with_reflection
     tree_view_small tree_view_ex                               non-vacuity: computed tree views *)
