(* RefCloneAux.v — helper lemmas for the clone refinement (Proofs/RefClone.v):
   association lists, breadth-first enumeration, flattening of mapped trees. *)
From RbxVerif Require Import Base Dom Tree BaseFacts TreeFacts Rep RepWF.
From Coq Require Import Lia Permutation.

(* ---- association lists ---- *)

Lemma In_remove {V} k (m : map V) x v : In (x, v) (remove k m) -> In (x, v) m /\ x <> k.
Proof.
  induction m as [|[k' v'] m IH]; cbn [remove]; [intros []|].
  destruct (N.eqb k k') eqn:E.
  - intros H. destruct (IH H) as [H1 H2]. split; [right; exact H1|exact H2].
  - apply N.eqb_neq in E. intros [H|H].
    + inversion H; subst. split; [left; reflexivity|congruence].
    + destruct (IH H) as [H1 H2]. split; [right; exact H1|exact H2].
Qed.

Lemma keys_remove_In {V} k (m : map V) x : In x (keys (remove k m)) -> In x (keys m) /\ x <> k.
Proof.
  unfold keys. intros H. apply in_map_iff in H. destruct H as [[x' v] [Hx Hin]]. cbn in Hx. subst x'.
  destruct (In_remove _ _ _ _ Hin) as [H1 H2]. split; [|exact H2].
  apply in_map_iff. exists (x, v). split; [reflexivity|exact H1].
Qed.

Lemma NoDup_keys_remove {V} k (m : map V) : NoDup (keys m) -> NoDup (keys (remove k m)).
Proof.
  induction m as [|[k' v'] m IH]; cbn [remove]; intros H; [exact H|].
  unfold keys in H. cbn [List.map fst] in H. inversion H as [|a l Hn Hnd]; subst a l.
  destruct (N.eqb k k') eqn:E; [apply IH; exact Hnd|].
  unfold keys. cbn [List.map fst]. constructor; [|apply IH; exact Hnd].
  intros Hin. apply Hn. exact (proj1 (keys_remove_In _ _ _ Hin)).
Qed.

Lemma NoDup_keys_upd {V} k (v : V) m : NoDup (keys m) -> NoDup (keys (upd k v m)).
Proof.
  intros H. unfold upd, keys. cbn [List.map fst]. constructor.
  - intros Hin. exact (proj2 (keys_remove_In _ _ _ Hin) eq_refl).
  - apply NoDup_keys_remove. exact H.
Qed.

Lemma In_upd {V} k (v : V) m x w : In (x, w) (upd k v m) -> (x = k /\ w = v) \/ In (x, w) m.
Proof.
  unfold upd. intros [H|H].
  - inversion H. left. split; reflexivity.
  - right. apply In_remove in H. exact (proj1 H).
Qed.

Lemma In_props_of_list_gen (l : list (N * pval)) : forall (acc : props) (x : N) (w : pval),
  In (x, w) (fold_left (fun (m : props) (kv : N * pval) => upd (fst kv) (snd kv) m) l acc) ->
  In (x, w) l \/ In (x, w) acc.
Proof.
  induction l as [|[k v] l IH]; intros acc x w H; cbn [fold_left] in H; [right; exact H|].
  destruct (IH _ _ _ H) as [H1|H1]; [left; right; exact H1|].
  cbn [fst snd] in H1. destruct (In_upd _ _ _ _ _ H1) as [[-> ->]|H2]; [left; left; reflexivity|right; exact H2].
Qed.

Lemma In_props_of_list l x w : In (x, w) (props_of_list l) -> In (x, w) l.
Proof.
  unfold props_of_list. intros H. destruct (In_props_of_list_gen _ _ _ _ H) as [H1|[]]. exact H1.
Qed.

(* key-preserving maps commute with the map operations *)
Definition vmap {V W} (f : V -> W) (m : map V) : map W := List.map (fun kv => (fst kv, f (snd kv))) m.

Lemma lookup_vmap {V W} (f : V -> W) k m : lookup k (vmap f m) = option_map f (lookup k m).
Proof.
  induction m as [|[k' v] m IH]; cbn; [reflexivity|]. destruct (N.eqb k k'); [reflexivity|exact IH].
Qed.

Lemma remove_vmap {V W} (f : V -> W) k m : remove k (vmap f m) = vmap f (remove k m).
Proof.
  induction m as [|[k' v] m IH]; cbn; [reflexivity|]. destruct (N.eqb k k'); [exact IH|].
  cbn. f_equal. exact IH.
Qed.

Lemma upd_vmap {V W} (f : V -> W) k v m : upd k (f v) (vmap f m) = vmap f (upd k v m).
Proof. unfold upd. rewrite remove_vmap. reflexivity. Qed.

Lemma vmap_ext_in {V W} (f g : V -> W) m :
  (forall v, In v (List.map snd m) -> f v = g v) -> vmap f m = vmap g m.
Proof.
  intros H. unfold vmap. apply map_ext_in. intros [k v] Hin. cbn. f_equal. apply H.
  apply in_map_iff. exists (k, v). split; [reflexivity|exact Hin].
Qed.

Lemma In_vmap_vals {V W} (f : V -> W) m w :
  In w (List.map snd (vmap f m)) -> exists v, In v (List.map snd m) /\ w = f v.
Proof.
  unfold vmap. rewrite map_map. cbn. intros H. apply in_map_iff in H. destruct H as [[k v] [Hw Hin]].
  cbn in Hw. exists v. split; [|symmetry; exact Hw]. apply in_map_iff. exists (k, v). split; [reflexivity|exact Hin].
Qed.

(* ---- breadth-first enumeration ---- *)

Lemma bfs_fuel q : forall f, (fsize q <= f)%nat -> bfs f q = bfs (fsize q) q.
Proof.
  remember (fsize q) as n eqn:En. revert q En.
  induction n as [n IH] using lt_wf_ind. intros q En f Hf.
  destruct q as [|t q']; [destruct f; destruct n; reflexivity|].
  rewrite fsize_cons in En. pose proof (tsize_pos t) as Hp.
  destruct f as [|f]; [lia|]. destruct n as [|n]; [lia|].
  cbn [bfs]. f_equal.
  assert (Hs : fsize (q' ++ tkids t) = n).
  { rewrite fsize_app. destruct t as [r nm c ps kids]. rewrite tsize_eq in En. cbn [tkids]. lia. }
  rewrite (IH (fsize (q' ++ tkids t))); [|lia|reflexivity|lia].
  symmetry. apply IH; [lia|reflexivity|lia].
Qed.

Lemma fsize_step t q : fsize (t :: q) = S (fsize (q ++ tkids t)).
Proof.
  rewrite fsize_cons, fsize_app. destruct t as [r nm c ps kids]. rewrite tsize_eq. cbn [tkids]. lia.
Qed.

Lemma bfs_all_nil : bfs_all [] = [].
Proof. reflexivity. Qed.

Lemma bfs_all_cons t q : bfs_all (t :: q) = t :: bfs_all (q ++ tkids t).
Proof.
  unfold bfs_all. rewrite fsize_step. cbn [bfs]. reflexivity.
Qed.

(* induction along the breadth-first queue *)
Lemma bfs_queue_ind (P : list tree -> Prop) :
  P [] -> (forall t q, P (q ++ tkids t) -> P (t :: q)) -> forall q, P q.
Proof.
  intros H0 Hs q. remember (fsize q) as n eqn:En. revert q En.
  induction n as [n IH] using lt_wf_ind. intros q En.
  destruct q as [|t q]; [exact H0|]. apply Hs. apply (IH (fsize (q ++ tkids t))); [|reflexivity].
  rewrite En, fsize_step. lia.
Qed.

Lemma length_bfs_all q : length (bfs_all q) = fsize q.
Proof.
  induction q as [|t q IH] using bfs_queue_ind; [reflexivity|].
  rewrite bfs_all_cons, fsize_step. cbn [length]. now rewrite IH.
Qed.

Lemma frefs_step t q : Permutation (frefs (t :: q)) (troot t :: frefs (q ++ tkids t)).
Proof.
  rewrite frefs_cons, frefs_app, trefs_unfold. cbn [app]. constructor. apply Permutation_app_comm.
Qed.

Lemma bfs_roots_perm q : Permutation (frefs q) (List.map troot (bfs_all q)).
Proof.
  induction q as [|t q IH] using bfs_queue_ind; [constructor|].
  rewrite bfs_all_cons. cbn [List.map]. eapply Permutation_trans; [apply frefs_step|].
  constructor. exact IH.
Qed.

Lemma tkids_tmap f t : tkids (tmap f t) = List.map (tmap f) (tkids t).
Proof. destruct t as [r n c ps kids]. rewrite tmap_eq. destruct (f r ps). reflexivity. Qed.

Lemma bfs_all_tmap f q : bfs_all (List.map (tmap f) q) = List.map (tmap f) (bfs_all q).
Proof.
  induction q as [|t q IH] using bfs_queue_ind; [reflexivity|].
  cbn [List.map]. rewrite !bfs_all_cons. cbn [List.map]. f_equal.
  rewrite tkids_tmap, <- map_app. exact IH.
Qed.

(* any per-node list collected over a forest is, up to order, collected over its bfs enumeration *)
Lemma fuids_app a b : fuids (a ++ b) = fuids a ++ fuids b.
Proof. unfold fuids. apply flat_map_app. Qed.

Definition ruid (t : tree) : list N := match get_uid (tprops t) with Some u => [u] | None => [] end.

Lemma fuids_step t q : Permutation (fuids (t :: q)) (ruid t ++ fuids (q ++ tkids t)).
Proof.
  unfold fuids at 1. cbn [flat_map]. fold (fuids q). rewrite tuids_unfold, fuids_app. fold (ruid t).
  rewrite <- app_assoc. apply Permutation_app_head. apply Permutation_app_comm.
Qed.

Lemma bfs_uids_perm q : Permutation (fuids q) (flat_map ruid (bfs_all q)).
Proof.
  induction q as [|t q IH] using bfs_queue_ind; [constructor|].
  rewrite bfs_all_cons. cbn [flat_map]. eapply Permutation_trans; [apply fuids_step|].
  apply Permutation_app_head. exact IH.
Qed.
