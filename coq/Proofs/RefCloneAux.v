(* RefCloneAux.v — helper lemmas for the clone refinement (Proofs/RefClone.v):
   association lists, breadth-first enumeration, flattening of mapped trees. *)
From RbxVerif Require Import Base Dom Tree BaseFacts TreeFacts Rep RepWF.
From Coq Require Import Lia Permutation.

(* ---- association lists ---- *)

Lemma In_remove {V} k (m : map V) x v : In (x, v) (remove k m) -> In (x, v) m /\ x <> k.
Proof.
  induction m as [|[k' v'] m IH]; cbn [remove]; [intros []|].
  destruct (N.eqb k k') eqn:E.
  - intros H. destruct (IH H) as [H1 H2]. split; [right; exact H1|exact H2].
  - apply N.eqb_neq in E. intros [H|H].
    + inversion H; subst. split; [left; reflexivity|congruence].
    + destruct (IH H) as [H1 H2]. split; [right; exact H1|exact H2].
Qed.

Lemma keys_remove_In {V} k (m : map V) x : In x (keys (remove k m)) -> In x (keys m) /\ x <> k.
Proof.
  unfold keys. intros H. apply in_map_iff in H. destruct H as [[x' v] [Hx Hin]]. cbn in Hx. subst x'.
  destruct (In_remove _ _ _ _ Hin) as [H1 H2]. split; [|exact H2].
  apply in_map_iff. exists (x, v). split; [reflexivity|exact H1].
Qed.

Lemma NoDup_keys_remove {V} k (m : map V) : NoDup (keys m) -> NoDup (keys (remove k m)).
Proof.
  induction m as [|[k' v'] m IH]; cbn [remove]; intros H; [exact H|].
  unfold keys in H. cbn [List.map fst] in H. inversion H as [|a l Hn Hnd]; subst a l.
  destruct (N.eqb k k') eqn:E; [apply IH; exact Hnd|].
  unfold keys. cbn [List.map fst]. constructor; [|apply IH; exact Hnd].
  intros Hin. apply Hn. exact (proj1 (keys_remove_In _ _ _ Hin)).
Qed.

Lemma NoDup_keys_upd {V} k (v : V) m : NoDup (keys m) -> NoDup (keys (upd k v m)).
Proof.
  intros H. unfold upd, keys. cbn [List.map fst]. constructor.
  - intros Hin. exact (proj2 (keys_remove_In _ _ _ Hin) eq_refl).
  - apply NoDup_keys_remove. exact H.
Qed.

Lemma In_upd {V} k (v : V) m x w : In (x, w) (upd k v m) -> (x = k /\ w = v) \/ In (x, w) m.
Proof.
  unfold upd. intros [H|H].
  - inversion H. left. split; reflexivity.
  - right. apply In_remove in H. exact (proj1 H).
Qed.

Lemma In_props_of_list_gen (l : list (N * pval)) : forall (acc : props) (x : N) (w : pval),
  In (x, w) (fold_left (fun (m : props) (kv : N * pval) => upd (fst kv) (snd kv) m) l acc) ->
  In (x, w) l \/ In (x, w) acc.
Proof.
  induction l as [|[k v] l IH]; intros acc x w H; cbn [fold_left] in H; [right; exact H|].
  destruct (IH _ _ _ H) as [H1|H1]; [left; right; exact H1|].
  cbn [fst snd] in H1. destruct (In_upd _ _ _ _ _ H1) as [[-> ->]|H2]; [left; left; reflexivity|right; exact H2].
Qed.

Lemma In_props_of_list l x w : In (x, w) (props_of_list l) -> In (x, w) l.
Proof.
  unfold props_of_list. intros H. destruct (In_props_of_list_gen _ _ _ _ H) as [H1|[]]. exact H1.
Qed.

(* key-preserving maps commute with the map operations *)
Definition vmap {V W} (f : V -> W) (m : map V) : map W := List.map (fun kv => (fst kv, f (snd kv))) m.

Lemma lookup_vmap {V W} (f : V -> W) k m : lookup k (vmap f m) = option_map f (lookup k m).
Proof.
  induction m as [|[k' v] m IH]; cbn; [reflexivity|]. destruct (N.eqb k k'); [reflexivity|exact IH].
Qed.

Lemma remove_vmap {V W} (f : V -> W) k m : remove k (vmap f m) = vmap f (remove k m).
Proof.
  induction m as [|[k' v] m IH]; cbn; [reflexivity|]. destruct (N.eqb k k'); [exact IH|].
  cbn. f_equal. exact IH.
Qed.

Lemma upd_vmap {V W} (f : V -> W) k v m : upd k (f v) (vmap f m) = vmap f (upd k v m).
Proof. unfold upd. rewrite remove_vmap. reflexivity. Qed.

Lemma vmap_ext_in {V W} (f g : V -> W) m :
  (forall v, In v (List.map snd m) -> f v = g v) -> vmap f m = vmap g m.
Proof.
  intros H. unfold vmap. apply map_ext_in. intros [k v] Hin. cbn. f_equal. apply H.
  apply in_map_iff. exists (k, v). split; [reflexivity|exact Hin].
Qed.

Lemma In_vmap_vals {V W} (f : V -> W) m w :
  In w (List.map snd (vmap f m)) -> exists v, In v (List.map snd m) /\ w = f v.
Proof.
  unfold vmap. rewrite map_map. cbn. intros H. apply in_map_iff in H. destruct H as [[k v] [Hw Hin]].
  cbn in Hw. exists v. split; [|symmetry; exact Hw]. apply in_map_iff. exists (k, v). split; [reflexivity|exact Hin].
Qed.

(* ---- breadth-first enumeration ---- *)

Lemma bfs_fuel q : forall f, (fsize q <= f)%nat -> bfs f q = bfs (fsize q) q.
Proof.
  remember (fsize q) as n eqn:En. revert q En.
  induction n as [n IH] using lt_wf_ind. intros q En f Hf.
  destruct q as [|t q']; [destruct f; destruct n; reflexivity|].
  rewrite fsize_cons in En. pose proof (tsize_pos t) as Hp.
  destruct f as [|f]; [lia|]. destruct n as [|n]; [lia|].
  cbn [bfs]. f_equal.
  assert (Hs : fsize (q' ++ tkids t) = n).
  { rewrite fsize_app. destruct t as [r nm c ps kids]. rewrite tsize_eq in En. cbn [tkids]. lia. }
  rewrite (IH (fsize (q' ++ tkids t))); [|lia|reflexivity|lia].
  symmetry. apply IH; [lia|reflexivity|lia].
Qed.

Lemma fsize_step t q : fsize (t :: q) = S (fsize (q ++ tkids t)).
Proof.
  rewrite fsize_cons, fsize_app. destruct t as [r nm c ps kids]. rewrite tsize_eq. cbn [tkids]. lia.
Qed.

Lemma bfs_all_nil : bfs_all [] = [].
Proof. reflexivity. Qed.

Lemma bfs_all_cons t q : bfs_all (t :: q) = t :: bfs_all (q ++ tkids t).
Proof.
  unfold bfs_all. rewrite fsize_step. cbn [bfs]. reflexivity.
Qed.

(* induction along the breadth-first queue *)
Lemma bfs_queue_ind (P : list tree -> Prop) :
  P [] -> (forall t q, P (q ++ tkids t) -> P (t :: q)) -> forall q, P q.
Proof.
  intros H0 Hs q. remember (fsize q) as n eqn:En. revert q En.
  induction n as [n IH] using lt_wf_ind. intros q En.
  destruct q as [|t q]; [exact H0|]. apply Hs. apply (IH (fsize (q ++ tkids t))); [|reflexivity].
  rewrite En, fsize_step. lia.
Qed.

Lemma length_bfs_all q : length (bfs_all q) = fsize q.
Proof.
  induction q as [|t q IH] using bfs_queue_ind; [reflexivity|].
  rewrite bfs_all_cons, fsize_step. cbn [length]. now rewrite IH.
Qed.

Lemma frefs_step t q : Permutation (frefs (t :: q)) (troot t :: frefs (q ++ tkids t)).
Proof.
  rewrite frefs_cons, frefs_app, trefs_unfold. cbn [app]. constructor. apply Permutation_app_comm.
Qed.

Lemma bfs_roots_perm q : Permutation (frefs q) (List.map troot (bfs_all q)).
Proof.
  induction q as [|t q IH] using bfs_queue_ind; [constructor|].
  rewrite bfs_all_cons. cbn [List.map]. eapply Permutation_trans; [apply frefs_step|].
  constructor. exact IH.
Qed.

Lemma tkids_tmap f t : tkids (tmap f t) = List.map (tmap f) (tkids t).
Proof. destruct t as [r n c ps kids]. rewrite tmap_eq. destruct (f r ps). reflexivity. Qed.

Lemma bfs_all_tmap f q : bfs_all (List.map (tmap f) q) = List.map (tmap f) (bfs_all q).
Proof.
  induction q as [|t q IH] using bfs_queue_ind; [reflexivity|].
  cbn [List.map]. rewrite !bfs_all_cons. cbn [List.map]. f_equal.
  rewrite tkids_tmap, <- map_app. exact IH.
Qed.

(* any per-node list collected over a forest is, up to order, collected over its bfs enumeration *)
Lemma fuids_app a b : fuids (a ++ b) = fuids a ++ fuids b.
Proof. unfold fuids. apply flat_map_app. Qed.

Definition ruid (t : tree) : list N := match get_uid (tprops t) with Some u => [u] | None => [] end.

Lemma fuids_step t q : Permutation (fuids (t :: q)) (ruid t ++ fuids (q ++ tkids t)).
Proof.
  unfold fuids at 1. cbn [flat_map]. fold (fuids q). rewrite tuids_unfold, fuids_app. fold (ruid t).
  rewrite <- app_assoc. apply Permutation_app_head. apply Permutation_app_comm.
Qed.

Lemma bfs_uids_perm q : Permutation (fuids q) (flat_map ruid (bfs_all q)).
Proof.
  induction q as [|t q IH] using bfs_queue_ind; [constructor|].
  rewrite bfs_all_cons. cbn [flat_map]. eapply Permutation_trans; [apply fuids_step|].
  apply Permutation_app_head. exact IH.
Qed.

(* ---- mapped trees ---- *)

Definition cpf (phi : ref -> ref) (g : ref -> props -> props) : ref -> props -> ref * props :=
  fun x ps => (phi x, g x ps).

Lemma tmap_cpf phi g r n c ps kids :
  tmap (cpf phi g) (Node r n c ps kids) = Node (phi r) n c (g r ps) (List.map (tmap (cpf phi g)) kids).
Proof. rewrite tmap_eq. reflexivity. Qed.

Lemma troot_tmap phi g t : troot (tmap (cpf phi g) t) = phi (troot t).
Proof. destruct t. rewrite tmap_cpf. reflexivity. Qed.

Lemma tprops_tmap phi g t : tprops (tmap (cpf phi g) t) = g (troot t) (tprops t).
Proof. destruct t. rewrite tmap_cpf. reflexivity. Qed.

Lemma roots_tmap phi g ts : List.map troot (List.map (tmap (cpf phi g)) ts) = List.map phi (List.map troot ts).
Proof. rewrite !map_map. apply map_ext. intros t. apply troot_tmap. Qed.

Lemma tmap_ext_in f1 f2 t :
  (forall x ps, In x (trefs t) -> f1 x ps = f2 x ps) -> tmap f1 t = tmap f2 t.
Proof.
  induction t as [r n c ps kids IH] using tree_ind'. intros H. rewrite !tmap_eq.
  rewrite (H r ps) by (rewrite trefs_eq; left; reflexivity). destruct (f2 r ps) as [x' ps']. f_equal.
  apply map_ext_in. intros k Hk. rewrite Forall_forall in IH. apply IH; [exact Hk|].
  intros x ps0 Hx. apply H. rewrite trefs_eq. right. apply In_frefs. exists k. split; assumption.
Qed.

Lemma tmap_tmap f1 f2 t :
  tmap f2 (tmap f1 t) = tmap (fun x ps => let '(x', ps') := f1 x ps in f2 x' ps') t.
Proof.
  induction t as [r n c ps kids IH] using tree_ind'. rewrite (tmap_eq f1), (tmap_eq (fun x ps => _)).
  destruct (f1 r ps) as [x' ps']. rewrite tmap_eq. destruct (f2 x' ps') as [x'' ps'']. f_equal.
  rewrite map_map. apply map_ext_in. intros k Hk. rewrite Forall_forall in IH. apply IH. exact Hk.
Qed.

Lemma trefs_tmap_from phi g ks :
  Forall (fun k => trefs (tmap (cpf phi g) k) = List.map phi (trefs k)) ks ->
  frefs (List.map (tmap (cpf phi g)) ks) = List.map phi (frefs ks).
Proof.
  induction 1 as [|k ks Hk _ IH]; [reflexivity|].
  cbn [List.map]. rewrite !frefs_cons, map_app, Hk, IH. reflexivity.
Qed.

Lemma trefs_tmap phi g t : trefs (tmap (cpf phi g) t) = List.map phi (trefs t).
Proof.
  induction t as [r n c ps kids IH] using tree_ind'. rewrite tmap_cpf, !trefs_eq. cbn [List.map]. f_equal.
  apply trefs_tmap_from. exact IH.
Qed.

Lemma frefs_tmap phi g ts : frefs (List.map (tmap (cpf phi g)) ts) = List.map phi (frefs ts).
Proof. apply trefs_tmap_from. apply Forall_forall. intros t _. apply trefs_tmap. Qed.

(* post-processing the properties of a mapped tree post-processes the entries *)
Definition post_entry (h : props -> props) (yi : ref * inst) : ref * inst :=
  (fst yi, set_props (snd yi) (h (i_props (snd yi)))).

Lemma tflat_tmap_post phi g h t : forall p,
  tflat p (tmap (cpf phi (fun x ps => h (g x ps))) t) = List.map (post_entry h) (tflat p (tmap (cpf phi g) t)).
Proof.
  induction t as [r n c ps kids IH] using tree_ind'. intros p. rewrite !tmap_cpf, !tflat_eq.
  cbn [List.map]. f_equal.
  - unfold post_entry, set_props. cbn. rewrite !roots_tmap. reflexivity.
  - clear p. induction IH as [|k ks Hk _ IHk]; [reflexivity|].
    cbn [List.map flat_map]. rewrite map_app, Hk, IHk. reflexivity.
Qed.

Lemma fflat_tmap_post phi g h ts p :
  flat_map (tflat p) (List.map (tmap (cpf phi (fun x ps => h (g x ps)))) ts)
  = List.map (post_entry h) (flat_map (tflat p) (List.map (tmap (cpf phi g)) ts)).
Proof.
  induction ts as [|t ts IH]; [reflexivity|].
  cbn [List.map flat_map]. rewrite map_app, tflat_tmap_post, IH. reflexivity.
Qed.

(* ---- values held in a forest, through its flattening ---- *)

Lemma tpvals_eq r n c ps kids : tpvals (Node r n c ps kids) = List.map snd ps ++ fpvals kids.
Proof. reflexivity. Qed.

Lemma In_tpvals v t : forall p,
  In v (tpvals t) <-> exists x i, In (x, i) (tflat p t) /\ In v (List.map snd (i_props i)).
Proof.
  induction t as [r n c ps kids IH] using tree_ind'. intros p. rewrite Forall_forall in IH.
  rewrite tpvals_eq, in_app_iff. split.
  - intros [H|H].
    + exists r, (mkInst p (List.map troot kids) n c ps). split; [rewrite tflat_eq; left; reflexivity|exact H].
    + unfold fpvals in H. apply in_flat_map in H. destruct H as [k [Hk Hv]].
      apply (IH k Hk r) in Hv. destruct Hv as [x [i [Hin Hvi]]]. exists x, i. split; [|exact Hvi].
      rewrite tflat_eq. right. apply in_flat_map. exists k. split; assumption.
  - intros [x [i [Hin Hvi]]]. rewrite tflat_eq in Hin. destruct Hin as [Hin|Hin].
    + inversion Hin; subst. left. exact Hvi.
    + right. apply in_flat_map in Hin. destruct Hin as [k [Hk Hin]]. unfold fpvals. apply in_flat_map.
      exists k. split; [exact Hk|]. apply (IH k Hk r). exists x, i. split; assumption.
Qed.

Lemma In_fpvals v ts p :
  In v (fpvals ts) <-> exists x i, In (x, i) (flat_map (tflat p) ts) /\ In v (List.map snd (i_props i)).
Proof.
  unfold fpvals. rewrite in_flat_map. split.
  - intros [t [Ht Hv]]. apply (In_tpvals v t p) in Hv. destruct Hv as [x [i [Hin Hvi]]].
    exists x, i. split; [apply In_fflat; exists t; split; assumption|exact Hvi].
  - intros [x [i [Hin Hvi]]]. apply In_fflat in Hin. destruct Hin as [t [Ht Hin]]. exists t. split; [exact Ht|].
    apply (In_tpvals v t p). exists x, i. split; assumption.
Qed.

Lemma fpvals_app a b : fpvals (a ++ b) = fpvals a ++ fpvals b.
Proof. unfold fpvals. apply flat_map_app. Qed.

(* ---- numbering of the breadth-first enumeration ---- *)

Fixpoint nseq (nr : N) (n : nat) : list N :=
  match n with O => [] | S n' => nr :: nseq (nr + 1) n' end.

Lemma In_nseq x n : forall nr, In x (nseq nr n) <-> nr <= x < nr + N.of_nat n.
Proof.
  induction n as [|n IH]; intros nr; cbn [nseq In].
  - split; [intros []|lia].
  - rewrite IH. lia.
Qed.

Lemma NoDup_nseq n : forall nr, NoDup (nseq nr n).
Proof.
  induction n as [|n IH]; intros nr; cbn [nseq]; constructor; [|apply IH].
  rewrite In_nseq. lia.
Qed.

Lemma length_nseq n : forall nr, length (nseq nr n) = n.
Proof. induction n as [|n IH]; intros nr; cbn [nseq length]; [reflexivity|now rewrite IH]. Qed.

Fixpoint numbered (phi : ref -> ref) (nr : N) (L : list tree) : Prop :=
  match L with [] => True | t :: L' => phi (troot t) = nr /\ numbered phi (nr + 1) L' end.

Lemma numbered_map phi L : forall nr, numbered phi nr L -> List.map phi (List.map troot L) = nseq nr (length L).
Proof.
  induction L as [|t L IH]; intros nr H; [reflexivity|]. destruct H as [H1 H2].
  cbn [List.map length nseq]. rewrite H1, (IH _ H2). reflexivity.
Qed.

Lemma numbered_app phi a b : forall nr,
  numbered phi nr (a ++ b) -> numbered phi nr a /\ numbered phi (nr + N.of_nat (length a)) b.
Proof.
  induction a as [|t a IH]; intros nr H; cbn [app length] in *.
  - split; [exact I|]. replace (nr + N.of_nat 0) with nr by lia. exact H.
  - destruct H as [H1 H2]. destruct (IH _ H2) as [H3 H4]. split; [split; assumption|].
    replace (nr + N.of_nat (S (length a))) with (nr + 1 + N.of_nat (length a)) by lia. exact H4.
Qed.

Lemma numbered_range phi L : forall nr t, numbered phi nr L -> In t L ->
  nr <= phi (troot t) < nr + N.of_nat (length L).
Proof.
  intros nr t H Hin. pose proof (numbered_map phi L nr H) as E.
  apply (In_nseq (phi (troot t)) (length L) nr). rewrite <- E. apply in_map. apply in_map. exact Hin.
Qed.

Lemma numbered_ext phi phi' L : forall nr,
  (forall t, In t L -> phi (troot t) = phi' (troot t)) -> numbered phi nr L -> numbered phi' nr L.
Proof.
  induction L as [|t L IH]; intros nr He H; [exact I|]. destruct H as [H1 H2]. split.
  - rewrite <- He by (left; reflexivity). exact H1.
  - apply IH; [|exact H2]. intros t' Ht'. apply He. right. exact Ht'.
Qed.

(* [phi] is injective on the enumerated roots *)
Lemma numbered_inj phi L : forall nr t1 t2, numbered phi nr L -> NoDup (List.map troot L) ->
  In t1 L -> In t2 L -> phi (troot t1) = phi (troot t2) -> troot t1 = troot t2.
Proof.
  induction L as [|t L IH]; intros nr t1 t2 H Hnd H1 H2 E; [destruct H1|].
  destruct H as [Ha Hb]. cbn [List.map] in Hnd. inversion Hnd as [|a l Hn Hnd']; subst a l.
  destruct H1 as [H1|H1]; destruct H2 as [H2|H2].
  - congruence.
  - subst t1. pose proof (numbered_range _ _ _ _ Hb H2). lia.
  - subst t2. pose proof (numbered_range _ _ _ _ Hb H1). lia.
  - eapply IH; eassumption.
Qed.

Definition phi_of (rw : map ref) : ref -> ref := fun x => match lookup x rw with Some n => n | None => x end.

Lemma alloc_refs_spec L : forall nr rw nr',
  NoDup (List.map troot L) -> alloc_refs nr L = (rw, nr') ->
  numbered (phi_of rw) nr L /\ nr' = nr + N.of_nat (length L) /\
  (forall o, ~ In o (List.map troot L) -> lookup o rw = None) /\
  (forall t, In t L -> lookup (troot t) rw = Some (phi_of rw (troot t))).
Proof.
  induction L as [|t L IH]; intros nr rw nr' Hnd H; cbn [alloc_refs] in H.
  - inversion H; subst. cbn [length]. split; [exact I|]. split; [lia|]. split; [reflexivity|intros t []].
  - destruct (alloc_refs (nr + 1) L) as [m nr1] eqn:E. inversion H; subst rw nr'. clear H.
    cbn [List.map] in Hnd. inversion Hnd as [|a l Hn Hnd']; subst a l.
    destruct (IH _ _ _ Hnd' E) as [H1 [H2 [H3 H4]]].
    assert (Hroot : phi_of (upd (troot t) nr m) (troot t) = nr).
    { unfold phi_of. rewrite lookup_upd_eq. reflexivity. }
    assert (Hother : forall t', In t' L -> phi_of (upd (troot t) nr m) (troot t') = phi_of m (troot t')).
    { intros t' Ht'. unfold phi_of. rewrite lookup_upd_neq; [reflexivity|].
      intros Heq. apply Hn. rewrite <- Heq. apply in_map. exact Ht'. }
    repeat split.
    + exact Hroot.
    + apply (numbered_ext (phi_of m)); [intros t' Ht'; symmetry; apply Hother; exact Ht'|exact H1].
    + cbn [length]. lia.
    + intros o Ho. cbn [List.map In] in Ho. rewrite lookup_upd_neq by (intros ->; apply Ho; left; reflexivity).
      apply H3. intros Hin. apply Ho. right. exact Hin.
    + intros t' [Ht'|Ht'].
      * subst t'. rewrite Hroot. apply lookup_upd_eq.
      * rewrite Hother by exact Ht'. rewrite lookup_upd_neq; [apply H4; exact Ht'|].
        intros Heq. apply Hn. rewrite <- Heq. apply in_map. exact Ht'.
Qed.

(* the enumeration of a list of trees starts with the trees themselves *)
Lemma bfs_all_app a : forall b, bfs_all (a ++ b) = a ++ bfs_all (b ++ flat_map tkids a).
Proof.
  induction a as [|t a IH]; intros b; cbn [app flat_map]; [now rewrite app_nil_r|].
  rewrite bfs_all_cons, <- app_assoc, IH, <- app_assoc. reflexivity.
Qed.

Lemma bfs_all_prefix a : exists rest, bfs_all a = a ++ rest.
Proof. exists (bfs_all (flat_map tkids a)). rewrite <- (app_nil_r a) at 1. rewrite bfs_all_app. reflexivity. Qed.

Lemma numbered_roots phi nr ts :
  numbered phi nr (bfs_all ts) -> List.map phi (List.map troot ts) = nseq nr (length ts).
Proof.
  destruct (bfs_all_prefix ts) as [rest E]. rewrite E. intros H.
  apply numbered_app in H. apply numbered_map. exact (proj1 H).
Qed.

(* ---- the UniqueId plan along the enumeration ---- *)

Fixpoint Plan (psi : ref -> option N) (used : list N) (nu nr : N) (L : list tree) (nu' : N) : Prop :=
  match L with
  | [] => nu' = nu
  | t :: L' =>
      match get_uid (props_of_list (tprops t)) with
      | Some u => if mem u used then psi nr = Some nu /\ Plan psi (sadd nu used) (nu + 1) (nr + 1) L' nu'
                  else psi nr = None /\ Plan psi (sadd u used) nu (nr + 1) L' nu'
      | None => psi nr = None /\ Plan psi used nu (nr + 1) L' nu'
      end
  end.

Lemma Plan_used_ext psi L : forall used used' nu nr nu',
  (forall u, mem u used = mem u used') -> Plan psi used nu nr L nu' -> Plan psi used' nu nr L nu'.
Proof.
  induction L as [|t L IH]; intros used used' nu nr nu' He H; [exact H|]. cbn [Plan] in *.
  destruct (get_uid (props_of_list (tprops t))) as [u|].
  - rewrite <- He. destruct (mem u used).
    + destruct H as [H1 H2]. split; [exact H1|]. eapply IH; [|exact H2].
      intros u0. rewrite !mem_sadd, He. reflexivity.
    + destruct H as [H1 H2]. split; [exact H1|]. eapply IH; [|exact H2].
      intros u0. rewrite !mem_sadd, He. reflexivity.
  - destruct H as [H1 H2]. split; [exact H1|]. eapply IH; eassumption.
Qed.

Lemma Plan_psi_ext psi psi' L : forall used nu nr nu',
  (forall n, nr <= n -> psi n = psi' n) -> Plan psi used nu nr L nu' -> Plan psi' used nu nr L nu'.
Proof.
  induction L as [|t L IH]; intros used nu nr nu' He H; [exact H|]. cbn [Plan] in *.
  assert (He' : forall n, nr + 1 <= n -> psi n = psi' n) by (intros n Hn; apply He; lia).
  rewrite <- (He nr) by lia.
  destruct (get_uid (props_of_list (tprops t))) as [u|]; [destruct (mem u used)|];
    (destruct H as [H1 H2]; split; [exact H1|]; eapply IH; eassumption).
Qed.

Lemma Plan_mono psi L : forall used nu nr nu', Plan psi used nu nr L nu' -> nu <= nu'.
Proof.
  induction L as [|t L IH]; intros used nu nr nu' H; cbn [Plan] in H; [lia|].
  destruct (get_uid (props_of_list (tprops t))) as [u|]; [destruct (mem u used)|];
    destruct H as [_ H2]; apply IH in H2; lia.
Qed.

Lemma get_uid_vmap f ps :
  (forall v, match v with PUid _ => f v = v | _ => match f v with PUid _ => False | _ => True end end) ->
  get_uid (vmap f ps) = get_uid ps.
Proof.
  intros Hf. unfold get_uid. rewrite lookup_vmap. destruct (lookup UIDKEY ps) as [v|]; [|reflexivity].
  cbn [option_map]. pose proof (Hf v) as H. destruct v as [r|u|o].
  - destruct (f (PRef r)); [reflexivity|destruct H|reflexivity].
  - rewrite H. reflexivity.
  - destruct (f (POther o)); [reflexivity|destruct H|reflexivity].
Qed.

Lemma clone_val_uidsafe rw ex v :
  match v with PUid _ => clone_val rw ex v = v | _ => match clone_val rw ex v with PUid _ => False | _ => True end end.
Proof.
  destruct v as [r|u|o]; cbn [clone_val]; [|reflexivity|exact I].
  destruct (lookup r rw); [exact I|]. destruct (mem r ex); exact I.
Qed.

Lemma get_uid_upd u ps : get_uid (upd UIDKEY (PUid u) ps) = Some u.
Proof. unfold get_uid. rewrite lookup_upd_eq. reflexivity. Qed.

Lemma settle_keys nodes : forall used nu asg nu' n,
  settle used nu nodes = (asg, nu') -> ~ In n (List.map troot nodes) -> lookup n asg = None.
Proof.
  induction nodes as [|t nodes IH]; intros used nu asg nu' n H Hn; cbn [settle] in H.
  - inversion H; subst. reflexivity.
  - cbn [List.map In] in Hn. destruct (get_uid (tprops t)) as [u|].
    + destruct (mem u used).
      * destruct (settle (sadd nu used) (nu + 1) nodes) as [asg1 nu1] eqn:E. inversion H; subst asg nu'.
        rewrite lookup_upd_neq by (intros ->; apply Hn; left; reflexivity).
        eapply IH; [exact E|]. intros Hin. apply Hn. right. exact Hin.
      * eapply IH; [exact H|]. intros Hin. apply Hn. right. exact Hin.
    + eapply IH; [exact H|]. intros Hin. apply Hn. right. exact Hin.
Qed.

(* the abstract [settle] over the copies follows the plan *)
Lemma settle_Plan phi g L : forall used nu nr asg nu',
  (forall x ps, get_uid (g x ps) = get_uid (props_of_list ps)) ->
  numbered phi nr L ->
  settle used nu (List.map (tmap (cpf phi g)) L) = (asg, nu') ->
  Plan (fun n => lookup n asg) used nu nr L nu'.
Proof.
  induction L as [|t L IH]; intros used nu nr asg nu' Hg Hnum H; cbn [List.map settle] in H.
  - inversion H; subst. reflexivity.
  - destruct Hnum as [Hn1 Hn2]. cbn [Plan]. rewrite tprops_tmap, Hg, troot_tmap, Hn1 in H.
    assert (Hfresh : forall asg1 used1 nu1, settle used1 nu1 (List.map (tmap (cpf phi g)) L) = (asg1, nu') ->
                     lookup nr asg1 = None).
    { intros asg1 used1 nu1 E. eapply settle_keys; [exact E|]. rewrite roots_tmap. intros Hin.
      apply in_map_iff in Hin. destruct Hin as [x [Hx Hin]]. apply in_map_iff in Hin. destruct Hin as [t' [Ht' Hin]].
      subst x. pose proof (numbered_range _ _ _ _ Hn2 Hin). lia. }
    destruct (get_uid (props_of_list (tprops t))) as [u|].
    + destruct (mem u used).
      * destruct (settle (sadd nu used) (nu + 1) (List.map (tmap (cpf phi g)) L)) as [asg1 nu1] eqn:E.
        inversion H; subst asg nu1. split; [apply lookup_upd_eq|].
        apply (Plan_psi_ext (fun n => lookup n asg1)); [intros n Hn; symmetry; apply lookup_upd_neq; lia|].
        eapply IH; eassumption.
      * split; [eapply Hfresh; exact H|]. eapply IH; eassumption.
    + split; [eapply Hfresh; exact H|]. eapply IH; eassumption.
Qed.

(* ---- the properties and UniqueIds of the copies ---- *)

Definition cprops (psi : ref -> option N) (phi : ref -> ref) (x : ref) (ps : props) : props :=
  match psi (phi x) with Some u => upd UIDKEY (PUid u) (props_of_list ps) | None => props_of_list ps end.

Lemma get_uid_cprops psi phi x ps :
  get_uid (cprops psi phi x ps) = match psi (phi x) with Some u => Some u | None => get_uid (props_of_list ps) end.
Proof. unfold cprops. destruct (psi (phi x)); [apply get_uid_upd|reflexivity]. Qed.

Lemma flat_map_map {A B C} (f : B -> list C) (g : A -> B) l : flat_map f (List.map g l) = flat_map (fun x => f (g x)) l.
Proof. induction l as [|a l IH]; cbn; [reflexivity|now rewrite IH]. Qed.

Lemma Plan_uids psi phi L : forall used nu nr nu',
  numbered phi nr L -> Plan psi used nu nr L nu' ->
  (forall u, mem u used = true -> u < nu) ->
  (forall t u, In t L -> get_uid (props_of_list (tprops t)) = Some u -> u < nu) ->
  NoDup (flat_map (fun t => ruid (tmap (cpf phi (cprops psi phi)) t)) L) /\
  (forall u, In u (flat_map (fun t => ruid (tmap (cpf phi (cprops psi phi)) t)) L) -> mem u used = false /\ u < nu').
Proof.
  induction L as [|t L IH]; intros used nu nr nu' Hnum HP Hused Hsrc; cbn [flat_map].
  - split; [constructor|intros u []].
  - destruct Hnum as [Hn1 Hn2]. cbn [Plan] in HP.
    assert (Hsrc' : forall t' u, In t' L -> get_uid (props_of_list (tprops t')) = Some u -> u < nu).
    { intros t' u Ht'. apply Hsrc. right. exact Ht'. }
    unfold ruid at 1 3. rewrite tprops_tmap, get_uid_cprops, Hn1.
    destruct (get_uid (props_of_list (tprops t))) as [u|] eqn:Eu.
    + pose proof (Hsrc t u (or_introl eq_refl) Eu) as Hu.
      destruct (mem u used) eqn:Em; destruct HP as [Hpsi HP]; rewrite Hpsi.
      * pose proof (Plan_mono _ _ _ _ _ _ HP) as Hmono.
        destruct (IH (sadd nu used) (nu + 1) (nr + 1) nu' Hn2 HP) as [Hnd Hall].
        { intros u0. rewrite mem_sadd. intros H. apply orb_true_iff in H. destruct H as [H|H].
          - apply N.eqb_eq in H. lia.
          - apply Hused in H. lia. }
        { intros t' u0 Ht' E. pose proof (Hsrc' t' u0 Ht' E). lia. }
        assert (Hnu : mem nu used = false).
        { destruct (mem nu used) eqn:E; [|reflexivity]. apply Hused in E. lia. }
        cbn [app]. split.
        -- constructor; [|exact Hnd]. intros Hin. apply Hall in Hin. destruct Hin as [Hin _].
           rewrite mem_sadd, N.eqb_refl in Hin. discriminate.
        -- intros u0 [H|H]; [subst u0; split; [exact Hnu|lia]|].
           apply Hall in H. destruct H as [H1 H2]. rewrite mem_sadd in H1. apply orb_false_iff in H1.
           split; [exact (proj2 H1)|exact H2].
      * pose proof (Plan_mono _ _ _ _ _ _ HP) as Hmono.
        destruct (IH (sadd u used) nu (nr + 1) nu' Hn2 HP) as [Hnd Hall].
        { intros u0. rewrite mem_sadd. intros H. apply orb_true_iff in H. destruct H as [H|H].
          - apply N.eqb_eq in H. lia.
          - apply Hused in H. exact H. }
        { exact Hsrc'. }
        cbn [app]. split.
        -- constructor; [|exact Hnd]. intros Hin. apply Hall in Hin. destruct Hin as [Hin _].
           rewrite mem_sadd, N.eqb_refl in Hin. discriminate.
        -- intros u0 [H|H]; [subst u0; split; [exact Em|lia]|].
           apply Hall in H. destruct H as [H1 H2]. rewrite mem_sadd in H1. apply orb_false_iff in H1.
           split; [exact (proj2 H1)|exact H2].
    + destruct HP as [Hpsi HP]. rewrite Hpsi. cbn [app]. eapply IH; eassumption.
Qed.

(* ---- subtrees and the entries they contribute ---- *)

Definition sbp (i i' : inst) : Prop :=
  i_children i = i_children i' /\ i_name i = i_name i' /\ i_class i = i_class i' /\ i_props i = i_props i'.

Lemma sbp_refl i : sbp i i.
Proof. repeat split. Qed.

Lemma sbp_trans i1 i2 i3 : sbp i1 i2 -> sbp i2 i3 -> sbp i1 i3.
Proof. unfold sbp. intros [A [B [C D]]] [A' [B' [C' D']]]. repeat split; congruence. Qed.

Lemma sbp_tinst p p' t : sbp (tinst p t) (tinst p' t).
Proof. destruct t. repeat split. Qed.

Lemma tflat_reparent p p' t x i : In (x, i) (tflat p t) -> exists i', In (x, i') (tflat p' t) /\ sbp i i'.
Proof.
  rewrite !tflat_unfold. intros [H|H].
  - inversion H; subst. exists (tinst p' t). split; [left; reflexivity|apply sbp_tinst].
  - exists i. split; [right; exact H|apply sbp_refl].
Qed.

Lemma tfind_sub r t : forall s p q, tfind r t = Some s ->
  troot s = r /\ forall x i, In (x, i) (tflat q s) -> exists i', In (x, i') (tflat p t) /\ sbp i i'.
Proof.
  induction t as [x0 n c ps kids IH] using tree_ind'. intros s p q H. rewrite tfind_eq in H.
  destruct (N.eqb x0 r) eqn:E.
  - apply N.eqb_eq in E. inversion H; subst s. split; [exact E|]. intros x i Hin. eapply tflat_reparent. exact Hin.
  - clear E.
    assert (G : troot s = r /\ forall x i, In (x, i) (tflat q s) ->
                exists i', In (x, i') (flat_map (tflat x0) kids) /\ sbp i i').
    { induction IH as [|k ks Hk _ IHk]; cbn [ffind] in H; [discriminate|].
      destruct (tfind r k) as [s'|] eqn:Ek.
      + inversion H; subst s'. destruct (Hk s x0 q eq_refl) as [H1 H2]. split; [exact H1|].
        intros x i Hin. destruct (H2 x i Hin) as [i' [Hin' Hs]]. exists i'. split; [|exact Hs].
        cbn [flat_map]. apply in_or_app. left. exact Hin'.
      + destruct (IHk H) as [H1 H2]. split; [exact H1|]. intros x i Hin.
        destruct (H2 x i Hin) as [i' [Hin' Hs]]. exists i'. split; [|exact Hs].
        cbn [flat_map]. apply in_or_app. right. exact Hin'. }
    destruct G as [H1 H2]. split; [exact H1|]. intros x i Hin.
    destruct (H2 x i Hin) as [i' [Hin' Hs]]. exists i'. split; [|exact Hs].
    rewrite tflat_eq. right. exact Hin'.
Qed.

Lemma ffind_sub r ts : forall s p q, ffind r ts = Some s ->
  troot s = r /\ forall x i, In (x, i) (tflat q s) -> exists i', In (x, i') (flat_map (tflat p) ts) /\ sbp i i'.
Proof.
  induction ts as [|t ts IH]; intros s p q H; cbn [ffind] in H; [discriminate|].
  destruct (tfind r t) as [s'|] eqn:Et.
  - inversion H; subst s'. destruct (tfind_sub r t s p q Et) as [H1 H2]. split; [exact H1|].
    intros x i Hin. destruct (H2 x i Hin) as [i' [Hin' Hs]]. exists i'. split; [|exact Hs].
    cbn [flat_map]. apply in_or_app. left. exact Hin'.
  - destruct (IH s p q H) as [H1 H2]. split; [exact H1|]. intros x i Hin.
    destruct (H2 x i Hin) as [i' [Hin' Hs]]. exists i'. split; [|exact Hs].
    cbn [flat_map]. apply in_or_app. right. exact Hin'.
Qed.

Lemma In_trefs_entry p t x : In x (trefs t) -> exists i, In (x, i) (tflat p t).
Proof.
  intros H. rewrite <- (keys_tflat p t) in H. unfold keys in H. apply in_map_iff in H.
  destruct H as [[x' i] [Hx Hin]]. cbn in Hx. subst x'. exists i. exact Hin.
Qed.

Lemma find_all_spec rs ts : forall subs, find_all rs ts = Some subs ->
  List.map troot subs = rs /\ length subs = length rs /\
  forall s, In s subs -> forall p q x i, In (x, i) (tflat q s) ->
    exists i', In (x, i') (flat_map (tflat p) ts) /\ sbp i i'.
Proof.
  induction rs as [|r rs IH]; intros subs H; cbn [find_all] in H.
  - inversion H; subst. repeat split. intros s [].
  - destruct (ffind r ts) as [s0|] eqn:E; [|discriminate].
    destruct (find_all rs ts) as [l|]; [|discriminate]. inversion H; subst subs.
    destruct (IH l eq_refl) as [H1 [H2 H3]]. destruct (ffind_sub r ts s0 rnone rnone E) as [H4 _].
    cbn [List.map length]. split; [congruence|]. split; [congruence|].
    intros s [Hs|Hs] p q x i Hin.
    + subst s. exact (proj2 (ffind_sub r ts s0 p q E) x i Hin).
    + exact (H3 s Hs p q x i Hin).
Qed.

(* ---- more list facts ---- *)

Lemma nodupb_NoDup l : nodupb l = true -> NoDup l.
Proof.
  induction l as [|x l IH]; cbn [nodupb]; intros H; [constructor|].
  apply andb_true_iff in H. destruct H as [H1 H2]. constructor; [|apply IH; exact H2].
  apply mem_false_In. destruct (mem x l); [discriminate|reflexivity].
Qed.

Lemma NoDup_map_snd {V} (m : map V) :
  NoDup (keys m) -> (forall k k' v, In (k, v) m -> In (k', v) m -> k = k') -> NoDup (List.map snd m).
Proof.
  induction m as [|[k v] m IH]; intros Hnd Hinj; [constructor|].
  unfold keys in Hnd. cbn [List.map fst snd] in *. inversion Hnd as [|a l Hn Hnd']; subst a l. constructor.
  - intros Hin. apply in_map_iff in Hin. destruct Hin as [[k' v'] [Hv Hin]]. cbn in Hv. subst v'.
    assert (k = k') by (apply (Hinj k k' v); [left; reflexivity|right; exact Hin]). subst k'.
    apply Hn. exact (In_keys _ _ _ Hin).
  - apply IH; [exact Hnd'|]. intros k1 k2 v0 H1 H2. apply (Hinj k1 k2 v0); right; assumption.
Qed.

Lemma keys_vmap {V W} (f : V -> W) m : keys (vmap f m) = keys m.
Proof. unfold keys, vmap. rewrite map_map. reflexivity. Qed.

Lemma lookup_fold_upd (l : list (N * pval)) : forall (acc : props) k,
  lookup k (fold_left (fun (m : props) (kv : N * pval) => upd (fst kv) (snd kv) m) l acc)
  = match lookup k (rev l) with Some v => Some v | None => lookup k acc end.
Proof.
  induction l as [|[k0 v0] l IH]; intros acc k; cbn [fold_left rev]; [reflexivity|].
  rewrite IH, lookup_app. destruct (lookup k (rev l)); [reflexivity|].
  cbn [fst snd lookup]. rewrite lookup_upd. destruct (N.eqb k k0); reflexivity.
Qed.

Lemma lookup_rev {V} (m : map V) k : NoDup (keys m) -> lookup k (rev m) = lookup k m.
Proof.
  intros Hnd. assert (Hnd' : NoDup (keys (rev m))) by (unfold keys; rewrite map_rev; apply NoDup_rev; exact Hnd).
  destruct (lookup k m) as [v|] eqn:E.
  - apply In_lookup; [exact Hnd'|]. apply -> in_rev. apply lookup_In. exact E.
  - apply lookup_None_notin. apply lookup_None_notin in E. unfold keys in *. rewrite map_rev, <- in_rev. exact E.
Qed.

Lemma lookup_pol ps k : NoDup (keys ps) -> lookup k (props_of_list ps) = lookup k ps.
Proof.
  intros Hnd. unfold props_of_list. rewrite lookup_fold_upd, (lookup_rev ps k Hnd).
  destruct (lookup k ps); reflexivity.
Qed.

Lemma NoDup_keys_pol ps : NoDup (keys (props_of_list ps)).
Proof.
  unfold props_of_list. assert (G : forall (l : list (N * pval)) (acc : props), NoDup (keys acc) ->
    NoDup (keys (fold_left (fun (m : props) (kv : N * pval) => upd (fst kv) (snd kv) m) l acc))).
  { induction l as [|kv l IH]; intros acc H; cbn [fold_left]; [exact H|]. apply IH. apply NoDup_keys_upd. exact H. }
  apply G. constructor.
Qed.

Lemma NoDup_keys_cprops psi phi x ps : NoDup (keys (cprops psi phi x ps)).
Proof. unfold cprops. destruct (psi (phi x)); [apply NoDup_keys_upd|]; apply NoDup_keys_pol. Qed.

(* ---- entries of enumerated subtrees and of mapped trees ---- *)

Lemma In_bfs_entry p q : forall t', In t' (bfs_all q) ->
  exists i, In (troot t', i) (flat_map (tflat p) q) /\ sbp (tinst rnone t') i.
Proof.
  induction q as [|t q IH] using bfs_queue_ind; intros t' H; [destruct H|].
  rewrite bfs_all_cons in H. destruct H as [H|H].
  - subst t'. exists (tinst p t). split; [|apply sbp_tinst]. cbn [flat_map]. apply in_or_app. left. apply tflat_root_In.
  - destruct (IH t' H) as [i [Hin Hs]]. rewrite flat_map_app in Hin. apply in_app_or in Hin. destruct Hin as [Hin|Hin].
    + exists i. split; [|exact Hs]. cbn [flat_map]. apply in_or_app. right. exact Hin.
    + apply In_fflat in Hin. destruct Hin as [k [Hk Hin]].
      destruct (tflat_reparent p (troot t) k _ _ Hin) as [i2 [Hin2 Hs2]].
      exists i2. split; [|eapply sbp_trans; eassumption]. cbn [flat_map]. apply in_or_app. left.
      apply In_tflat. right. exists k. split; assumption.
Qed.

Lemma entry_tmap phi g t : forall p y i, In (y, i) (tflat p (tmap (cpf phi g) t)) ->
  exists x i0 p0, In (x, i0) (tflat p0 t) /\ y = phi x /\ i_props i = g x (i_props i0).
Proof.
  induction t as [r n c ps kids IH] using tree_ind'. intros p y i H. rewrite Forall_forall in IH.
  rewrite tmap_cpf, tflat_eq in H. destruct H as [H|H].
  - inversion H; subst y i. exists r, (mkInst p (List.map troot kids) n c ps), p.
    split; [rewrite tflat_eq; left; reflexivity|]. split; reflexivity.
  - apply in_flat_map in H. destruct H as [k' [Hk' Hin]]. apply in_map_iff in Hk'. destruct Hk' as [k [<- Hk]].
    destruct (IH k Hk _ _ _ Hin) as [x [i0 [p0 [Hin0 [Hy Hp]]]]].
    destruct (tflat_reparent p0 r k _ _ Hin0) as [i1 [Hin1 Hs1]].
    exists x, i1, p. split; [|split; [exact Hy|]].
    + rewrite tflat_eq. right. apply in_flat_map. exists k. split; assumption.
    + rewrite Hp. destruct Hs1 as [_ [_ [_ E]]]. rewrite E. reflexivity.
Qed.

Lemma fentry_tmap phi g ts p y i : In (y, i) (flat_map (tflat p) (List.map (tmap (cpf phi g)) ts)) ->
  exists x i0, In (x, i0) (flat_map (tflat p) ts) /\ y = phi x /\ i_props i = g x (i_props i0).
Proof.
  intros H. apply in_flat_map in H. destruct H as [t' [Ht' Hin]]. apply in_map_iff in Ht'. destruct Ht' as [t [<- Ht]].
  destruct (entry_tmap phi g t _ _ _ Hin) as [x [i0 [p0 [Hin0 [Hy Hp]]]]].
  destruct (tflat_reparent p0 p t _ _ Hin0) as [i1 [Hin1 Hs1]].
  exists x, i1. split; [apply In_fflat; exists t; split; assumption|]. split; [exact Hy|].
  rewrite Hp. destruct Hs1 as [_ [_ [_ E]]]. rewrite E. reflexivity.
Qed.

Lemma euids_post h E : (forall ps, get_uid (h ps) = get_uid ps) -> euids (List.map (post_entry h) E) = euids E.
Proof.
  intros Hh. unfold euids. induction E as [|[y i] E IH]; [reflexivity|]. cbn [List.map flat_map]. rewrite IH. f_equal.
  unfold iuid, post_entry. cbn [fst snd set_props i_props]. rewrite Hh. reflexivity.
Qed.

Lemma fuids_tmap_post phi g h ts : (forall ps, get_uid (h ps) = get_uid ps) ->
  fuids (List.map (tmap (cpf phi (fun x ps => h (g x ps)))) ts) = fuids (List.map (tmap (cpf phi g)) ts).
Proof.
  intros Hh. rewrite <- !(euids_fflat rnone), fflat_tmap_post. apply euids_post. exact Hh.
Qed.

(* ---- the corrected abstract clone: a copy's properties go through [props_of_list] ---- *)

Definition a_clone_p (src dst : adom) (nu nr : N) (rs : list ref) : option (adom * N * N * list ref) :=
  match find_all rs (a_trees src) with
  | None => None
  | Some subs =>
      if nodupb (frefs subs) then
        let '(rw, nr') := alloc_refs nr (bfs_all subs) in
        let destrefs := frefs (a_trees dst) in
        let copy := tmap (fun x ps =>
                      (match lookup x rw with Some n => n | None => x end,
                       List.map (fun kv => (fst kv, clone_val rw destrefs (snd kv))) (props_of_list ps))) in
        let '(copies, nu') := arrive (fuids (a_trees dst)) nu (List.map copy subs) in
        Some (mkADom (a_root dst) (a_trees dst ++ copies), nu', nr', List.map troot copies)
      else None
  end.

Lemma a_clone_p_inv sa ta nu nr rs ta' nu' nr' roots :
  a_clone_p sa ta nu nr rs = Some (ta', nu', nr', roots) ->
  exists subs rw asg,
    find_all rs (a_trees sa) = Some subs /\ NoDup (frefs subs) /\
    alloc_refs nr (bfs_all subs) = (rw, nr') /\
    settle (fuids (a_trees ta)) nu
      (bfs_all (List.map (tmap (cpf (phi_of rw)
         (fun x ps => vmap (clone_val rw (frefs (a_trees ta))) (props_of_list ps)))) subs)) = (asg, nu') /\
    ta' = mkADom (a_root ta) (a_trees ta ++
            List.map (tmap (cpf (phi_of rw)
              (fun x ps => vmap (clone_val rw (frefs (a_trees ta)))
                                (cprops (fun n => lookup n asg) (phi_of rw) x ps)))) subs) /\
    roots = List.map (phi_of rw) (List.map troot subs).
Proof.
  unfold a_clone_p. destruct (find_all rs (a_trees sa)) as [subs|]; [|discriminate].
  destruct (nodupb (frefs subs)) eqn:End; [|discriminate].
  destruct (alloc_refs nr (bfs_all subs)) as [rw nr1] eqn:Ea. unfold arrive.
  match goal with |- context [settle ?u ?n ?l] => destruct (settle u n l) as [asg nu1] eqn:Es end.
  intros H. inversion H; subst ta' nu1 nr1 roots. clear H.
  exists subs, rw, asg. split; [reflexivity|]. split; [apply nodupb_NoDup; exact End|]. split; [exact Ea|].
  split; [exact Es|].
  assert (E : List.map (apply_uids asg)
                (List.map (tmap (fun x ps => (match lookup x rw with Some n => n | None => x end,
                   List.map (fun kv => (fst kv, clone_val rw (frefs (a_trees ta)) (snd kv))) (props_of_list ps)))) subs)
              = List.map (tmap (cpf (phi_of rw) (fun x ps => vmap (clone_val rw (frefs (a_trees ta)))
                                (cprops (fun n => lookup n asg) (phi_of rw) x ps)))) subs).
  { rewrite map_map. apply map_ext. intros t. unfold apply_uids. rewrite tmap_tmap. apply tmap_ext_in.
    intros x ps _. unfold cpf, cprops. fold (phi_of rw x). f_equal.
    destruct (lookup (phi_of rw x) asg) as [u|]; [|reflexivity].
    rewrite <- upd_vmap. reflexivity. }
  rewrite E. split; [reflexivity|]. rewrite roots_tmap. reflexivity.
Qed.
