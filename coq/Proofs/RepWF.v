(* RepWF.v — a concrete DOM that represents a rose forest is well formed (property C09):
   [rep_wf : Rep d a -> WF d].  The structural facts are proved on the flattening
   [flat_map (tflat p) ts] as list-membership statements, converted to [lookup] through
   [In_lookup] (keys are duplicate free), and transported through the pointwise equality of [Rep]. *)
From RbxVerif Require Import Base Dom Tree BaseFacts TreeFacts Rep.
From Coq Require Import Lia.

(* ---- association lists: membership versus lookup ---- *)

Lemma In_keys {V} k (v : V) (m : map V) : In (k, v) m -> In k (keys m).
Proof.
  intros H. unfold keys. apply in_map_iff. exists (k, v). split; [reflexivity|exact H].
Qed.

Lemma In_lookup {V} k (v : V) (m : map V) : NoDup (keys m) -> In (k, v) m -> lookup k m = Some v.
Proof.
  induction m as [|[k' v'] m IH]; intros Hnd Hin; [destruct Hin|].
  unfold keys in Hnd. cbn [List.map fst] in Hnd.
  inversion Hnd as [|k0 l0 Hnotin Hnd']; subst k0 l0.
  cbn [lookup]. destruct Hin as [Heq|Hin].
  - inversion Heq; subst k' v'. now rewrite N.eqb_refl.
  - destruct (N.eqb k k') eqn:E.
    + apply N.eqb_eq in E. subst k'. exfalso. apply Hnotin. exact (In_keys _ _ _ Hin).
    + apply IH; assumption.
Qed.

Lemma lookup_iff_In {V} k (v : V) (m : map V) :
  NoDup (keys m) -> (lookup k m = Some v <-> In (k, v) m).
Proof. intros Hnd. split; [apply lookup_In|now apply In_lookup]. Qed.

(* [Rooted] only looks at the table through [lookup] *)
Lemma Rooted_ext (m m' : map inst) :
  (forall x, lookup x m = lookup x m') -> forall x, Rooted m x -> Rooted m' x.
Proof.
  intros Hext x HR. induction HR as [x i Hl Hp|x i Hl Hp _ IH].
  - eapply Rooted_top; [rewrite <- Hext; exact Hl|exact Hp].
  - eapply Rooted_up; [rewrite <- Hext; exact Hl|exact Hp|exact IH].
Qed.

(* distinct elements of a list contribute disjoint parts to a duplicate-free [flat_map] *)
Lemma NoDup_flat_map_inj {A B} (f : A -> list B) (l : list A) :
  NoDup (flat_map f l) ->
  forall a b u, In a l -> In b l -> In u (f a) -> In u (f b) -> a = b.
Proof.
  induction l as [|h l IH]; intros Hnd a b u Ha Hb Hua Hub; [destruct Ha|].
  cbn [flat_map] in Hnd.
  destruct Ha as [Ha|Ha]; destruct Hb as [Hb|Hb].
  - congruence.
  - subst h. exfalso. apply (NoDup_app_disj _ _ u Hnd Hua).
    apply in_flat_map. exists b. split; assumption.
  - subst h. exfalso. apply (NoDup_app_disj _ _ u Hnd Hub).
    apply in_flat_map. exists a. split; assumption.
  - apply (IH (NoDup_app_r _ _ Hnd) a b u); assumption.
Qed.

Lemma NoDup_In_count_occ (l : list N) (x : N) :
  NoDup l -> In x l -> count_occ N.eq_dec l x = 1%nat.
Proof.
  intros Hnd Hin.
  pose proof (proj1 (NoDup_count_occ N.eq_dec l) Hnd x) as Hle.
  pose proof (proj1 (count_occ_In N.eq_dec l x) Hin) as Hgt.
  lia.
Qed.

(* ---- the entry a node contributes to the flattening ---- *)

Definition tinst (p : ref) (t : tree) : inst :=
  match t with Node _ n c ps kids => mkInst p (List.map troot kids) n c ps end.

Lemma tinst_parent p t : i_parent (tinst p t) = p.
Proof. destruct t; reflexivity. Qed.
Lemma tinst_children p t : i_children (tinst p t) = List.map troot (tkids t).
Proof. destruct t; reflexivity. Qed.
Lemma tinst_props p t : i_props (tinst p t) = tprops t.
Proof. destruct t; reflexivity. Qed.

Lemma tflat_unfold p t :
  tflat p t = (troot t, tinst p t) :: flat_map (tflat (troot t)) (tkids t).
Proof. destruct t as [r n c ps kids]. rewrite tflat_eq. reflexivity. Qed.

Lemma trefs_unfold t : trefs t = troot t :: frefs (tkids t).
Proof. destruct t as [r n c ps kids]. rewrite trefs_eq. reflexivity. Qed.

Lemma tuids_unfold t :
  tuids t = (match get_uid (tprops t) with Some u => [u] | None => [] end) ++ fuids (tkids t).
Proof. destruct t as [r n c ps kids]. rewrite tuids_eq. reflexivity. Qed.

Lemma In_tflat p t x i :
  In (x, i) (tflat p t) <->
  (x = troot t /\ i = tinst p t) \/
  (exists k, In k (tkids t) /\ In (x, i) (tflat (troot t) k)).
Proof.
  rewrite tflat_unfold. cbn [In]. rewrite in_flat_map. split.
  - intros [H|H]; [left; inversion H; auto|right; exact H].
  - intros [[Hx Hi]|H]; [left; subst; reflexivity|right; exact H].
Qed.

Lemma In_fflat p ts x i :
  In (x, i) (flat_map (tflat p) ts) <-> exists t, In t ts /\ In (x, i) (tflat p t).
Proof. apply in_flat_map. Qed.

Lemma tflat_root_In p t : In (troot t, tinst p t) (tflat p t).
Proof. apply In_tflat. left. split; reflexivity. Qed.

Lemma In_tflat_trefs p t x i : In (x, i) (tflat p t) -> In x (trefs t).
Proof. intros H. rewrite <- (keys_tflat p t). exact (In_keys _ _ _ H). Qed.

Lemma In_fflat_frefs p ts x i : In (x, i) (flat_map (tflat p) ts) -> In x (frefs ts).
Proof. intros H. rewrite <- (keys_fflat p ts). exact (In_keys _ _ _ H). Qed.

(* ---- referents of forests ---- *)

Lemma In_frefs x ts : In x (frefs ts) <-> exists t, In t ts /\ In x (trefs t).
Proof. unfold frefs. apply in_flat_map. Qed.

Lemma roots_in_frefs ts x : In x (List.map troot ts) -> In x (frefs ts).
Proof.
  intros H. apply in_map_iff in H. destruct H as [t [Hx Ht]]. subst x.
  apply In_frefs. exists t. split; [exact Ht|apply troot_in_trefs].
Qed.

Lemma NoDup_frefs_In ts t : NoDup (frefs ts) -> In t ts -> NoDup (trefs t).
Proof.
  induction ts as [|h ts IH]; intros Hnd Hin; [destruct Hin|].
  rewrite frefs_cons in Hnd. destruct Hin as [Heq|Hin].
  - subst h. exact (NoDup_app_l _ _ Hnd).
  - apply IH; [exact (NoDup_app_r _ _ Hnd)|exact Hin].
Qed.

Lemma NoDup_frefs_roots ts : NoDup (frefs ts) -> NoDup (List.map troot ts).
Proof.
  induction ts as [|h ts IH]; intros Hnd; [constructor|].
  rewrite frefs_cons in Hnd. cbn [List.map]. constructor.
  - intros Hin. apply (NoDup_app_disj _ _ (troot h) Hnd).
    + apply troot_in_trefs.
    + apply roots_in_frefs. exact Hin.
  - apply IH. exact (NoDup_app_r _ _ Hnd).
Qed.

Lemma NoDup_trefs_kids t : NoDup (trefs t) -> NoDup (frefs (tkids t)).
Proof.
  rewrite trefs_unfold. intros H. inversion H as [|x0 l0 _ Hk]; subst x0 l0. exact Hk.
Qed.

Lemma NoDup_keys_tflat p t : NoDup (trefs t) -> NoDup (keys (tflat p t)).
Proof. now rewrite keys_tflat. Qed.

Lemma NoDup_keys_fflat p ts : NoDup (frefs ts) -> NoDup (keys (flat_map (tflat p) ts)).
Proof. now rewrite keys_fflat. Qed.

(* ---- clause 2: every listed child has an entry naming the lister as its parent ---- *)

Lemma tflat_children p t : forall x i c,
  In (x, i) (tflat p t) -> In c (i_children i) ->
  exists ci, In (c, ci) (tflat p t) /\ i_parent ci = x.
Proof.
  revert p. induction t as [r n c0 ps kids IH] using tree_ind'. intros p x i c Hin Hc.
  rewrite Forall_forall in IH.
  apply In_tflat in Hin. cbn [troot tkids] in Hin.
  destruct Hin as [[Hx Hi]|[k [Hk Hin]]].
  - subst x i. rewrite tinst_children in Hc. cbn [tkids] in Hc.
    apply in_map_iff in Hc. destruct Hc as [k [Hck Hk]]. subst c.
    exists (tinst r k). split; [|apply tinst_parent].
    apply In_tflat. right. exists k. cbn [troot tkids]. split; [exact Hk|apply tflat_root_In].
  - destruct (IH k Hk r x i c Hin Hc) as [ci [Hci Hp]].
    exists ci. split; [|exact Hp].
    apply In_tflat. right. exists k. cbn [troot tkids]. split; assumption.
Qed.

Lemma fflat_children p ts : forall x i c,
  In (x, i) (flat_map (tflat p) ts) -> In c (i_children i) ->
  exists ci, In (c, ci) (flat_map (tflat p) ts) /\ i_parent ci = x.
Proof.
  intros x i c Hin Hc. apply In_fflat in Hin. destruct Hin as [t [Ht Hin]].
  destruct (tflat_children p t x i c Hin Hc) as [ci [Hci Hp]].
  exists ci. split; [|exact Hp]. apply In_fflat. exists t. split; assumption.
Qed.

(* ---- clause 3: an entry is the tree's root (parent [p]) or is listed exactly once by its parent ---- *)

Lemma tflat_parent_lists p t :
  NoDup (trefs t) -> forall x i, In (x, i) (tflat p t) ->
  (x = troot t /\ i_parent i = p) \/
  (exists pi, In (i_parent i, pi) (tflat p t) /\
              count_occ N.eq_dec (i_children pi) x = 1%nat).
Proof.
  revert p. induction t as [r n c ps kids IH] using tree_ind'. intros p Hnd x i Hin.
  rewrite Forall_forall in IH.
  apply In_tflat in Hin. cbn [troot tkids] in Hin.
  destruct Hin as [[Hx Hi]|[k [Hk Hin]]].
  - left. subst x i. split; [reflexivity|apply tinst_parent].
  - right.
    pose proof (NoDup_trefs_kids _ Hnd) as Hndk. cbn [tkids] in Hndk.
    destruct (IH k Hk r (NoDup_frefs_In _ _ Hndk Hk) x i Hin) as [[Hx Hp]|[pi [Hpi Hc]]].
    + exists (tinst p (Node r n c ps kids)). split.
      * rewrite Hp. exact (tflat_root_In p (Node r n c ps kids)).
      * rewrite tinst_children. cbn [tkids]. subst x.
        apply NoDup_In_count_occ; [apply NoDup_frefs_roots; exact Hndk|].
        apply in_map. exact Hk.
    + exists pi. split; [|exact Hc].
      apply In_tflat. right. exists k. cbn [troot tkids]. split; assumption.
Qed.

Lemma fflat_parent_lists p ts :
  NoDup (frefs ts) -> forall x i, In (x, i) (flat_map (tflat p) ts) ->
  i_parent i = p \/
  (exists pi, In (i_parent i, pi) (flat_map (tflat p) ts) /\
              count_occ N.eq_dec (i_children pi) x = 1%nat).
Proof.
  intros Hnd x i Hin. apply In_fflat in Hin. destruct Hin as [t [Ht Hin]].
  destruct (tflat_parent_lists p t (NoDup_frefs_In _ _ Hnd Ht) x i Hin) as [[_ Hp]|[pi [Hpi Hc]]].
  - left. exact Hp.
  - right. exists pi. split; [|exact Hc]. apply In_fflat. exists t. split; assumption.
Qed.

(* ---- clause 4: every entry's ancestor chain ends at a parentless instance ---- *)

Lemma tflat_rooted (M : map inst) t : forall p,
  (forall x i, In (x, i) (tflat p t) -> lookup x M = Some i) ->
  ~ In rnone (trefs t) ->
  (p = rnone \/ Rooted M p) ->
  forall x i, In (x, i) (tflat p t) -> Rooted M x.
Proof.
  induction t as [r n c ps kids IH] using tree_ind'. intros p HM Hnn Hp.
  rewrite Forall_forall in IH.
  assert (Hr : Rooted M r).
  { pose proof (HM _ _ (tflat_root_In p (Node r n c ps kids))) as Hl. cbn [troot] in Hl.
    destruct (N.eq_dec p rnone) as [E|E].
    - eapply Rooted_top; [exact Hl|rewrite tinst_parent; exact E].
    - eapply Rooted_up; [exact Hl|rewrite tinst_parent; exact E|].
      rewrite tinst_parent. destruct Hp as [Hp|Hp]; [contradiction|exact Hp]. }
  intros x i Hin. apply In_tflat in Hin. cbn [troot tkids] in Hin.
  destruct Hin as [[Hx _]|[k [Hk Hin]]]; [subst x; exact Hr|].
  apply (IH k Hk r) with (i := i).
  - intros x' i' Hin'. apply HM. apply In_tflat. right. exists k.
    cbn [troot tkids]. split; assumption.
  - intros Hc. apply Hnn. rewrite trefs_eq. right. apply In_frefs. exists k. split; assumption.
  - right. exact Hr.
  - exact Hin.
Qed.

Lemma fflat_rooted ts :
  NoDup (frefs ts) -> ~ In rnone (frefs ts) ->
  forall x i, In (x, i) (flat_map (tflat rnone) ts) -> Rooted (flat_map (tflat rnone) ts) x.
Proof.
  intros Hnd Hnn x i Hin. apply In_fflat in Hin. destruct Hin as [t [Ht Hin]].
  apply (tflat_rooted (flat_map (tflat rnone) ts) t rnone) with (i := i).
  - intros x' i' Hin'. apply In_lookup; [apply NoDup_keys_fflat; exact Hnd|].
    apply In_fflat. exists t. split; assumption.
  - intros Hc. apply Hnn. apply In_frefs. exists t. split; assumption.
  - left. reflexivity.
  - exact Hin.
Qed.

(* ---- clauses 5 and 6: the UniqueIds of the forest are those held by the flattened entries ---- *)

Definition iuid (xi : ref * inst) : list N :=
  match get_uid (i_props (snd xi)) with Some u => [u] | None => [] end.
Definition euids (m : list (ref * inst)) : list N := flat_map iuid m.

Lemma In_iuid u xi : In u (iuid xi) <-> get_uid (i_props (snd xi)) = Some u.
Proof.
  unfold iuid. destruct (get_uid (i_props (snd xi))) as [u'|].
  - cbn [In]. split; [intros [H|H]; [now subst|destruct H]|intros H; left; congruence].
  - cbn [In]. split; [intros H; destruct H|discriminate].
Qed.

Lemma In_euids u m :
  In u (euids m) <-> exists x i, In (x, i) m /\ get_uid (i_props i) = Some u.
Proof.
  unfold euids. rewrite in_flat_map. split.
  - intros [[x i] [Hin Hu]]. apply In_iuid in Hu. exists x, i. split; assumption.
  - intros [x [i [Hin Hu]]]. exists (x, i). split; [exact Hin|]. apply In_iuid. exact Hu.
Qed.

Lemma euids_app m1 m2 : euids (m1 ++ m2) = euids m1 ++ euids m2.
Proof. unfold euids. apply flat_map_app. Qed.

Lemma euids_fflat_from p ks :
  Forall (fun k => forall p, euids (tflat p k) = tuids k) ks ->
  euids (flat_map (tflat p) ks) = fuids ks.
Proof.
  induction 1 as [|k ks Hk _ IH]; [reflexivity|].
  cbn [flat_map]. rewrite euids_app, Hk, IH. reflexivity.
Qed.

Lemma euids_tflat p t : euids (tflat p t) = tuids t.
Proof.
  revert p. induction t as [r n c ps kids IH] using tree_ind'. intros p.
  rewrite tflat_eq, tuids_eq.
  change (euids ((r, mkInst p (List.map troot kids) n c ps) :: flat_map (tflat r) kids))
    with (iuid (r, mkInst p (List.map troot kids) n c ps) ++ euids (flat_map (tflat r) kids)).
  f_equal. apply euids_fflat_from. exact IH.
Qed.

Lemma euids_fflat p ts : euids (flat_map (tflat p) ts) = fuids ts.
Proof.
  apply euids_fflat_from. apply Forall_forall. intros t _ p'. apply euids_tflat.
Qed.

Lemma In_fuids u p ts :
  In u (fuids ts) <->
  exists x i, In (x, i) (flat_map (tflat p) ts) /\ get_uid (i_props i) = Some u.
Proof. rewrite <- (euids_fflat p ts). apply In_euids. Qed.

Lemma fflat_uid_unique p ts :
  NoDup (fuids ts) -> forall x1 i1 x2 i2 u,
  In (x1, i1) (flat_map (tflat p) ts) -> In (x2, i2) (flat_map (tflat p) ts) ->
  get_uid (i_props i1) = Some u -> get_uid (i_props i2) = Some u -> x1 = x2.
Proof.
  intros Hnd x1 i1 x2 i2 u H1 H2 Hu1 Hu2.
  rewrite <- (euids_fflat p ts) in Hnd. unfold euids in Hnd.
  assert (E : (x1, i1) = (x2, i2)).
  { apply (NoDup_flat_map_inj iuid _ Hnd (x1, i1) (x2, i2) u H1 H2); apply In_iuid; assumption. }
  congruence.
Qed.

(* ---- the main lemma ---- *)

Lemma rep_wf : forall d a, Rep d a -> WF d.
Proof.
  intros d a [Hext [Hnd [Hnn [Hroot [Hrin [Hmem [Hndu _]]]]]]].
  set (ts := a_trees a) in *.
  assert (Hflat : aflat a = flat_map (tflat rnone) ts) by reflexivity.
  rewrite Hflat in Hext.
  set (M := flat_map (tflat rnone) ts) in *.
  assert (HndM : NoDup (keys M)) by (apply NoDup_keys_fflat; exact Hnd).
  assert (HL : forall x i, lookup x (d_insts d) = Some i <-> In (x, i) M).
  { intros x i. rewrite Hext. apply lookup_iff_In. exact HndM. }
  unfold WF. repeat split.
  - (* root *)
    rewrite Hroot. apply in_map_iff in Hrin. destruct Hrin as [t [Hrt Ht]].
    exists (tinst rnone t). split; [|apply tinst_parent].
    apply HL. rewrite <- Hrt. apply In_fflat. exists t. split; [exact Ht|apply tflat_root_In].
  - (* children *)
    intros r i c Hl Hc. apply HL in Hl.
    destruct (fflat_children rnone ts r i c Hl Hc) as [ci [Hci Hp]].
    exists ci. split; [apply HL; exact Hci|exact Hp].
  - (* listed exactly once *)
    intros r i Hl Hp. apply HL in Hl.
    destruct (fflat_parent_lists rnone ts Hnd r i Hl) as [E|[pi [Hpi Hc]]]; [contradiction|].
    exists pi. split; [apply HL; exact Hpi|exact Hc].
  - (* rooted *)
    intros r i Hl. apply HL in Hl.
    apply (Rooted_ext M (d_insts d)); [intros x; symmetry; apply Hext|].
    exact (fflat_rooted ts Hnd Hnn r i Hl).
  - (* unique ids *)
    intros r1 i1 r2 i2 u Hl1 Hl2 Hu1 Hu2. apply HL in Hl1. apply HL in Hl2.
    exact (fflat_uid_unique rnone ts Hndu r1 i1 r2 i2 u Hl1 Hl2 Hu1 Hu2).
  - (* id set, -> *)
    intros Hm. rewrite Hmem in Hm. apply mem_In in Hm.
    apply (In_fuids u rnone ts) in Hm. destruct Hm as [x [i [Hin Hu]]].
    exists x, i. split; [apply HL; exact Hin|exact Hu].
  - (* id set, <- *)
    intros [x [i [Hl Hu]]]. apply HL in Hl. rewrite Hmem. apply mem_In.
    apply (In_fuids u rnone ts). exists x, i. split; assumption.
Qed.

Print Assumptions rep_wf.
