(* BinValuesFacts3.v — column round-trip laws (enc_col then dec_col, Model/BinValues.v) of the wire types
   CFrame, OptionalCFrame, NumberSequence, ColorSequence, SharedString, Font and Content, each for every
   list of well-formed values (any length) and any trailing bytes, with the exact values that come back. *)
From Coq Require Import Lia.
From RbxVerif Require Import Base Bytes Value Utf8 Rotation BrickColor Attr BinValues BytesFacts
  RotationFacts BinValuesFacts.
From RbxVerif Require AttrFacts.
Open Scope N_scope.

(* ------------------------------------------------------------------------------------------ *)
(* 0. helpers                                                                                   *)
(* ------------------------------------------------------------------------------------------ *)

(* a parser that reads one encoded item back as [g a], repeated *)
Lemma prepeat_roundtrip_map {A B} (P : A -> Prop) (enc : A -> bytes) (g : A -> B) (p : parser B) :
  (forall a rest, P a -> p (enc a ++ rest) = Ok (g a, rest)) ->
  forall l rest, Forall P l -> prepeat (length l) p (flat_map enc l ++ rest) = Ok (List.map g l, rest).
Proof.
  intros H. induction l as [|a l IH]; intros rest HF; cbn [length prepeat flat_map List.map].
  - reflexivity.
  - inversion HF as [|? ? Ha Hl]; subst.
    rewrite <- app_assoc. unfold pbind at 1. rewrite (H a _ Ha).
    unfold pbind at 1. rewrite (IH _ Hl). reflexivity.
Qed.

Lemma Forall_forallb {A} (f : A -> bool) l : Forall (fun a => f a = true) l <-> forallb f l = true.
Proof.
  rewrite forallb_forall, Forall_forall. reflexivity.
Qed.

Lemma vec3_ok_parts p : vec3_ok p = true -> f32_ok (vx p) = true /\ f32_ok (vy p) = true /\ f32_ok (vz p) = true.
Proof.
  unfold vec3_ok. intros H. apply andb_true_iff in H. destruct H as [H Hz].
  apply andb_true_iff in H. destruct H as [Hx Hy]. auto.
Qed.

Lemma mat3_ok_parts m : mat3_ok m = true -> vec3_ok (mx m) = true /\ vec3_ok (my m) = true /\ vec3_ok (mz m) = true.
Proof.
  unfold mat3_ok. intros H. apply andb_true_iff in H. destruct H as [H Hz].
  apply andb_true_iff in H. destruct H as [Hx Hy]. auto.
Qed.

(* the three interleaved component arrays of a list of vectors *)
Lemma dec_vec3_arrays_roundtrip (ps : list vec3) rest :
  Forall (fun p => vec3_ok p = true) ps ->
  dec_vec3_arrays (length ps)
    (enc_f32_array (List.map vx ps) ++ enc_f32_array (List.map vy ps) ++ enc_f32_array (List.map vz ps) ++ rest)
  = Ok (ps, rest).
Proof.
  intros H.
  assert (Hx : Forall (fun v => v < 2 ^ 32) (List.map vx ps)).
  { eapply Forall_map_f32; [|exact H]. intros a Ha. apply vec3_ok_parts in Ha. now apply f32_lt. }
  assert (Hy : Forall (fun v => v < 2 ^ 32) (List.map vy ps)).
  { eapply Forall_map_f32; [|exact H]. intros a Ha. apply vec3_ok_parts in Ha. now apply f32_lt. }
  assert (Hz : Forall (fun v => v < 2 ^ 32) (List.map vz ps)).
  { eapply Forall_map_f32; [|exact H]. intros a Ha. apply vec3_ok_parts in Ha. now apply f32_lt. }
  unfold dec_vec3_arrays, pbind.
  rewrite <- (map_length vx ps) at 1. rewrite f32_array_roundtrip by exact Hx.
  rewrite <- (map_length vy ps) at 1. rewrite f32_array_roundtrip by exact Hy.
  rewrite <- (map_length vz ps) at 1. rewrite f32_array_roundtrip by exact Hz.
  unfold pret. f_equal. f_equal.
  rewrite zip_map. rewrite (zip_map (fun a => (vx a, vy a)) vz). rewrite map_map. cbn [fst snd].
  rewrite <- (map_id ps) at 2. apply map_ext. intros [x y z]. reflexivity.
Qed.

(* an input-sized allocation passes the limit *)
Definition lim_ok (lim : option N) (n : N) : bool :=
  match lim with Some l => N.leb n l | None => true end.

Lemma palloc_ok lim n b : lim_ok lim n = true -> palloc lim n b = Ok (tt, b).
Proof.
  unfold lim_ok, palloc. destruct lim as [l|]; [|reflexivity]. intros H. apply N.leb_le in H.
  destruct (N.ltb_spec l n); [lia|reflexivity].
Qed.

Lemma lim_ok_none n : lim_ok None n = true.
Proof. reflexivity. Qed.

Lemma lim_ok_0 lim : lim_ok lim 0 = true.
Proof. destruct lim as [l|]; [|reflexivity]. apply N.leb_le. lia. Qed.

Lemma lim_ok_mono lim n m : m <= n -> lim_ok lim n = true -> lim_ok lim m = true.
Proof.
  unfold lim_ok. destruct lim as [l|]; [|reflexivity]. intros Hm H. apply N.leb_le in H. apply N.leb_le. lia.
Qed.

Lemma len32_small {A} (l : list A) : N.of_nat (length l) < 2 ^ 32 -> BinValues.len32 l = N.of_nat (length l).
Proof. intros H. unfold BinValues.len32. apply N.mod_small. exact H. Qed.

Lemma read_le32_app v rest : v < 2 ^ 32 -> read_le 4 (w_le32 v ++ rest) = Ok (v, rest).
Proof. intros H. unfold w_le32. apply read_le_app. exact H. Qed.

Lemma w_f32_length x : length (w_f32 x) = 4%nat.
Proof. apply le_bytes_length. Qed.

(* ------------------------------------------------------------------------------------------ *)
(* 1. CFrame                                                                                    *)
(* ------------------------------------------------------------------------------------------ *)

(* what the rotation part of a CFrame is after a write and a read: a matrix that has a basic rotation id (every
   entry within f32::EPSILON of one of the 24 axis-aligned bases: rotation_snap_only_near_basis) is replaced by
   that basis; any other matrix is kept bit for bit *)
Definition norm_rot (m : mat3) : mat3 :=
  match to_basic_rotation_id m with
  | Some id => match from_basic_rotation_id id with Some b => b | None => m end
  | None => m
  end.

Theorem norm_rot_no_id m : to_basic_rotation_id m = None -> norm_rot m = m.
Proof. unfold norm_rot. intros H. rewrite H. reflexivity. Qed.

Theorem norm_rot_id m id : to_basic_rotation_id m = Some id -> from_basic_rotation_id id = Some (norm_rot m).
Proof.
  intros H. unfold norm_rot. rewrite H. destruct (to_basic_some _ _ H) as [b [Hb _]]. now rewrite Hb.
Qed.

(* the image of norm_rot is fixed by it *)
Theorem norm_rot_idempotent m : norm_rot (norm_rot m) = norm_rot m.
Proof.
  destruct (to_basic_rotation_id m) as [id|] eqn:E.
  - pose proof (norm_rot_id _ _ E) as Hb.
    destruct (rotation_ids_roundtrip id (from_id_some_in _ _ Hb)) as [b' [Hb' Hid]].
    rewrite Hb in Hb'. injection Hb' as <-.
    unfold norm_rot at 1. rewrite Hid, Hb. reflexivity.
  - rewrite !(norm_rot_no_id _ E). reflexivity.
Qed.

(* the 24 bases themselves are fixed *)
Theorem norm_rot_basis id b : from_basic_rotation_id id = Some b -> norm_rot b = b.
Proof.
  intros Hb. destruct (rotation_ids_roundtrip id (from_id_some_in _ _ Hb)) as [b' [Hb' Hid]].
  rewrite Hb in Hb'. injection Hb' as <-. unfold norm_rot. now rewrite Hid, Hb.
Qed.

(* norm_rot changes a matrix only to a basis that is entrywise within f32::EPSILON of it *)
Theorem norm_rot_near m : norm_rot m = m \/ near_mat m (norm_rot m).
Proof.
  destruct (to_basic_rotation_id m) as [id|] eqn:E.
  - right. apply (rotation_snap_only_near_basis m id); [exact E|now apply norm_rot_id].
  - left. now apply norm_rot_no_id.
Qed.

Lemma norm_rot_ok m : mat3_ok m = true -> mat3_ok (norm_rot m) = true.
Proof.
  intros H. destruct (to_basic_rotation_id m) as [id|] eqn:E.
  - pose proof (norm_rot_id _ _ E) as Hb. pose proof (from_id_some_in _ _ Hb) as Hin.
    assert (T : forallb (fun id => match from_basic_rotation_id id with Some b => mat3_ok b | None => false end)
                        rotation_ids = true) by (vm_compute; reflexivity).
    rewrite forallb_forall in T. specialize (T id Hin). now rewrite Hb in T.
  - now rewrite (norm_rot_no_id _ E).
Qed.

Lemma dec_rot_enc_rot m rest : mat3_ok m = true -> dec_rot (enc_rot m ++ rest) = Ok (norm_rot m, rest).
Proof.
  intros H. unfold enc_rot. destruct (to_basic_rotation_id m) as [id|] eqn:E.
  - pose proof (norm_rot_id _ _ E) as Hb. destruct (to_basic_some _ _ E) as [_ [_ [Hne Hlt]]].
    unfold dec_rot, pbind. rewrite (read_u8_app _ _ Hlt).
    destruct (N.eqb_spec id 0) as [->|_]; [now elim Hne|]. rewrite Hb. reflexivity.
  - rewrite (norm_rot_no_id _ E).
    apply mat3_ok_parts in H. destruct H as (Hx & Hy & Hz).
    apply vec3_ok_parts in Hx, Hy, Hz.
    destruct Hx as (Hxx & Hxy & Hxz), Hy as (Hyx & Hyy & Hyz), Hz as (Hzx & Hzy & Hzz).
    rewrite <- !app_assoc. unfold dec_rot, pbind. rewrite read_u8_app by lia.
    replace (N.eqb 0 0) with true by reflexivity.
    rewrite (read_f32le_app _ _ Hxx), (read_f32le_app _ _ Hxy), (read_f32le_app _ _ Hxz).
    rewrite (read_f32le_app _ _ Hyx), (read_f32le_app _ _ Hyy), (read_f32le_app _ _ Hyz).
    rewrite (read_f32le_app _ _ Hzx), (read_f32le_app _ _ Hzy), (read_f32le_app _ _ Hzz).
    unfold pret. destruct m as [[a b c] [d e f] [g h i]]. reflexivity.
Qed.

Definition norm_cframe (cf : cframe) : cframe := mkCF (cf_pos cf) (norm_rot (cf_rot cf)).

Lemma cframe_ok_parts cf : cframe_ok cf = true -> vec3_ok (cf_pos cf) = true /\ mat3_ok (cf_rot cf) = true.
Proof. unfold cframe_ok. intros H. apply andb_true_iff in H. exact H. Qed.

(* the rotation and position arrays of a list of (position, rotation) pairs, shared by the CFrame and the
   OptionalCFrame arms *)
Lemma cframe_body_roundtrip (prs : list (vec3 * mat3)) rest :
  Forall (fun pr => vec3_ok (fst pr) = true /\ mat3_ok (snd pr) = true) prs ->
  exists b1,
    prepeat (length prs) dec_rot
      (flat_map (fun pr => enc_rot (snd pr)) prs ++
       enc_f32_array (List.map (fun pr => vx (fst pr)) prs) ++ enc_f32_array (List.map (fun pr => vy (fst pr)) prs) ++
       enc_f32_array (List.map (fun pr => vz (fst pr)) prs) ++ rest)
    = Ok (List.map (fun pr => norm_rot (snd pr)) prs, b1) /\
    dec_vec3_arrays (length prs) b1 = Ok (List.map fst prs, rest).
Proof.
  intros H. eexists. split.
  - apply (prepeat_roundtrip_map (fun pr : vec3 * mat3 => mat3_ok (snd pr) = true)
             (fun pr => enc_rot (snd pr)) (fun pr => norm_rot (snd pr)) dec_rot).
    + intros a r Ha. now apply dec_rot_enc_rot.
    + eapply Forall_impl; [|exact H]. intros a [_ Ha]. exact Ha.
  - rewrite <- (map_length fst prs) at 1.
    rewrite <- (map_map fst vx), <- (map_map fst vy), <- (map_map fst vz).
    apply dec_vec3_arrays_roundtrip.
    apply Forall_forall. intros p Hp. apply in_map_iff in Hp. destruct Hp as [pr [<- Hin]].
    rewrite Forall_forall in H. now apply H.
Qed.

Section Columns3.
Variable c : enc_ctx.
Variable dc : dec_ctx.

(* CFrame: the position bit for bit, the rotation through norm_rot *)
Theorem col_roundtrip_cframe (cfs : list cframe) rest :
  Forall (fun cf => cframe_ok cf = true) cfs ->
  exists b, enc_col WCFrame c (List.map VCFrame cfs) = Ok b /\
            dec_col WCFrame VT_CFrame dc (length cfs) (b ++ rest)
            = Ok (List.map (fun cf => VCFrame (mkCF (cf_pos cf) (norm_rot (cf_rot cf)))) cfs, rest).
Proof.
  intros H. eexists. split.
  - cbn [enc_col]. rewrite (collect_map _ VCFrame (fun z => z)) by reflexivity. cbn [rbind]. rewrite map_id. reflexivity.
  - cbn [dec_col]. rewrite N.eqb_refl.
    pose (prs := List.map (fun cf => (cf_pos cf, cf_rot cf)) cfs).
    assert (Hprs : Forall (fun pr : vec3 * mat3 => vec3_ok (fst pr) = true /\ mat3_ok (snd pr) = true) prs).
    { apply Forall_forall. intros pr Hp. apply in_map_iff in Hp. destruct Hp as [cf [<- Hin]].
      rewrite Forall_forall in H. apply cframe_ok_parts. now apply H. }
    destruct (cframe_body_roundtrip prs rest Hprs) as [b1 [B1 B2]].
    unfold prs in B1, B2. rewrite map_length, flat_map_concat_map, !map_map in B1. cbn [fst snd] in B1.
    rewrite <- flat_map_concat_map in B1. rewrite map_length, map_map in B2. cbn [fst] in B2.
    rewrite <- !app_assoc.
    rewrite (pbind_ok_intro _ _ _ _ _ B1). rewrite (pbind_ok_intro _ _ _ _ _ B2).
    unfold pret. rewrite zip_map, map_map. reflexivity.
Qed.

(* ------------------------------------------------------------------------------------------ *)
(* 2. OptionalCFrame                                                                            *)
(* ------------------------------------------------------------------------------------------ *)
Definition ocf_ok (o : option cframe) : bool := match o with Some cf => cframe_ok cf | None => true end.
Definition norm_ocf (o : option cframe) : option cframe := option_map norm_cframe o.

(* the pair written to the CFrame sub-column for one value: None is written as the zero position and the identity
   rotation *)
Definition ocf_pair (o : option cframe) : vec3 * mat3 :=
  match o with Some cf => (cf_pos cf, cf_rot cf) | None => (mkV3 F32_ZERO F32_ZERO F32_ZERO, mat3_identity) end.

Lemma ocf_values_flags (os : list (option cframe)) rest :
  ocf_values (List.map (fun o => (fst (ocf_pair o), norm_rot (snd (ocf_pair o)))) os)
             (List.map (fun o : option cframe => match o with Some _ => 1 | None => 0 end) os ++ rest)
  = (List.map (fun o => VOptionalCFrame (norm_ocf o)) os, rest).
Proof.
  induction os as [|o os IH]; [reflexivity|].
  cbn [List.map ocf_values app]. rewrite IH. destruct o as [cf|]; cbn; [|reflexivity].
  destruct cf as [p r]. reflexivity.
Qed.

(* OptionalCFrame: Some cf comes back as Some of the normalised cf, None as None *)
Theorem col_roundtrip_optionalcframe (os : list (option cframe)) rest :
  Forall (fun o => ocf_ok o = true) os ->
  exists b, enc_col WOptionalCFrame c (List.map VOptionalCFrame os) = Ok b /\
            dec_col WOptionalCFrame VT_OptionalCFrame dc (length os) (b ++ rest)
            = Ok (List.map (fun o => VOptionalCFrame (option_map (fun cf => mkCF (cf_pos cf) (norm_rot (cf_rot cf))) o)) os,
                  rest).
Proof.
  intros H. eexists. split.
  - cbn [enc_col]. rewrite (collect_map _ VOptionalCFrame (fun z => z)) by reflexivity. cbn [rbind]. rewrite map_id. reflexivity.
  - cbn [dec_col]. rewrite N.eqb_refl.
    pose (prs := List.map ocf_pair os).
    assert (Hprs : Forall (fun pr : vec3 * mat3 => vec3_ok (fst pr) = true /\ mat3_ok (snd pr) = true) prs).
    { apply Forall_forall. intros pr Hp. apply in_map_iff in Hp. destruct Hp as [o [<- Hin]].
      rewrite Forall_forall in H. specialize (H o Hin). destruct o as [cf|]; cbn [ocf_pair fst snd].
      - now apply cframe_ok_parts.
      - split; reflexivity. }
    destruct (cframe_body_roundtrip prs
                  (w_u8 (wire_id WBool) ++ List.map (fun o : option cframe => match o with Some _ => 1 | None => 0 end) os ++ rest)
                  Hprs) as [b1 [B1 B2]].
    unfold prs in B1, B2. rewrite map_length, flat_map_concat_map, !map_map in B1.
    rewrite <- flat_map_concat_map in B1. rewrite map_length, map_map in B2.
    rewrite <- !app_assoc.
    erewrite pbind_ok_intro; [|apply read_u8_app; vm_compute; reflexivity].
    rewrite N.eqb_refl. cbn [negb].
    assert (E1 : flat_map (fun o : option cframe => enc_rot match o with Some cf => cf_rot cf | None => mat3_identity end) os
                 = flat_map (fun x => enc_rot (snd (ocf_pair x))) os).
    { apply flat_map_ext. intros [cf|]; reflexivity. }
    assert (E2 : forall f : vec3 -> f32,
               f (mkV3 F32_ZERO F32_ZERO F32_ZERO) = F32_ZERO ->
               List.map (fun o : option cframe => match o with Some cf => f (cf_pos cf) | None => F32_ZERO end) os
               = List.map (fun x => f (fst (ocf_pair x))) os).
    { intros f Hf. apply map_ext. intros [cf|]; [reflexivity|]. cbn [ocf_pair fst]. now rewrite Hf. }
    rewrite E1, (E2 vx eq_refl), (E2 vy eq_refl), (E2 vz eq_refl).
    rewrite (pbind_ok_intro _ _ _ _ _ B1). rewrite (pbind_ok_intro _ _ _ _ _ B2).
    erewrite pbind_ok_intro; [|apply read_u8_app; vm_compute; reflexivity].
    rewrite N.eqb_refl. cbn [negb].
    rewrite zip_map. rewrite ocf_values_flags. reflexivity.
Qed.

(* ------------------------------------------------------------------------------------------ *)
(* 3. NumberSequence                                                                            *)
(* ------------------------------------------------------------------------------------------ *)
Definition nseq_kp_ok (kp : f32 * f32 * f32) : bool := let '(t, x, e) := kp in f32_ok t && f32_ok x && f32_ok e.
(* keypoint count fits the u32 length field and the reader's allocation (12 bytes a keypoint) is within its limit *)
Definition nseq_ok (lim : option N) (kps : list (f32 * f32 * f32)) : bool :=
  N.ltb (N.of_nat (length kps)) 4294967296 && lim_ok lim (12 * N.of_nat (length kps)) && forallb nseq_kp_ok kps.

Definition nseq_kp_bytes (kp : f32 * f32 * f32) : bytes := let '(t, x, e) := kp in w_f32 t ++ w_f32 x ++ w_f32 e.
Definition nseq_bytes (kps : list (f32 * f32 * f32)) : bytes :=
  w_le32 (BinValues.len32 kps) ++ flat_map nseq_kp_bytes kps.

Lemma nseq_item_roundtrip kps rest : nseq_ok (dc_lim dc) kps = true ->
  (count <== read_le 4 ;; _ <== palloc (dc_lim dc) (12 * count) ;;
   kps <== pfor32 count (t <== read_f32le ;; v <== read_f32le ;; e <== read_f32le ;; pret (t, v, e)) ;;
   pret (VNumberSequence kps)) (nseq_bytes kps ++ rest) = Ok (VNumberSequence kps, rest).
Proof.
  intros H. unfold nseq_ok in H. apply andb_true_iff in H. destruct H as [H Hk].
  apply andb_true_iff in H. destruct H as [Hl Hlim]. apply N.ltb_lt in Hl.
  unfold nseq_bytes. rewrite (len32_small kps Hl). rewrite <- app_assoc.
  erewrite pbind_ok_intro; [|apply read_le32_app; exact Hl].
  erewrite pbind_ok_intro; [|apply palloc_ok; exact Hlim].
  erewrite pbind_ok_intro; [reflexivity|].
  unfold pfor32. apply (AttrFacts.pfor_app _ nseq_kp_bytes nseq_kp_ok); [| |exact Hk].
  - intros [[t v] e] r Ha. unfold nseq_kp_ok in Ha. apply andb_true_iff in Ha. destruct Ha as [Ha He].
    apply andb_true_iff in Ha. destruct Ha as [Ht Hv]. unfold nseq_kp_bytes. rewrite <- !app_assoc.
    unfold pbind. rewrite (read_f32le_app _ _ Ht), (read_f32le_app _ _ Hv), (read_f32le_app _ _ He). reflexivity.
  - intros [[t v] e]. unfold nseq_kp_bytes. rewrite !app_length, !w_f32_length. lia.
Qed.

Theorem col_roundtrip_numbersequence (ks : list (list (f32 * f32 * f32))) rest :
  Forall (fun kps => nseq_ok (dc_lim dc) kps = true) ks ->
  exists b, enc_col WNumberSequence c (List.map VNumberSequence ks) = Ok b /\
            dec_col WNumberSequence VT_NumberSequence dc (length ks) (b ++ rest)
            = Ok (List.map VNumberSequence ks, rest).
Proof.
  intros H. eexists. split.
  - cbn [enc_col]. rewrite (collect_map _ VNumberSequence nseq_bytes) by reflexivity.
    cbn [rbind]. rewrite concat_map_flat_map. reflexivity.
  - cbn [dec_col]. rewrite N.eqb_refl.
    apply (prepeat_roundtrip_map (fun kps => nseq_ok (dc_lim dc) kps = true) nseq_bytes VNumberSequence); [|exact H].
    intros kps r Hk. now apply nseq_item_roundtrip.
Qed.

(* ------------------------------------------------------------------------------------------ *)
(* 4. ColorSequence                                                                             *)
(* ------------------------------------------------------------------------------------------ *)
(* The keypoint envelope is not part of rbx_types::ColorSequenceKeypoint (nor of the model's VColorSequence): the
   writer emits the dummy envelope 0.0 after each keypoint and the reader skips four bytes.  So the value that comes
   back is the value written: time and the three colour channels of every keypoint, bit for bit. *)
Definition cseq_kp_ok (kp : f32 * (f32 * f32 * f32)) : bool :=
  let '(t, (r, g, b)) := kp in f32_ok t && f32_ok r && f32_ok g && f32_ok b.
(* 16 bytes a keypoint in the reader's allocation *)
Definition cseq_ok (lim : option N) (kps : list (f32 * (f32 * f32 * f32))) : bool :=
  N.ltb (N.of_nat (length kps)) 4294967296 && lim_ok lim (16 * N.of_nat (length kps)) && forallb cseq_kp_ok kps.

Definition cseq_kp_bytes (kp : f32 * (f32 * f32 * f32)) : bytes :=
  let '(t, (r, g, b)) := kp in w_f32 t ++ w_f32 r ++ w_f32 g ++ w_f32 b ++ w_f32 F32_ZERO.
Definition cseq_bytes (kps : list (f32 * (f32 * f32 * f32))) : bytes :=
  w_le32 (BinValues.len32 kps) ++ flat_map cseq_kp_bytes kps.

Lemma cseq_item_roundtrip kps rest : cseq_ok (dc_lim dc) kps = true ->
  (count <== read_le 4 ;; _ <== palloc (dc_lim dc) (16 * count) ;;
   kps <== pfor32 count (t <== read_f32le ;; r <== read_f32le ;; g <== read_f32le ;; b <== read_f32le ;;
                         _ <== read_f32le ;; pret (t, (r, g, b))) ;;
   pret (VColorSequence kps)) (cseq_bytes kps ++ rest) = Ok (VColorSequence kps, rest).
Proof.
  intros H. unfold cseq_ok in H. apply andb_true_iff in H. destruct H as [H Hk].
  apply andb_true_iff in H. destruct H as [Hl Hlim]. apply N.ltb_lt in Hl.
  unfold cseq_bytes. rewrite (len32_small kps Hl). rewrite <- app_assoc.
  erewrite pbind_ok_intro; [|apply read_le32_app; exact Hl].
  erewrite pbind_ok_intro; [|apply palloc_ok; exact Hlim].
  erewrite pbind_ok_intro; [reflexivity|].
  unfold pfor32. apply (AttrFacts.pfor_app _ cseq_kp_bytes cseq_kp_ok); [| |exact Hk].
  - intros [t [[r g] b]] rs Ha. unfold cseq_kp_ok in Ha. apply andb_true_iff in Ha. destruct Ha as [Ha Hb].
    apply andb_true_iff in Ha. destruct Ha as [Ha Hg]. apply andb_true_iff in Ha. destruct Ha as [Ht Hr].
    unfold cseq_kp_bytes. rewrite <- !app_assoc.
    unfold pbind. rewrite (read_f32le_app _ _ Ht), (read_f32le_app _ _ Hr), (read_f32le_app _ _ Hg), (read_f32le_app _ _ Hb).
    rewrite (read_f32le_app F32_ZERO) by reflexivity. reflexivity.
  - intros [t [[r g] b]]. unfold cseq_kp_bytes. rewrite !app_length, !w_f32_length. lia.
Qed.

Theorem col_roundtrip_colorsequence (ks : list (list (f32 * (f32 * f32 * f32)))) rest :
  Forall (fun kps => cseq_ok (dc_lim dc) kps = true) ks ->
  exists b, enc_col WColorSequence c (List.map VColorSequence ks) = Ok b /\
            dec_col WColorSequence VT_ColorSequence dc (length ks) (b ++ rest)
            = Ok (List.map VColorSequence ks, rest).
Proof.
  intros H. eexists. split.
  - cbn [enc_col]. rewrite (collect_map _ VColorSequence cseq_bytes) by reflexivity.
    cbn [rbind]. rewrite concat_map_flat_map. reflexivity.
  - cbn [dec_col]. rewrite N.eqb_refl.
    apply (prepeat_roundtrip_map (fun kps => cseq_ok (dc_lim dc) kps = true) cseq_bytes VColorSequence); [|exact H].
    intros kps r Hk. now apply cseq_item_roundtrip.
Qed.

(* ------------------------------------------------------------------------------------------ *)
(* 5. SharedString                                                                              *)
(* ------------------------------------------------------------------------------------------ *)
(* the index the writer's table gives a shared string (0 stands in when there is none: then the writer panics) *)
Definition sstr_id (s : bytes) : N := match ec_sstr c s with Some id => id | None => 0 end.
(* the string was collected by the writer, its index fits a u32 and is an index of the reader's table *)
Definition sstr_ok (s : bytes) : bool :=
  match ec_sstr c s with
  | Some id => N.ltb id 4294967296 && N.ltb id (N.of_nat (length (dc_sstr dc)))
  | None => false
  end.
(* what the reader's table holds at that index *)
Definition sstr_back (s : bytes) : bytes := nth (N.to_nat (sstr_id s)) (dc_sstr dc) [].

Lemma nth_opt_nth {A} (l : list A) n d : (n < length l)%nat -> nth_opt n l = Some (nth n l d).
Proof.
  revert n. induction l as [|a l IH]; intros n Hn; [cbn in Hn; lia|].
  destruct n as [|n]; [reflexivity|]. cbn [nth_opt nth]. apply IH. cbn in Hn. lia.
Qed.

Lemma sstr_values_back ss : Forall (fun s => sstr_ok s = true) ss ->
  sstr_values (dc_sstr dc) (List.map sstr_id ss) = Some (List.map (fun s => VSharedString (sstr_back s)) ss).
Proof.
  induction 1 as [|s ss Hs _ IH]; [reflexivity|].
  cbn [List.map sstr_values]. rewrite IH.
  unfold sstr_ok in Hs. unfold sstr_back, sstr_id. destruct (ec_sstr c s) as [id|]; [|discriminate].
  apply andb_true_iff in Hs. destruct Hs as [_ Hs]. unfold sstr_get. rewrite Hs. apply N.ltb_lt in Hs.
  rewrite (nth_opt_nth (dc_sstr dc) (N.to_nat id) ([] : bytes)) by lia. reflexivity.
Qed.

(* SharedString: the writer's index of each string, looked up in the reader's table *)
Theorem col_roundtrip_sharedstring (ss : list bytes) rest :
  Forall (fun s => sstr_ok s = true) ss ->
  exists b, enc_col WSharedString c (List.map VSharedString ss) = Ok b /\
            dec_col WSharedString VT_SharedString dc (length ss) (b ++ rest)
            = Ok (List.map (fun s => VSharedString (sstr_back s)) ss, rest).
Proof.
  intros H. exists (enc_u32_array (List.map sstr_id ss)). split.
  - cbn [enc_col].
    assert (E : collect (fun v => match v with
                  | VSharedString s => match ec_sstr c s with Some id => Ok id | None => Panic end
                  | _ => mismatch end) (List.map VSharedString ss) = Ok (List.map sstr_id ss)).
    { clear rest. induction H as [|s l Hs _ IH]; [reflexivity|]. cbn [List.map collect]. rewrite IH.
      unfold sstr_ok in Hs. unfold sstr_id. destruct (ec_sstr c s); [reflexivity|discriminate]. }
    rewrite E. reflexivity.
  - cbn [dec_col]. rewrite N.eqb_refl. unfold pbind.
    rewrite <- (map_length sstr_id ss) at 1. rewrite u32_array_roundtrip.
    + now rewrite sstr_values_back.
    + apply Forall_forall. intros v Hv. apply in_map_iff in Hv. destruct Hv as [s [<- Hin]].
      rewrite Forall_forall in H. specialize (H s Hin). unfold sstr_ok in H. unfold sstr_id.
      destruct (ec_sstr c s); [|discriminate]. apply andb_true_iff in H. destruct H as [H _]. apply N.ltb_lt in H. exact H.
Qed.

(* when the reader's table holds the writer's strings at the writer's indices, every string comes back itself *)
Corollary col_roundtrip_sharedstring_same (ss : list bytes) rest :
  Forall (fun s => sstr_ok s = true) ss ->
  (forall s id, ec_sstr c s = Some id -> id < N.of_nat (length (dc_sstr dc)) -> nth (N.to_nat id) (dc_sstr dc) [] = s) ->
  exists b, enc_col WSharedString c (List.map VSharedString ss) = Ok b /\
            dec_col WSharedString VT_SharedString dc (length ss) (b ++ rest) = Ok (List.map VSharedString ss, rest).
Proof.
  intros H Hsame. destruct (col_roundtrip_sharedstring ss rest H) as [b [E D]]. exists b. split; [exact E|].
  rewrite D. f_equal. f_equal. apply map_ext_in. intros s Hin. f_equal.
  rewrite Forall_forall in H. specialize (H s Hin). unfold sstr_ok in H. unfold sstr_back, sstr_id.
  destruct (ec_sstr c s) as [id|] eqn:Es; [|discriminate]. apply andb_true_iff in H. destruct H as [_ H].
  apply N.ltb_lt in H. now apply Hsame.
Qed.

(* a shared string the writer did not collect: the writer panics *)
Theorem col_sharedstring_uncollected_panics (ss1 ss2 : list bytes) s :
  Forall (fun s => ec_sstr c s <> None) ss1 -> ec_sstr c s = None ->
  enc_col WSharedString c (List.map VSharedString (ss1 ++ s :: ss2)) = Panic.
Proof.
  intros H Hs. cbn [enc_col].
  induction H as [|a l Ha _ IH]; cbn [app List.map collect].
  - rewrite Hs. reflexivity.
  - destruct (ec_sstr c a); [|now elim Ha]. cbn [rbind] in IH |- *.
    destruct (collect _ (List.map VSharedString (l ++ s :: ss2))); try discriminate; reflexivity.
Qed.

(* ------------------------------------------------------------------------------------------ *)
(* 6. Font                                                                                      *)
(* ------------------------------------------------------------------------------------------ *)
(* a string that write_string / read_string carry: length fits the u32 field, the reader's allocation is within the
   limit, valid UTF-8 *)
Definition str_ok (lim : option N) (s : bytes) : bool :=
  N.ltb (N.of_nat (length s)) 4294967296 && lim_ok lim (N.of_nat (length s)) && utf8_valid s.

Lemma str_ok_parts lim s : str_ok lim s = true ->
  N.of_nat (length s) < 2 ^ 32 /\ lim_ok lim (N.of_nat (length s)) = true /\ utf8_valid s = true.
Proof.
  unfold str_ok. intros H. apply andb_true_iff in H. destruct H as [H Hu].
  apply andb_true_iff in H. destruct H as [Hl Hlim]. apply N.ltb_lt in Hl. auto.
Qed.

Lemma take_upto_app s rest : take_upto (N.of_nat (length s)) (s ++ rest) = Ok (s, rest).
Proof.
  unfold take_upto. destruct (N.leb_spec (N.of_nat (length (s ++ rest))) (N.of_nat (length s))) as [Hle|Hgt].
  - rewrite app_length in Hle. destruct rest as [|x r]; [now rewrite app_nil_r|]. cbn [length] in Hle. lia.
  - rewrite Nnat.Nat2N.id. apply read_exact_app.
Qed.

Lemma read_bstr_app lim s rest :
  N.of_nat (length s) < 2 ^ 32 -> lim_ok lim (N.of_nat (length s)) = true ->
  read_bstr lim (w_bstr s ++ rest) = Ok (s, rest).
Proof.
  intros Hl Hlim. unfold read_bstr, w_bstr. rewrite (len32_small s Hl), <- app_assoc.
  erewrite pbind_ok_intro; [|apply read_le32_app; exact Hl].
  erewrite pbind_ok_intro; [|apply palloc_ok; exact Hlim].
  apply take_upto_app.
Qed.

Lemma read_str_app lim s rest : str_ok lim s = true -> read_str lim (w_bstr s ++ rest) = Ok (s, rest).
Proof.
  intros H. apply str_ok_parts in H. destruct H as (Hl & Hlim & Hu). unfold read_str.
  erewrite pbind_ok_intro; [|apply read_bstr_app; assumption]. rewrite Hu. reflexivity.
Qed.

Lemma w_bstr_length s : (4 <= length (w_bstr s))%nat.
Proof. unfold w_bstr, w_le32. rewrite app_length, le_bytes_length. lia. Qed.

Definition font_ok (lim : option N) (f : font) : bool :=
  str_ok lim (fo_family f) && mem (fo_weight f) font_weights && N.leb (fo_style f) 1 &&
  match fo_cached f with Some s => str_ok lim s | None => true end.

(* cached_face_id = Some "" is written as the empty string, which the reader takes for None *)
Definition norm_font (f : font) : font :=
  mkFont (fo_family f) (fo_weight f) (fo_style f) (match fo_cached f with Some [] => None | o => o end).

Definition font_bytes (f : font) : bytes :=
  w_bstr (fo_family f) ++ w_le16 (fo_weight f) ++ w_u8 (fo_style f) ++
  w_bstr (match fo_cached f with Some s => s | None => [] end).

Lemma str_ok_nil lim : str_ok lim [] = true.
Proof. unfold str_ok, lim_ok. destruct lim as [l|]; [|reflexivity]. cbn [length]. destruct l; reflexivity. Qed.

Lemma font_item_roundtrip f rest : font_ok (dc_lim dc) f = true ->
  (family <== read_str (dc_lim dc) ;; weight <== read_le 2 ;; style <== read_u8 ;; cached <== read_str (dc_lim dc) ;;
   pret (VFont (mkFont family (font_weight_or_default weight) (font_style_or_default style)
                       (match cached with [] => None | _ => Some cached end))))
    (font_bytes f ++ rest) = Ok (VFont (norm_font f), rest).
Proof.
  intros H. unfold font_ok in H. apply andb_true_iff in H. destruct H as [H Hc].
  apply andb_true_iff in H. destruct H as [H Hs]. apply andb_true_iff in H. destruct H as [Hf Hw].
  destruct (AttrFacts.font_weight_u16 _ Hw) as [Hw16 Hwd]. apply N.leb_le in Hs.
  assert (Hc' : str_ok (dc_lim dc) (match fo_cached f with Some s => s | None => [] end) = true).
  { destruct (fo_cached f); [exact Hc|apply str_ok_nil]. }
  unfold font_bytes. rewrite <- !app_assoc.
  erewrite pbind_ok_intro; [|apply read_str_app; exact Hf].
  erewrite pbind_ok_intro; [|unfold w_le16; apply read_le_app; exact Hw16].
  erewrite pbind_ok_intro; [|apply read_u8_app; lia].
  erewrite pbind_ok_intro; [|apply read_str_app; exact Hc'].
  unfold pret, norm_font. rewrite Hwd. unfold font_style_or_default.
  destruct (N.leb_spec (fo_style f) 1); [|lia].
  destruct (fo_cached f) as [[|x s]|]; reflexivity.
Qed.

(* Font: family, weight, style bit for bit; the cached face id with Some "" read back as None *)
Theorem col_roundtrip_font (fs : list font) rest :
  Forall (fun f => font_ok (dc_lim dc) f = true) fs ->
  exists b, enc_col WFont c (List.map VFont fs) = Ok b /\
            dec_col WFont VT_Font dc (length fs) (b ++ rest)
            = Ok (List.map (fun f => VFont (mkFont (fo_family f) (fo_weight f) (fo_style f)
                                                   (match fo_cached f with Some [] => None | o => o end))) fs, rest).
Proof.
  intros H. eexists. split.
  - cbn [enc_col]. rewrite (collect_map _ VFont font_bytes) by reflexivity.
    cbn [rbind]. rewrite concat_map_flat_map. reflexivity.
  - cbn [dec_col]. rewrite N.eqb_refl.
    apply (prepeat_roundtrip_map (fun f => font_ok (dc_lim dc) f = true) font_bytes (fun f => VFont (norm_font f))); [|exact H].
    intros f r Hf. now apply font_item_roundtrip.
Qed.

Theorem norm_font_idempotent f : norm_font (norm_font f) = norm_font f.
Proof. destruct f as [fam w st [[|x s]|]]; reflexivity. Qed.

Theorem norm_font_id f : fo_cached f <> Some [] -> norm_font f = f.
Proof. destruct f as [fam w st [[|x s]|]]; intros H; try reflexivity. now elim H. Qed.

(* ------------------------------------------------------------------------------------------ *)
(* 7. Content                                                                                   *)
(* ------------------------------------------------------------------------------------------ *)
Definition content_ok (x : content) : bool :=
  match x with
  | CNone => true
  | CUri u => str_ok (dc_lim dc) u
  | CObject r => in_i32 (ref_id c r)
  end.
(* an object referent goes through the writer's referent numbering and the reader's resolution (as VRef does) *)
Definition content_back (x : content) : content :=
  match x with
  | CObject r => CObject (dc_resolve dc (ref_id c r))
  | x => x
  end.
Definition content_src (x : content) : Z := match x with CNone => 0%Z | CUri _ => 1%Z | CObject _ => 2%Z end.
Definition content_uris (cs : list content) : list bytes :=
  flat_map (fun x => match x with CUri u => [u] | _ => [] end) cs.
Definition content_objects (cs : list content) : list Z :=
  flat_map (fun x => match x with CObject r => [ref_id c r] | _ => [] end) cs.

Lemma pop_back_rev_cons {A} (u : A) us : pop_back (rev (u :: us)) = Some (u, rev us).
Proof. unfold pop_back. now rewrite rev_involutive. Qed.

Lemma content_values_roundtrip cs :
  content_values dc (List.map content_src cs) (rev (content_uris cs)) (content_objects cs)
  = Ok (List.map (fun x => VContent (content_back x)) cs).
Proof.
  induction cs as [|x cs IH]; [reflexivity|].
  destruct x as [|u|r]; cbn [List.map content_src content_values].
  - unfold content_uris, content_objects in *. cbn [flat_map app]. rewrite IH. reflexivity.
  - unfold content_uris, content_objects in *. cbn [flat_map app]. rewrite pop_back_rev_cons, IH. reflexivity.
  - unfold content_uris, content_objects in *. cbn [flat_map app pop_front]. rewrite IH. reflexivity.
Qed.

Lemma content_uris_length cs : (length (content_uris cs) <= length cs)%nat.
Proof.
  unfold content_uris. induction cs as [|x cs IH]; [cbn; lia|].
  cbn [flat_map]. rewrite app_length. destruct x; cbn [length]; lia.
Qed.
Lemma content_objects_length cs : (length (content_objects cs) <= length cs)%nat.
Proof.
  unfold content_objects. induction cs as [|x cs IH]; [cbn; lia|].
  cbn [flat_map]. rewrite app_length. destruct x; cbn [length]; lia.
Qed.

(* Content.  The reader ends the column with read_to_end: whatever follows the column in the chunk (the ignored
   "externals" referents and anything else) is consumed, so the remaining input is empty whatever [rest] was. *)
Theorem col_roundtrip_content (cs : list content) rest :
  N.of_nat (length cs) < 2 ^ 32 ->
  lim_ok (dc_lim dc) (24 * N.of_nat (length (content_uris cs))) = true ->
  lim_ok (dc_lim dc) (4 * N.of_nat (length (content_objects cs))) = true ->
  Forall (fun x => content_ok x = true) cs ->
  exists b, enc_col WContent c (List.map VContent cs) = Ok b /\
            dec_col WContent VT_Content dc (length cs) (b ++ rest)
            = Ok (List.map (fun x => VContent (content_back x)) cs, []).
Proof.
  intros Hlen Hlu Hlo H.
  exists (enc_i32_array (List.map content_src cs) ++
          w_le32 (BinValues.len32 (content_uris cs)) ++ flat_map w_bstr (content_uris cs) ++
          w_le32 (BinValues.len32 (content_objects cs)) ++ enc_ref_array (content_objects cs) ++ w_le32 0).
  split.
  - cbn [enc_col]. rewrite (collect_map _ VContent (fun z => z)) by reflexivity. cbn [rbind]. rewrite map_id. reflexivity.
  - pose proof (content_uris_length cs) as Lu. pose proof (content_objects_length cs) as Lo.
    assert (Hu32 : N.of_nat (length (content_uris cs)) < 2 ^ 32) by lia.
    assert (Ho32 : N.of_nat (length (content_objects cs)) < 2 ^ 32) by lia.
    cbn [dec_col]. rewrite N.eqb_refl.
    rewrite (len32_small _ Hu32), (len32_small _ Ho32). rewrite <- !app_assoc.
    (* source types *)
    erewrite pbind_ok_intro;
      [|rewrite <- (map_length content_src cs) at 1; apply i32_array_roundtrip;
        apply Forall_forall; intros v Hv; apply in_map_iff in Hv; destruct Hv as [x [<- _]]; destruct x; reflexivity].
    (* uris *)
    erewrite pbind_ok_intro; [|apply read_le32_app; exact Hu32].
    erewrite pbind_ok_intro; [|apply palloc_ok; exact Hlu].
    erewrite pbind_ok_intro;
      [|unfold pfor32; apply (AttrFacts.pfor_app _ w_bstr (str_ok (dc_lim dc)));
        [intros a r Ha; now apply read_str_app
        |intros a; pose proof (w_bstr_length a); lia
        |]].
    2:{ apply forallb_forall. intros u Hu. unfold content_uris in Hu. apply in_flat_map in Hu.
        destruct Hu as [x [Hin Hx]]. rewrite Forall_forall in H. specialize (H x Hin).
        destruct x as [|u'|r]; cbn in Hx; try contradiction. destruct Hx as [<-|[]]. exact H. }
    (* objects *)
    erewrite pbind_ok_intro; [|apply read_le32_app; exact Ho32].
    erewrite pbind_ok_intro; [|apply palloc_ok; exact Hlo].
    assert (Hro : Forall (fun v => in_i32 v = true) (content_objects cs)).
    { apply Forall_forall. intros v Hv. unfold content_objects in Hv. apply in_flat_map in Hv.
      destruct Hv as [x [Hin Hx]]. rewrite Forall_forall in H. specialize (H x Hin).
      destruct x as [|u'|r]; cbn in Hx; try contradiction. destruct Hx as [<-|[]]. exact H. }
    match goal with |- context [N.ltb ?a ?b] => destruct (N.ltb_spec a b) as [Hshort|_] end.
    { rewrite app_length, enc_ref_array_length in Hshort. lia. }
    rewrite Nnat.Nat2N.id.
    erewrite pbind_ok_intro; [|apply ref_array_roundtrip; exact Hro].
    rewrite (read_le32_app 0 rest) by reflexivity.
    rewrite palloc_ok by (change (4 * 0) with 0; apply lim_ok_0).
    rewrite content_values_roundtrip. reflexivity.
Qed.

End Columns3.

(* ------------------------------------------------------------------------------------------ *)
(* 8. witnesses: the hypotheses are satisfiable, the normalisations are real, the hypotheses are needed *)
(* ------------------------------------------------------------------------------------------ *)
Definition F32_NEG_ZERO : f32 := 0x80000000.
(* 1 + 2^-23 in the corner, a negative zero next to it: within f32::EPSILON of the identity, not the identity *)
Definition near_identity : mat3 :=
  m9 F32_ONE_PLUS_ULP F32_NEG_ZERO F32_ZERO  F32_ZERO F32_ONE F32_ZERO  F32_ZERO F32_ZERO F32_ONE.
Definition pos456 : vec3 := mkV3 f32_4 f32_5 f32_6.

(* norm_rot is not the identity function: the matrix above is snapped to the identity (id 2), and a negative zero
   entry of an otherwise exact basis is replaced by +0.0 *)
Example norm_rot_snaps : norm_rot near_identity = mat3_identity /\ near_identity <> mat3_identity.
Proof. split; [vm_compute; reflexivity|discriminate]. Qed.

(* and it leaves a matrix without id alone (0.5 * I: snap_scaled_repaired) *)
Example norm_rot_keeps : to_basic_rotation_id half_identity = None /\ norm_rot half_identity = half_identity.
Proof. split; vm_compute; reflexivity. Qed.

Example cframe_hyp_sat :
  Forall (fun cf => cframe_ok cf = true) [mkCF pos456 near_identity; mkCF pos456 half_identity].
Proof. repeat constructor. Qed.

Example cframe_example :
  enc_then_dec WCFrame VT_CFrame ectx0 ctx0 [VCFrame (mkCF pos456 near_identity); VCFrame (mkCF pos456 half_identity)]
  = Ok ([VCFrame (mkCF pos456 mat3_identity); VCFrame (mkCF pos456 half_identity)], []).
Proof. vm_compute. reflexivity. Qed.

Example optionalcframe_hyp_sat :
  Forall (fun o => ocf_ok o = true) [Some (mkCF pos456 near_identity); None; Some (mkCF pos456 half_identity)].
Proof. repeat constructor. Qed.

Example optionalcframe_example :
  enc_then_dec WOptionalCFrame VT_OptionalCFrame ectx0 ctx0
    [VOptionalCFrame (Some (mkCF pos456 near_identity)); VOptionalCFrame None; VOptionalCFrame (Some (mkCF pos456 half_identity))]
  = Ok ([VOptionalCFrame (Some (mkCF pos456 mat3_identity)); VOptionalCFrame None;
         VOptionalCFrame (Some (mkCF pos456 half_identity))], []).
Proof. vm_compute. reflexivity. Qed.

Example numbersequence_hyp_sat :
  Forall (fun kps => nseq_ok (dc_lim ctx0) kps = true) [[(f32_4, f32_5, f32_6); (0, F32_NEG_ZERO, 0x7FC00001)]; []].
Proof. repeat constructor. Qed.

Example colorsequence_hyp_sat :
  Forall (fun kps => cseq_ok (dc_lim ctx0) kps = true) [[(f32_4, (f32_5, f32_6, 0x7FC00001))]; []].
Proof. repeat constructor. Qed.

(* the allocation hypothesis is needed: with a limit of 11 bytes the reader refuses a single keypoint *)
Example numbersequence_limit_needed :
  match enc_col WNumberSequence ectx0 [VNumberSequence [(0, 0, 0)]] with
  | Ok b => dec_col WNumberSequence VT_NumberSequence (mkDC (fun _ => 0) [] (Some 11)) 1 b
  | _ => Ok ([], [])
  end = Err E_ALLOC.
Proof. vm_compute. reflexivity. Qed.

Definition ectx_ss : enc_ctx :=
  mkEC (fun _ => None) (fun s => match s with [97] => Some 1 | [98] => Some 0 | _ => None end) (fun _ => 0).
Definition dctx_ss : dec_ctx := mkDC (fun _ => 0) [[98]; [97]] None.

Example sharedstring_hyp_sat : Forall (fun s => sstr_ok ectx_ss dctx_ss s = true) [[97]; [98]; [97]].
Proof. repeat constructor. Qed.

Example sharedstring_example :
  enc_then_dec WSharedString VT_SharedString ectx_ss dctx_ss [VSharedString [97]; VSharedString [98]; VSharedString [97]]
  = Ok ([VSharedString [97]; VSharedString [98]; VSharedString [97]], []).
Proof. vm_compute. reflexivity. Qed.

Example font_hyp_sat :
  Forall (fun f => font_ok (dc_lim ctx0) f = true)
         [mkFont [97] 400 0 (Some []); mkFont [98] 700 1 (Some [99]); mkFont [] 100 0 None].
Proof. repeat constructor. Qed.

(* the UTF-8 hypothesis is needed in the model (rbx_types::Font holds Strings, so it always holds of a real value) *)
Example font_utf8_needed :
  enc_then_dec WFont VT_Font ectx0 ctx0 [VFont (mkFont [255] 400 0 None)] = Err E_UTF8.
Proof. vm_compute. reflexivity. Qed.

Example content_hyp_sat :
  Forall (fun x => content_ok ectx_id dctx_id x = true) [CObject 7; CUri [97]; CObject 9; CNone; CUri []].
Proof. repeat constructor. Qed.

(* FINDING (shape of the statement): for Content the uniform conclusion "… = Ok (values, rest)" is false: the
   reader's read_to_end consumes everything that follows the column *)
Example content_consumes_rest :
  match enc_col WContent ectx_id [VContent CNone] with
  | Ok b => dec_col WContent VT_Content dctx_id 1 (b ++ [7; 7])
  | _ => Ok ([], [7; 7])
  end = Ok ([VContent CNone], []).
Proof. vm_compute. reflexivity. Qed.

Print Assumptions norm_rot_idempotent.
Print Assumptions norm_rot_no_id.
Print Assumptions norm_rot_near.
Print Assumptions col_roundtrip_cframe.
Print Assumptions col_roundtrip_optionalcframe.
Print Assumptions col_roundtrip_numbersequence.
Print Assumptions col_roundtrip_colorsequence.
Print Assumptions col_roundtrip_sharedstring.
Print Assumptions col_roundtrip_sharedstring_same.
Print Assumptions col_sharedstring_uncollected_panics.
Print Assumptions col_roundtrip_font.
Print Assumptions col_roundtrip_content.

(* EXPORT (for Properties/C01.v; all are stated for every encoder context c and decoder context dc):
     norm_rot (definition), norm_rot_no_id, norm_rot_id, norm_rot_basis, norm_rot_idempotent, norm_rot_near
     col_roundtrip_cframe
     col_roundtrip_optionalcframe
     col_roundtrip_numbersequence          (hypothesis nseq_ok (dc_lim dc))
     col_roundtrip_colorsequence           (hypothesis cseq_ok (dc_lim dc))
     col_roundtrip_sharedstring, col_roundtrip_sharedstring_same, col_sharedstring_uncollected_panics
     col_roundtrip_font, norm_font_idempotent, norm_font_id
     col_roundtrip_content                 (remaining input [] instead of rest: content_consumes_rest)
   witnesses: norm_rot_snaps, norm_rot_keeps, cframe_example, optionalcframe_example, numbersequence_limit_needed,
     sharedstring_example, font_utf8_needed, content_consumes_rest *)
