(* CrossFormatFile.v — property C06 at the level of whole files: the DOM decoded from the binary encoding and the DOM decoded from
   the XML encoding of one source (dom, roots) are equivalent.  Composition of
     Proofs/BinRoundTrip.v   (binary whole-file theorems: labels = 1 + position in INST-chunk order, [lbl]),
     Proofs/XmlRoundTrip.v   (XML whole-file theorems:    labels = 1 + position in document order, [label]),
     Proofs/CrossFormat.v    (value level: [nan_equiv], [bin_back], [xml_back], [cross_scope]).
   Both families describe the decoded DOM relative to the SOURCE; the two descriptions are composed through the source.
     0. the two vocabularies: [written_refs]  written dom (map root ts) = flat_map refs ts; the XML input hypotheses from the binary ones
     1. K1  [lab_iso] / [dom_iso] / [forest_iso_core] / [forest_iso]: the isomorphism induced by the two labellings (any behaviours, any db)
     2. K2  [cross_core_gen] (generic in the labelling, both per-format value laws and the canonical-name function), [cross_core],
            [cross_format_doms_agree_generic] (binary: generic in the column law [R] + [bin_law]; XML: the plain pairing),
            [enc_cols_cover] (every explicitly set unknown property has a column: from the model),
            [cross_format_doms_agree] (closed: properties unknown to the database, simple types incl. Ref and SharedString);
            what is missing under reflection: the comment before [bin_law]
     3. non-vacuity: [Example.cross_format_example], [Example.cross_format_example_values]
     4. finding: [unknown_string_differs] (an unknown String property: BinaryString from the binary file, String from the XML file)
     5. K3  binary -> XML: [binary_then_xml_partial], [binary_then_xml_unknown_partial]; examples [Example3.*]
     6. K3  XML -> binary: [xml_then_binary_partial]; example [Example6.xml_then_binary_example]
     7. finding (outside the statement): [unset_property_differs]
   Standard library only; no axioms. *)
From Coq Require Import List Arith Lia Bool NArith ZArith Permutation Sorted.
From RbxVerif Require Import Base Bytes Value Utf8 Db CodecDom BinValues BinFile BytesFacts BaseFacts BinPostorder BinStructure
  BinValuesFacts BinValuesFacts2 BinValuesFacts3 BinColumnsFacts BinFileFacts BinChunkFacts BinFraming BinRoundTrip XmlEvents XmlValues XmlFile XmlStructure XmlCompound2 XmlRoundTrip CrossFormat.
Import ListNotations.
Open Scope list_scope.
Open Scope N_scope.

(* ================================================================ 0. the two vocabularies *)
(* the binary theorems speak of a forest [ts] of trees whose shapes are read off [children_of dom]; the XML theorems of the
   list [written dom roots] (document order = pre-order).  They are the same list. *)
Lemma refs_length : forall t, length (refs t) = BinPostorder.size t.
Proof.
  apply (tree_ind' (fun t => length (refs t) = BinPostorder.size t)). intros r cs IH. cbn [refs BinPostorder.size length]. f_equal.
  induction IH as [|c cs Hc _ IHcs]; [reflexivity|]. cbn [flat_map fold_right]. rewrite app_length, Hc, IHcs. reflexivity.
Qed.

Lemma subtree_refs dom : forall f t, agrees (children_of dom) t -> (BinPostorder.size t <= f)%nat -> subtree dom f (root t) = refs t.
Proof.
  induction f as [|f IH]; intros t Hag Hsz; [destruct t; cbn [BinPostorder.size] in Hsz; lia|].
  destruct t as [r cs]. apply agrees_unfold in Hag. destruct Hag as [Hk Hcs]. cbn [root subtree refs]. f_equal. rewrite Hk.
  cbn [BinPostorder.size] in Hsz. assert (Hle : (fold_right (fun c n => BinPostorder.size c + n) 0 cs <= f)%nat) by lia. clear Hsz Hk.
  induction cs as [|c cs IHcs]; [reflexivity|]. cbn [List.map flat_map fold_right] in *. inversion Hcs as [|? ? Hc Hcs']; subst.
  rewrite IH by (assumption || lia). rewrite IHcs by (assumption || lia). reflexivity.
Qed.

Lemma agrees_inner_in_dom dom : forall t, agrees (children_of dom) t -> incl (inner t) (List.map i_ref dom).
Proof.
  apply (tree_ind' (fun t => agrees (children_of dom) t -> incl (inner t) (List.map i_ref dom))). intros r cs IH Hag.
  apply agrees_unfold in Hag. destruct Hag as [Hk Hcs]. unfold inner. cbn [subs]. intros x Hx. apply in_flat_map in Hx.
  destruct Hx as (c & Hc & Hx). rewrite Forall_forall in IH, Hcs. rewrite refs_unfold in Hx. destruct Hx as [<-|Hx].
  - assert (Hin : In (root c) (children_of dom r)) by (rewrite Hk; now apply in_map).
    unfold children_of in Hin. apply in_map_iff in Hin. destruct Hin as (i & <- & Hi). apply filter_In in Hi. apply in_map. apply Hi.
  - exact (IH c Hc (Hcs c Hc) x Hx).
Qed.

Lemma agrees_size_le dom t : agrees (children_of dom) t -> NoDup (refs t) -> (BinPostorder.size t <= S (length dom))%nat.
Proof.
  intros Hag Hnd. rewrite <- refs_length, refs_unfold. cbn [length]. apply le_n_S. rewrite refs_unfold in Hnd.
  apply NoDup_cons_iff in Hnd. destruct Hnd as [_ Hnd]. rewrite <- (map_length i_ref dom).
  apply NoDup_incl_length; [exact Hnd|now apply agrees_inner_in_dom].
Qed.

Theorem written_refs dom ts :
  Forall (agrees (children_of dom)) ts -> NoDup (flat_map refs ts) -> written dom (List.map root ts) = flat_map refs ts.
Proof.
  unfold written. induction ts as [|t ts IH]; intros Hag Hnd; [reflexivity|]. inversion Hag as [|? ? Ht Hts]; subst.
  cbn [List.map flat_map] in *. destruct (nodup_app_inv _ _ Hnd) as (Hn1 & Hn2 & _).
  rewrite IH by assumption. f_equal. apply subtree_refs; [exact Ht|]. now apply agrees_size_le.
Qed.

(* the children of a written instance are written *)
Lemma children_written dom ts r c :
  Forall (agrees (children_of dom)) ts -> In r (flat_map refs ts) -> In c (children_of dom r) -> In c (flat_map refs ts).
Proof.
  intros Hag Hr Hc. apply in_flat_map in Hr. destruct Hr as (t & Ht & Hr). apply in_flat_map. exists t. split; [exact Ht|].
  rewrite Forall_forall in Hag. rewrite refs_unfold. right. exact (child_inner _ t (Hag t Ht) r c Hr Hc).
Qed.
Lemma roots_written ts : incl (List.map root ts) (flat_map refs ts).
Proof. intros x Hx. apply in_map_iff in Hx. destruct Hx as (t & <- & Ht). apply in_flat_map. exists t. split; [exact Ht|apply in_root_refs]. Qed.

(* the XML theorems' hypothesis on the input, from the binary theorems' *)
Lemma xml_input_ok0 dom ts : BinRoundTrip.input_ok dom ts -> input_ok0 dom (List.map root ts).
Proof.
  intros (Hnd & _ & Hag & Hndr & H0). unfold input_ok0. rewrite (written_refs dom ts Hag Hndr). repeat split; assumption.
Qed.

(* ================================================================ 1. K1: the isomorphism induced by the two labellings *)
(* [LB] labels the written instances in the binary-decoded DOM, [LX] in the XML-decoded DOM; 0 is the fresh root in both.  The
   induced correspondence of labels: root to root, the label of r to the label of r. *)
Definition lab_iso (LB LX : N -> N) (W : list N) (b x : N) : Prop :=
  (b = 0 /\ x = 0) \/ exists r, In r W /\ b = LB r /\ x = LX r.

(* [R] is an isomorphism of decoded DOMs: a bijection between the labels (0 :: referents), root to root, carrying the ordered
   child list of every node (hence root order, child order and the whole tree shape), the parent link, class and name *)
Definition dom_iso (R : N -> N -> Prop) (outB outX : cdom) : Prop :=
  R 0 0 /\
  NoDup (List.map i_ref outB) /\ NoDup (List.map i_ref outX) /\
  ~ In 0 (List.map i_ref outB) /\ ~ In 0 (List.map i_ref outX) /\
  (forall b, In b (List.map i_ref outB) -> exists x, In x (List.map i_ref outX) /\ R b x) /\
  (forall x, In x (List.map i_ref outX) -> exists b, In b (List.map i_ref outB) /\ R b x) /\
  (forall b x, R b x -> (b = 0 \/ In b (List.map i_ref outB)) /\ (x = 0 \/ In x (List.map i_ref outX))) /\
  (forall b x x', R b x -> R b x' -> x = x') /\
  (forall b b' x, R b x -> R b' x -> b = b') /\
  (forall b x, R b x -> Forall2 R (children_of outB b) (children_of outX x)) /\
  (forall b x iB iX, R b x -> find_inst outB b = Some iB -> find_inst outX x = Some iX ->
     i_class iB = i_class iX /\ i_name iB = i_name iX /\ R (i_parent iB) (i_parent iX)).

Lemma Forall2_map2 {A B C} (R : B -> C -> Prop) (f : A -> B) (g : A -> C) l :
  (forall a, In a l -> R (f a) (g a)) -> Forall2 R (List.map f l) (List.map g l).
Proof. induction l as [|a l IH]; intro H; cbn [List.map]; constructor; [apply H; now left|apply IH; intros; apply H; now right]. Qed.

Lemma Forall2_in_l {A B} (R : A -> B -> Prop) l l' a : Forall2 R l l' -> In a l -> exists b, In b l' /\ R a b.
Proof.
  induction 1 as [|x y l l' H _ IH]; intro Hin; [contradiction|]. destruct Hin as [<-|Hin].
  - exists y. split; [now left|exact H].
  - destruct (IH Hin) as (b & H1 & H2). exists b. split; [now right|exact H2].
Qed.

Lemma NoDup_map_inj {A B} (f : A -> B) l x y : NoDup (List.map f l) -> In x l -> In y l -> f x = f y -> x = y.
Proof.
  induction l as [|a l IH]; intros Hnd Hx Hy E; [contradiction|]. cbn [List.map] in Hnd. apply NoDup_cons_iff in Hnd.
  destruct Hnd as [Ha Hnd]. destruct Hx as [->|Hx], Hy as [->|Hy]; [reflexivity| | |now apply IH].
  - exfalso. apply Ha. rewrite E. now apply in_map.
  - exfalso. apply Ha. rewrite <- E. now apply in_map.
Qed.

Lemma find_inst_ref d r i : find_inst d r = Some i -> i_ref i = r /\ In i d.
Proof. intro H. destruct (find_inst_some _ _ _ H). auto. Qed.

Lemma label_inj W r r' : In r W -> In r' W -> label W r = label W r' -> r = r'.
Proof.
  intros H H' E. destruct (label_in W r H) as [_ H1]. destruct (label_in W r' H') as [_ H2]. rewrite E in H1. congruence.
Qed.

(* the parent of a decoded instance, from the child lists *)
Lemma in_children_parent d i : In i d -> In (i_ref i) (children_of d (i_parent i)).
Proof. intro H. unfold children_of. apply in_map. apply filter_In. split; [exact H|apply N.eqb_refl]. Qed.
Lemma children_parent d c p i : NoDup (List.map i_ref d) -> In c (children_of d p) -> find_inst d c = Some i -> i_parent i = p.
Proof.
  intros Hnd Hc Hf. unfold children_of in Hc. apply in_map_iff in Hc. destruct Hc as (j & Ej & Hj). apply filter_In in Hj.
  destruct Hj as [Hjd Hjp]. apply N.eqb_eq in Hjp. pose proof (find_inst_nodup d j Hnd Hjd) as Hfj. rewrite Ej, Hf in Hfj.
  injection Hfj as ->. exact Hjp.
Qed.

(* K1, core: whatever produced them, a DOM that is the binary theorems' [same_forest] of the source under the labelling LB
   (with class and name of every written instance) and a DOM that is the XML theorems' [forest_rel] of the same source are
   isomorphic under [lab_iso LB (label W) W]. *)
Theorem forest_iso_core dom ts (LB : N -> N) outB outX :
  BinRoundTrip.input_ok dom ts ->
  BinRoundTrip.same_forest dom ts LB outB ->
  (forall r, In r (flat_map refs ts) ->
     exists i', find_inst outB (LB r) = Some i' /\ i_ref i' = LB r /\ i_class i' = class_of dom r /\ i_name i' = i_name (src dom r)) ->
  forest_rel dom (List.map root ts) outX ->
  dom_iso (lab_iso LB (label (flat_map refs ts)) (flat_map refs ts)) outB outX.
Proof.
  intros (Hndd & _ & Hag & HndW & H0W) (HpB & HndB & HnzB & HrootsB & HkidsB & HnoneB & _) HinstB HX.
  unfold forest_rel in HX. cbv zeta in HX. rewrite (written_refs dom ts Hag HndW) in HX.
  set (W := flat_map refs ts) in *. set (LX := label W). destruct HX as (HbackX & HrefsX & HrootsX & HkidsX).
  assert (HmapX : List.map i_ref outX = List.map LX W).
  { clear - HbackX. induction HbackX as [|id i' l l' (i & _ & E & _) _ IH]; [reflexivity|]. cbn [List.map]. now rewrite E, IH. }
  assert (HnzX : forall r, In r W -> LX r <> 0) by (intros r Hr; destruct (label_in W r Hr) as [H _]; unfold LX; lia).
  assert (HinjX : forall r r', In r W -> In r' W -> LX r = LX r' -> r = r') by (intros r r'; apply label_inj).
  assert (HndLB : NoDup (List.map LB W)) by (eapply Permutation_NoDup; [exact HpB|exact HndB]).
  assert (HinjB : forall r r', In r W -> In r' W -> LB r = LB r' -> r = r') by (intros r r'; now apply NoDup_map_inj).
  assert (HndX : NoDup (List.map i_ref outX)).
  { rewrite HrefsX. clear. generalize 1. induction (length W) as [|n IH]; intro L; [constructor|]. cbn [XmlRoundTrip.nseq].
    constructor; [|apply IH]. intro H. apply in_nseq in H. lia. }
  assert (HinB : forall r, In r W -> In (LB r) (List.map i_ref outB)).
  { intros r Hr. eapply Permutation_in; [symmetry; exact HpB|]. now apply in_map. }
  assert (HinX : forall r, In r W -> In (LX r) (List.map i_ref outX)) by (intros r Hr; rewrite HmapX; now apply in_map).
  assert (HofB : forall b, In b (List.map i_ref outB) -> exists r, In r W /\ b = LB r).
  { intros b Hb. apply (Permutation_in _ HpB) in Hb. apply in_map_iff in Hb. destruct Hb as (r & <- & Hr). eauto. }
  assert (HofX : forall x, In x (List.map i_ref outX) -> exists r, In r W /\ x = LX r).
  { intros x Hx. rewrite HmapX in Hx. apply in_map_iff in Hx. destruct Hx as (r & <- & Hr). eauto. }
  assert (H0B : ~ In 0 (List.map i_ref outB)) by (intro H; destruct (HofB 0 H) as (r & Hr & E); now apply (HnzB r Hr)).
  assert (H0X : ~ In 0 (List.map i_ref outX)) by (intro H; destruct (HofX 0 H) as (r & Hr & E); now apply (HnzX r Hr)).
  (* the instance decoded from the XML file for the written instance r *)
  assert (HinstX : forall r, In r W -> exists i iX, find_inst dom r = Some i /\ find_inst outX (LX r) = Some iX /\
                     i_class iX = i_class i /\ i_name iX = i_name i /\
                     i_parent iX = (if existsb (N.eqb r) (List.map root ts) then 0 else LX (i_parent i))).
  { intros r Hr. destruct (Forall2_in_l _ _ _ r HbackX Hr) as (iX & HiX & G).
    destruct G as (i & Hf & E1 & E2 & E3 & E4). exists i, iX. split; [exact Hf|]. split; [|auto].
    fold LX in E1. rewrite <- E1. now apply find_inst_nodup. }
  set (R := lab_iso LB LX W).
  assert (Rlab : forall r, In r W -> R (LB r) (LX r)) by (intros r Hr; right; exists r; auto).
  assert (R00 : R 0 0) by (left; auto).
  assert (Rfun : forall b x x', R b x -> R b x' -> x = x').
  { intros b x x' [[-> ->]|(r & Hr & -> & ->)] [[E ->]|(r' & Hr' & E & ->)]; try reflexivity.
    - exfalso. symmetry in E. now apply (HnzB r' Hr').
    - exfalso. now apply (HnzB r Hr).
    - now rewrite (HinjB r r' Hr Hr' E). }
  assert (Rinj : forall b b' x, R b x -> R b' x -> b = b').
  { intros b b' x [[-> ->]|(r & Hr & -> & ->)] [[-> E]|(r' & Hr' & -> & E)]; try reflexivity.
    - exfalso. symmetry in E. now apply (HnzX r' Hr').
    - exfalso. now apply (HnzX r Hr).
    - now rewrite (HinjX r r' Hr Hr' E). }
  unfold dom_iso. fold R.
  split; [exact R00|]. split; [exact HndB|]. split; [exact HndX|]. split; [exact H0B|]. split; [exact H0X|].
  split; [|split; [|split; [|split; [exact Rfun|split; [exact Rinj|split]]]]].
  - intros b Hb. destruct (HofB b Hb) as (r & Hr & ->). exists (LX r). split; [now apply HinX|now apply Rlab].
  - intros x Hx. destruct (HofX x Hx) as (r & Hr & ->). exists (LB r). split; [now apply HinB|now apply Rlab].
  - intros b x [[-> ->]|(r & Hr & -> & ->)]; [split; now left|]. split; right; [now apply HinB|now apply HinX].
  - intros b x [[-> ->]|(r & Hr & -> & ->)].
    + rewrite HrootsB, HrootsX. apply Forall2_map2. intros r Hr. apply Rlab. now apply roots_written.
    + rewrite (HkidsB r Hr). unfold LX at 1. rewrite (HkidsX r Hr). fold LX. apply Forall2_map2. intros c Hc. apply Rlab. exact (children_written dom ts r c Hag Hr Hc).
  - intros b x iB iX HR HfB HfX.
    destruct HR as [[-> ->]|(r & Hr & -> & ->)].
    { exfalso. apply H0B. destruct (find_inst_ref _ _ _ HfB) as [E Hi]. rewrite <- E. now apply in_map. }
    destruct (HinstB r Hr) as (iB' & HfB' & _ & Hc & Hn). rewrite HfB in HfB'. injection HfB' as <-.
    destruct (HinstX r Hr) as (i & iX' & Hf & HfX' & Hcx & Hnx & Hpx). rewrite HfX in HfX'. injection HfX' as <-.
    unfold class_of in Hc. unfold src in Hn. rewrite Hf in Hc, Hn.
    split; [congruence|]. split; [congruence|].
    (* the parent: read off the child lists *)
    destruct (find_inst_ref _ _ _ HfB) as [EB HiB].
    pose proof (in_children_parent outB iB HiB) as HchB. rewrite EB in HchB.
    destruct (existsb (N.eqb r) (List.map root ts)) eqn:Ex.
    + (* a chosen root: hangs under the fresh root on both sides *)
      rewrite Hpx. apply existsb_exists in Ex. destruct Ex as (r0 & Hr0 & E0). apply N.eqb_eq in E0. subst r0.
      assert (HinR : In (LB r) (children_of outB 0)) by (rewrite HrootsB; now apply in_map).
      rewrite (children_parent outB (LB r) 0 iB HndB HinR HfB). exact R00.
    + (* not a root: its source parent q is written and r is one of q's children *)
      assert (Hq : In (i_parent i) W /\ In r (children_of dom (i_parent i))).
      { split; [|now apply parent_child].
        assert (Hnr : ~ In r (List.map root ts)).
        { intro Hin. assert (existsb (N.eqb r) (List.map root ts) = true); [|congruence].
          apply existsb_exists. exists r. split; [exact Hin|apply N.eqb_refl]. }
        (* r is in some tree t, not as its root: it is a child of a node of t *)
        unfold W in Hr. apply in_flat_map in Hr. destruct Hr as (t & Ht & Hr).
        destruct (refs_nsubtrees t r Hr) as (t' & Ht' & Er).
        assert (G : forall t0, agrees (children_of dom) t0 -> forall t1, In t1 (nsubtrees t0) -> t1 = t0 \/
                      exists q, In q (refs t0) /\ In (root t1) (children_of dom q)).
        { apply (tree_ind' (fun t0 => agrees (children_of dom) t0 -> forall t1, In t1 (nsubtrees t0) -> t1 = t0 \/
                      exists q, In q (refs t0) /\ In (root t1) (children_of dom q))).
          intros q cs IH Hagq t1 Ht1. cbn [nsubtrees] in Ht1. destruct Ht1 as [<-|Ht1]; [now left|]. right.
          apply agrees_unfold in Hagq. destruct Hagq as [Hk Hcs]. apply in_flat_map in Ht1. destruct Ht1 as (c & Hc' & Ht1).
          rewrite Forall_forall in IH, Hcs. destruct (IH c Hc' (Hcs c Hc') t1 Ht1) as [->|(q' & Hq' & Hch)].
          - exists q. split; [now left|]. rewrite Hk. now apply in_map.
          - exists q'. split; [|exact Hch]. cbn [refs]. right. apply in_flat_map. eauto. }
        rewrite Forall_forall in Hag. destruct (G t (Hag t Ht) t' Ht') as [->|(q & Hq & Hch)].
        - exfalso. apply Hnr. rewrite <- Er. now apply in_map.
        - rewrite Er in Hch. unfold children_of in Hch. apply in_map_iff in Hch. destruct Hch as (j & Ej & Hj).
          apply filter_In in Hj. destruct Hj as [Hjd Hjp]. apply N.eqb_eq in Hjp.
          pose proof (find_inst_nodup dom j Hndd Hjd) as Hfj. rewrite Ej, Hf in Hfj. injection Hfj as <-.
          rewrite Hjp. unfold W. apply in_flat_map. eauto. }
      destruct Hq as [HqW Hrq]. rewrite Hpx.
      assert (HinK : In (LB r) (children_of outB (LB (i_parent i)))) by (rewrite (HkidsB _ HqW); now apply in_map).
      rewrite (children_parent outB (LB r) _ iB HndB HinK HfB). now apply Rlab.
Qed.

(* K1 for the files: ANY pair of XML behaviours and ANY database, given what the XML reader does with the elements the writer
   writes ([dec_law], as in xml_roundtrip_forest_generic), and a binary reader that accepts the PROP chunks (as in
   file_tree_roundtrip_names).  The two decoded DOMs have identical tree shape, root order, child order, class names and names
   under the isomorphism induced by the two labellings. *)
Theorem forest_iso d ep cmp dom ts b p st e ebeh dbeh (D : dout) evs revs :
  BinRoundTrip.input_ok dom ts -> names_ok dom ->
  encode_file d ep cmp dom (List.map root ts) = Ok b ->
  add_instances d ep dom (List.map root ts) = Ok st ->
  dp_lim p = None -> ser_names_ok st -> name_cols_ok st ->
  (forall e0, encode_chunks d ep dom (List.map root ts) = Ok e0 ->
     frame_ok p cmp e0 /\ exists st1, run_chunks d p dstate0 (removelast (en_chunks e0)) = Ok st1) ->
  hash_bytes e -> readable e ebeh dom (List.map root ts) -> dec_law e ebeh dbeh D dom (List.map root ts) ->
  xml_encode e ebeh dom (List.map root ts) = Ok evs -> channel evs = Ok revs ->
  exists outB outX,
    decode_file d p b = Ok outB /\ xml_decode e dbeh revs = Ok outX /\
    dom_iso (lab_iso (lbl st) (label (flat_map refs ts)) (flat_map refs ts)) outB outX.
Proof.
  intros Hin Hnames Hf Hst Hlim Hser Hncol Hs Hhb Hrd Hdl He Hc.
  destruct (file_tree_roundtrip_names d ep cmp dom ts b p st Hin Hnames Hf Hst Hlim Hser Hncol Hs) as (outB & HdB & HfB & HiB).
  destruct (xml_roundtrip_forest_generic e ebeh dbeh D dom _ evs revs (xml_input_ok0 dom ts Hin) Hhb Hrd Hdl He Hc) as (outX & HdX & HfX).
  exists outB, outX. split; [exact HdB|]. split; [exact HdX|]. exact (forest_iso_core dom ts (lbl st) outB outX Hin HfB HiB HfX).
Qed.
Print Assumptions forest_iso.

(* ================================================================ 2. K2: the explicitly set properties *)
(* ---------------------------------------------------------------- 2a. the vocabulary *)
(* the values compared: a Ref (compared through the isomorphism), a SharedString (compared by content), or a value in
   CrossFormat.cross_scope (no decoder limit: dp_lim p = None throughout BinRoundTrip) *)
Definition dom_scope (v : value) : bool :=
  match v with VRef _ | VSharedString _ => true | _ => cross_scope None v end.

(* how the two decoded values of the source value [v] compare: Refs point at corresponding instances (labels related by the
   isomorphism [R]); everything else is [nan_equiv] (in particular SharedStrings have equal content) *)
Definition val_agree (R : N -> N -> Prop) (v vb vx : value) : Prop :=
  match v with
  | VRef _ => exists b x, vb = VRef b /\ vx = VRef x /\ R b x
  | _ => nan_equiv vb vx
  end.

(* the per-format laws, at the level of one value: what the source value [v] is read back as *)
Definition bin_vback (st : ser_state) (v vb : value) : Prop :=
  match v with
  | VRef r => vb = VRef (ref_new st r)
  | VSharedString s => vb = VSharedString s
  | _ => exists c dc, dc_lim dc = None /\ bin_back c dc v vb
  end.
Definition xml_vback (o : xoracle) (W : list N) (v vx : value) : Prop :=
  match v with
  | VRef r => vx = VRef (label W r)
  | VSharedString s => vx = VSharedString s
  | _ => xml_back o v vx
  end.

(* XmlRoundTrip's [vback] is [xml_vback] *)
Lemma vback_xml_vback e W v vx : vback e W v vx -> xml_vback (xe_o e) W v vx.
Proof.
  destruct v; cbn [vback xml_vback]; try (intro H; exact H);
    intros [(tag & evs & Hw) Hl]; exists tag, evs; (split; [exact Hw|]); intro name; exact (Hl tag evs Hw name).
Qed.

(* the value-level step: CrossFormat.cross_format_values_agree, and the two renamings of a Ref *)
Lemma cross_value o st W v vb vx :
  xml_oracle_ok o -> (forall r, In r (ss_relevant st) <-> In r W) -> dom_scope v = true ->
  bin_vback st v vb -> xml_vback o W v vx -> val_agree (lab_iso (lbl st) (label W) W) v vb vx.
Proof.
  intros Ho Hrel Hs Hb Hx.
  destruct v; cbn [dom_scope bin_vback xml_vback val_agree] in *;
    try (destruct Hb as (ec0 & dc0 & Hl & Hb); refine (cross_format_values_agree ec0 dc0 o _ Ho _ vb vx Hb Hx); rewrite Hl; exact Hs).
  - (* Ref *) match type of Hx with _ = VRef (label W ?r0) => rename r0 into n end. subst vb vx. do 2 eexists. split; [reflexivity|]. split; [reflexivity|]. unfold ref_new.
    destruct (existsb (N.eqb n) (ss_relevant st)) eqn:E.
    + right. exists n. split; [|auto]. apply Hrel. now apply existsb_eqb_In.
    + left. split; [reflexivity|]. apply label_notin. intro Hin. apply Hrel in Hin. apply existsb_eqb_In in Hin. congruence.
  - (* SharedString *) subst vb vx. reflexivity.
Qed.

(* the explicitly set properties of one source instance, in the two decoded instances: every property that was explicitly set
   (and is in scope) is held by both under the same canonical name [cn k], with agreeing values — or the binary reader has
   regenerated the UniqueId (a whole-file rule of the binary reader: a UniqueId already in use is replaced, [uid_norm]) *)
Definition props_agree (sc : value -> bool) (R : N -> N -> Prop) (fresh : value) (cn : bytes -> bytes)
                       (ps psB psX : list (bytes * value)) : Prop :=
  forall k v, bfind k ps = Some v -> sc v = true ->
    exists vb vx, bfind (cn k) psB = Some vb /\ bfind (cn k) psX = Some vx /\
                  (val_agree R v vb vx \/ (cn k = UNIQUE_ID /\ vb = fresh)).

(* the two decoded DOMs are equivalent: isomorphic forests, and every written instance's explicitly set properties agree *)
Definition doms_agree (sc : value -> bool) (LB LX : N -> N) (W : list N) (fresh : value) (cn : inst -> bytes -> bytes)
                      (dom outB outX : cdom) : Prop :=
  dom_iso (lab_iso LB LX W) outB outX /\
  forall r i, In r W -> find_inst dom r = Some i ->
    exists iB iX, find_inst outB (LB r) = Some iB /\ find_inst outX (LX r) = Some iX /\
      i_class iB = i_class i /\ i_class iX = i_class i /\ i_name iB = i_name i /\ i_name iX = i_name i /\
      props_agree sc (lab_iso LB LX W) fresh (cn i) (i_props i) (i_props iB) (i_props iX).

(* ---------------------------------------------------------------- 2b. K2, generic in BOTH per-format laws *)
(* what a format's whole-file theorem has to provide for K2: the decoded instance of every written instance holds every
   explicitly set, in-scope property under the canonical name, with the value the per-value law [back] describes (for the binary
   side: or the regenerated UniqueId) *)
Definition side_law (sc : value -> bool) (L : N -> N) (W : list N) (cn : inst -> bytes -> bytes) (back : value -> value -> Prop)
                    (alt : bytes -> value -> Prop) (dom out : cdom) : Prop :=
  forall r i, In r W -> find_inst dom r = Some i ->
    exists i', find_inst out (L r) = Some i' /\
      forall k v, bfind k (i_props i) = Some v -> sc v = true ->
        exists v', bfind (cn i k) (i_props i') = Some v' /\ (back v v' \/ alt (cn i k) v').

(* fully generic: ANY labelling LB of the binary-decoded DOM, ANY pair of per-value read-back relations whose results agree
   ([Hval]: for the plain pairing this is [cross_value]; under reflection it would be cross_format_values_agree_typed with the
   XML reader's conversion), ANY canonical-name function [cn] *)
Theorem cross_core_gen (sc : value -> bool) (LB : N -> N) dom ts fresh (cn : inst -> bytes -> bytes)
                       (backB backX : value -> value -> Prop) outB outX :
  (forall v vb vx, sc v = true -> backB v vb -> backX v vx ->
     val_agree (lab_iso LB (label (flat_map refs ts)) (flat_map refs ts)) v vb vx) ->
  BinRoundTrip.input_ok dom ts ->
  BinRoundTrip.same_forest dom ts LB outB ->
  (forall r, In r (flat_map refs ts) ->
     exists i', find_inst outB (LB r) = Some i' /\ i_ref i' = LB r /\ i_class i' = class_of dom r /\ i_name i' = i_name (src dom r)) ->
  forest_rel dom (List.map root ts) outX ->
  side_law sc LB (flat_map refs ts) cn backB (fun k v' => k = UNIQUE_ID /\ v' = fresh) dom outB ->
  side_law sc (label (flat_map refs ts)) (flat_map refs ts) cn backX (fun _ _ => False) dom outX ->
  doms_agree sc LB (label (flat_map refs ts)) (flat_map refs ts) fresh cn dom outB outX.
Proof.
  intros Hval Hin HfB HiB HfX HB HX. set (W := flat_map refs ts) in *.
  pose proof (forest_iso_core dom ts LB outB outX Hin HfB HiB HfX) as Hiso. fold W in Hiso.
  split; [exact Hiso|]. intros r i Hr Hf.
  destruct (HB r i Hr Hf) as (iB & HfiB & HpB). destruct (HX r i Hr Hf) as (iX & HfiX & HpX).
  destruct (HiB r Hr) as (iB' & E & _ & Hc & Hn). rewrite HfiB in E. injection E as <-.
  unfold class_of in Hc. unfold src in Hn. rewrite Hf in Hc, Hn.
  destruct Hiso as (_ & _ & _ & _ & _ & _ & _ & _ & _ & _ & _ & Hcn).
  destruct (Hcn (LB r) (label W r) iB iX) as (Ec & En & _); [right; exists r; auto|exact HfiB|exact HfiX|].
  exists iB, iX. split; [exact HfiB|]. split; [exact HfiX|]. split; [exact Hc|]. split; [congruence|]. split; [exact Hn|].
  split; [congruence|].
  intros k v Hk Hs. destruct (HpB k v Hk Hs) as (vb & Hvb & Hb). destruct (HpX k v Hk Hs) as (vx & Hvx & [Hx|[]]).
  exists vb, vx. split; [exact Hvb|]. split; [exact Hvx|]. destruct Hb as [Hb|Hb]; [left|now right].
  exact (Hval v vb vx Hs Hb Hx).
Qed.
Print Assumptions cross_core_gen.

(* the instance for the untyped value laws of CrossFormat ([bin_back] / [xml_back]) and BinRoundTrip's labelling *)
Theorem cross_core (sc : value -> bool) o st dom ts fresh (cn : inst -> bytes -> bytes) outB outX :
  (forall v, sc v = true -> dom_scope v = true) ->
  xml_oracle_ok o ->
  (forall r, In r (ss_relevant st) <-> In r (flat_map refs ts)) ->
  BinRoundTrip.input_ok dom ts ->
  BinRoundTrip.same_forest dom ts (lbl st) outB ->
  (forall r, In r (flat_map refs ts) ->
     exists i', find_inst outB (lbl st r) = Some i' /\ i_ref i' = lbl st r /\ i_class i' = class_of dom r /\ i_name i' = i_name (src dom r)) ->
  forest_rel dom (List.map root ts) outX ->
  side_law sc (lbl st) (flat_map refs ts) cn (bin_vback st) (fun k v' => k = UNIQUE_ID /\ v' = fresh) dom outB ->
  side_law sc (label (flat_map refs ts)) (flat_map refs ts) cn (xml_vback o (flat_map refs ts)) (fun _ _ => False) dom outX ->
  doms_agree sc (lbl st) (label (flat_map refs ts)) (flat_map refs ts) fresh cn dom outB outX.
Proof.
  intros Hsc Ho Hrel. apply cross_core_gen. intros v vb vx Hs Hb Hx.
  exact (cross_value o st (flat_map refs ts) v vb vx Ho Hrel (Hsc v Hs) Hb Hx).
Qed.
Print Assumptions cross_core.

(* ---------------------------------------------------------------- 2c. K2 for the files: binary generic in the column law, XML plain *)
(* XmlRoundTrip.input_ok's clause on property keys (a HashMap has each key once; `Name` is not a property), for the written
   instances *)
Definition props_ok (dom : cdom) (ts : list tree) : Prop :=
  forall r i, In r (flat_map refs ts) -> find_inst dom r = Some i ->
    NoDup (List.map fst (i_props i)) /\ ~ In (B "Name") (List.map fst (i_props i)).

Lemma xml_input_ok dom ts : BinRoundTrip.input_ok dom ts -> props_ok dom ts -> XmlRoundTrip.input_ok dom (List.map root ts).
Proof.
  intros Hin Hp. destruct (xml_input_ok0 dom ts Hin) as (H1 & H2 & H3). destruct Hin as (_ & _ & Hag & Hnd & _).
  split; [exact H1|]. split; [exact H2|]. split; [exact H3|]. rewrite (written_refs dom ts Hag Hnd). exact Hp.
Qed.

(* WHAT IS MISSING FOR DATABASE-KNOWN PROPERTIES UNDER REFLECTION (Job H's territory), exactly:
   (1) binary side: an instance of [bin_law] with cn i k = the canonical name find_canonical_property gives the column of k.
       It needs, per class table entry, (a) the column that carries k when the writer merges spellings (pi_aliases /
       pi_migration; prop_value picks one spelling per instance), (b) the per-type column law with the DECLARED type as cty
       (BinValuesFacts*: col_roundtrip_*; CrossFormat section 6 for a value under a descriptor of another type), (c) the effect
       of migrations in read_props (CrossFormat.cross_props / bin_items handle the list-to-map step);
   (2) XML side: XmlRoundTrip proves only A1 (the forest: xml_roundtrip_forest_reflection) under reflection; a [side_law] for
       the reflecting reader ([reflD]: stored under the canonical / migration-target name, value = try_convert of what
       read_value_xml returns, i.e. CrossFormat.xml_back_typed) is not available — xml_roundtrip has A2/A3 for the plain
       pairing only;
   (3) value level: CrossFormat.cross_format_values_agree_typed ([xml_back_typed], scope cross_scope_typed) in place of
       cross_format_values_agree; names: CrossFormat.cross_names (both lookups give the same canonical name and migration).
   [cross_core_gen] above is generic in all three (labelling, the two per-value relations with their agreement [Hval], and
   [cn]): supplying (1)-(3) as its two [side_law] premises and [Hval] yields [doms_agree] for database-known properties with
   no further work on the forest. *)
(* THE LAW TO BE PLUGGED IN on the binary side (for database-known properties under reflection: Job H): what the column-wise
   property list [read_props] of file_values_roundtrip holds, after [collect_props], for an explicitly set in-scope property
   of the k-th instance of a class: the canonical name [cn i k] and a value described by [bin_vback]. *)
Definition bin_law (sc : value -> bool) (p : dec_params) (dom : cdom) (st : ser_state) (R : column -> col_read)
                   (cn : inst -> bytes -> bytes) : Prop :=
  forall c ti kidx r i, In (c, ti) (ss_types st) -> nth_error (ti_instances ti) kidx = Some r -> find_inst dom r = Some i ->
    forall k v, bfind k (i_props i) = Some v -> sc v = true ->
      exists vb, bfind (cn i k) (collect_props (read_props p R (c, ti) kidx)) = Some vb /\ bin_vback st v vb.

Lemma nodup_nseq n : forall L, NoDup (XmlRoundTrip.nseq L n).
Proof. induction n as [|n IH]; intro L; [constructor|]. cbn [XmlRoundTrip.nseq]. constructor; [|apply IH]. intro H. apply in_nseq in H. lia. Qed.

Lemma relevant_written d ep dom ts st : BinRoundTrip.input_ok dom ts -> add_instances d ep dom (List.map root ts) = Ok st ->
  forall r, In r (ss_relevant st) <-> In r (flat_map refs ts).
Proof.
  intros (_ & _ & Hag & Hnd & _) Hst r. destruct (enc_relevant_postorder _ _ _ _ _ Hag Hnd Hst) as [Hrel _]. rewrite Hrel. split; intro H.
  - eapply Permutation_in; [apply post_perm_refs_forest|exact H].
  - eapply Permutation_in; [symmetry; apply post_perm_refs_forest|exact H].
Qed.

(* the conclusion of file_values_roundtrip + the law = the binary side of cross_core *)
Lemma bin_side sc d ep dom ts p st R cn outB :
  BinRoundTrip.input_ok dom ts -> add_instances d ep dom (List.map root ts) = Ok st ->
  (forall c ti k r, In (c, ti) (ss_types st) -> nth_error (ti_instances ti) k = Some r ->
     exists i', find_inst outB (lbl st r) = Some i' /\ i_ref i' = lbl st r /\ i_class i' = class_of dom r /\
                i_name i' = i_name (src dom r) /\ uid_norm p (collect_props (read_props p R (c, ti) k)) (i_props i')) ->
  bin_law sc p dom st R cn ->
  (forall r, In r (flat_map refs ts) ->
     exists i', find_inst outB (lbl st r) = Some i' /\ i_ref i' = lbl st r /\ i_class i' = class_of dom r /\ i_name i' = i_name (src dom r)) /\
  side_law sc (lbl st) (flat_map refs ts) cn (bin_vback st) (fun k v' => k = UNIQUE_ID /\ v' = dp_fresh_uid p) dom outB.
Proof.
  intros Hin Hst Hinst Hlaw. pose proof (relevant_written d ep dom ts st Hin Hst) as Hrel.
  destruct (enc_class_ids _ _ _ _ _ Hst) as (_ & _ & _ & _ & _ & Hall & Hcov & _).
  assert (Hpos : forall r, In r (flat_map refs ts) -> exists c ti k, In (c, ti) (ss_types st) /\ nth_error (ti_instances ti) k = Some r).
  { intros r Hr. apply Hrel in Hr. destruct (Hcov r Hr) as (ti & Hct). exists (class_of dom r), ti.
    destruct (Hall _ _ Hct) as (Hfil & _ & _).
    assert (Hi : In r (ti_instances ti)) by (rewrite Hfil; apply filter_In; split; [exact Hr|unfold of_class; apply bytes_eqb_refl]).
    apply In_nth_error in Hi. destruct Hi as [k Hk]. exists k. auto. }
  split.
  - intros r Hr. destruct (Hpos r Hr) as (c & ti & k & Hct & Hk). destruct (Hinst c ti k r Hct Hk) as (i' & H1 & H2 & H3 & H4 & _). eauto.
  - intros r i Hr Hf. destruct (Hpos r Hr) as (c & ti & kidx & Hct & Hk). destruct (Hinst c ti kidx r Hct Hk) as (iB & H1 & _ & _ & _ & Hu).
    exists iB. split; [exact H1|]. intros k v Hkv Hs. destruct (Hlaw c ti kidx r i Hct Hk Hf k v Hkv Hs) as (vb & Hvb & Hb).
    destruct Hu as [->|(a & b0 & c0 & _ & ->)]; [exists vb; auto|].
    rewrite bfind_bupd. destruct (bytes_eqb (cn i k) UNIQUE_ID) eqn:E.
    + exists (dp_fresh_uid p). split; [reflexivity|]. right. split; [now apply beqb_eq|reflexivity].
    + exists vb. auto.
Qed.

(* the conclusion of xml_roundtrip = the XML side of cross_core *)
Lemma xml_side sc e dom roots outX :
  XmlRoundTrip.same_forest e dom roots outX ->
  side_law sc (label (written dom roots)) (written dom roots) (fun _ k => k) (xml_vback (xe_o e) (written dom roots)) (fun _ _ => False) dom outX.
Proof.
  unfold XmlRoundTrip.same_forest. cbv zeta. intros [HF Hl] r i Hr Hf.
  assert (Hnd : NoDup (List.map i_ref outX)) by (rewrite Hl; apply nodup_nseq).
  destruct (Forall2_in_l _ _ _ r HF Hr) as (iX & HiX & i0 & Hf0 & E1 & _ & _ & _ & _ & Hk).
  rewrite Hf in Hf0. injection Hf0 as <-. exists iX. split; [rewrite <- E1; now apply find_inst_nodup|].
  intros k v Hkv _. specialize (Hk k). rewrite Hkv in Hk. destruct (bfind k (i_props iX)) as [vx|]; [|contradiction].
  exists vx. split; [reflexivity|]. left. now apply vback_xml_vback.
Qed.

(* K2.  Hypotheses: the union of those of BinRoundTrip.file_values_roundtrip (generic in the column law [R]), of
   XmlRoundTrip.xml_roundtrip (the plain pairing: no reflection, or WriteUnknown/ReadUnknown over properties the database does
   not know) and of CrossFormat.cross_format_values_agree, stated once; plus [bin_law], the description of what the columns
   hold for the explicitly set properties, which is what remains to be supplied for a given class of DOMs (below: properties
   unknown to the database). *)
Theorem cross_format_doms_agree_generic (sc : value -> bool) d ep cmp dom ts b p st (R : column -> col_read) e ebeh dbeh evs revs :
  (forall v, sc v = true -> dom_scope v = true) ->
  BinRoundTrip.input_ok dom ts -> props_ok dom ts -> names_ok dom ->
  encode_file d ep cmp dom (List.map root ts) = Ok b ->
  add_instances d ep dom (List.map root ts) = Ok st ->
  dp_lim p = None ->
  (forall e0, encode_chunks d ep dom (List.map root ts) = Ok e0 -> frame_ok p cmp e0) ->
  BinRoundTrip.sstr_ok st -> ser_names_ok st -> name_cols_ok st ->
  (forall x, In x (cols (ss_types st)) -> fst (snd x) <> NAME -> col_law d ep p dom st (stI_of st) x (R x)) ->
  bin_law sc p dom st R (fun _ k => k) ->
  plain_mode e ebeh dbeh dom (List.map root ts) -> hash_ok e -> readable_dom e dom (List.map root ts) ->
  xml_oracle_ok (xe_o e) ->
  xml_encode e ebeh dom (List.map root ts) = Ok evs -> channel evs = Ok revs ->
  exists outB outX,
    decode_file d p b = Ok outB /\ xml_decode e dbeh revs = Ok outX /\
    doms_agree sc (lbl st) (label (flat_map refs ts)) (flat_map refs ts) (dp_fresh_uid p) (fun _ k => k) dom outB outX.
Proof.
  intros Hsc Hin Hpo Hnames Hf Hst Hlim Hfr Hss Hser Hncol Hcl Hbl Hpm Hh Hrd Ho He Hc.
  destruct (file_values_roundtrip d ep cmp dom ts b p st R Hin Hnames Hf Hst Hlim Hfr Hss Hser Hncol Hcl) as (outB & HdB & HfB & HiB).
  pose proof (xml_input_ok dom ts Hin Hpo) as HinX.
  destruct (xml_roundtrip e ebeh dbeh dom _ evs revs HinX Hpm Hh Hrd He Hc) as (outX & HdX & HsX).
  destruct (xml_roundtrip_forest e ebeh dbeh dom _ evs revs HinX Hpm (hash_ok_bytes e Hh) Hrd He Hc) as (outX' & HdX' & HfX).
  rewrite HdX in HdX'. injection HdX' as <-.
  exists outB, outX. split; [exact HdB|]. split; [exact HdX|].
  destruct (bin_side sc d ep dom ts p st R (fun _ k => k) outB Hin Hst HiB Hbl) as [HiB' HsB].
  pose proof (xml_side sc e dom _ outX HsX) as HsX'.
  destruct Hin as (H1 & H2 & Hag & Hnd & H0). rewrite (written_refs dom ts Hag Hnd) in HsX'.
  apply (cross_core sc (xe_o e) st dom ts (dp_fresh_uid p) (fun _ k => k) outB outX Hsc Ho); try assumption.
  - apply (relevant_written d ep dom ts st); [repeat split; assumption|exact Hst].
  - repeat split; assumption.
Qed.
Print Assumptions cross_format_doms_agree_generic.

(* ---------------------------------------------------------------- 2d. K2 closed: properties unknown to the database, simple types *)
(* FINDING (scope).  For a property the database does not know the binary reader has only the wire type to go by and files the
   value under Type::to_default_rbx_type: everything that travels as a String column (String, ContentId) comes back as a
   BinaryString, whereas the XML reader returns what the element's tag says.  Such values are therefore NOT compared
   ([unknown_string_differs] below shows the two decoded values are not nan_equiv); every other value in scope is. *)
Definition unknown_scope (v : value) : bool :=
  match v with VString _ | VContentId _ => false | _ => dom_scope v end.
Lemma unknown_scope_dom v : unknown_scope v = true -> dom_scope v = true.
Proof. destruct v; cbn [unknown_scope]; intro H; try exact H; discriminate H. Qed.

(* the columns with an exact law: BinRoundTrip.simple_col, and SharedString columns over the writer's table *)
Inductive simple_col2 (st : ser_state) : wire_type -> list value -> Prop :=
| sc2_simple ty vs : simple_col ty vs -> simple_col2 st ty vs
| sc2_shared ss : Forall (fun s => In s (ss_sstr st)) ss -> simple_col2 st WSharedString (List.map VSharedString ss).

Lemma index_of_lt s : forall l k i, index_of s l k = Some i -> k <= i < k + N.of_nat (length l).
Proof.
  induction l as [|x l IH]; intros k i; cbn [index_of]; [discriminate|]. destruct (bytes_eqb s x).
  - intros [= <-]. cbn [length]. lia.
  - intros H. apply IH in H. cbn [length]. lia.
Qed.
Lemma index_of_nth s : forall l k i, index_of s l k = Some i -> nth_error l (N.to_nat (i - k)) = Some s.
Proof.
  induction l as [|x l IH]; intros k i; cbn [index_of]; [discriminate|]. destruct (bytes_eqb s x) eqn:E.
  - intros [= <-]. apply bytes_eqb_eq in E. subst x. now rewrite N.sub_diag.
  - intros H. pose proof (index_of_lt _ _ _ _ H) as Hlt. apply IH in H.
    replace (N.to_nat (i - k)) with (S (N.to_nat (i - (k + 1)))) by lia. exact H.
Qed.
Lemma index_of_in s : forall l k, In s l -> exists i, index_of s l k = Some i.
Proof.
  induction l as [|x l IH]; intros k Hin; [contradiction|]. cbn [index_of]. destruct (bytes_eqb s x) eqn:E; [eauto|].
  destruct Hin as [->|Hin]; [rewrite bytes_eqb_refl in E; discriminate|]. now apply IH.
Qed.

(* the column law of a column the reader's database does not know, for the plain reader's side [plain_read] *)
Lemma simple_col2_law d ep p dom ts st (x : column) :
  add_instances d ep dom (List.map root ts) = Ok st -> NoDup (ss_relevant st) ->
  (Z.of_nat (length (ss_relevant st)) <= 2147483647)%Z -> dp_lim p = None -> BinRoundTrip.sstr_ok st ->
  find_desc_bin d (string_of_bytes (fst (fst x))) (string_of_bytes (pi_ser_name (snd (snd x)))) = Ok None ->
  simple_col2 st (pi_type (snd (snd x))) (col_values ep dom x) ->
  col_law d ep p dom st (stI_of st) x (plain_read ep dom st x).
Proof.
  intros Hst Hndr Hlen Hlim [Hsl _] Hdb Hs. remember (pi_type (snd (snd x))) as ty eqn:Ety. remember (col_values ep dom x) as vs eqn:Evs.
  destruct Hs as [ty vs Hs|ss Hss].
  - subst ty vs. unfold plain_read. now apply (simple_col_law d ep p dom ts st x).
  - unfold plain_read, col_law. cbv zeta. exists VT_SharedString. split.
    { rewrite <- Ety. now apply (find_canonical_unknown d WSharedString). }
    intros ds Hsk. destruct (dctx_of_skel d ep p dom ts st ds Hst Hndr Hsk) as (Hds & _ & _).
    rewrite <- Ety, <- Evs, map_map, map_length. cbn [norm_val].
    apply (col_roundtrip_sharedstring_same (enc_ctx_of ep st) (prop_dctx p ds) ss []).
    + eapply Forall_impl; [|exact Hss]. intros s Hin. unfold BinValuesFacts3.sstr_ok. rewrite Hds. cbn [enc_ctx_of ec_sstr].
      destruct (index_of_in s (ss_sstr st) 0 Hin) as (i & Hi). rewrite Hi. pose proof (index_of_lt _ _ _ _ Hi) as Hlt.
      apply andb_true_iff. split; apply N.ltb_lt; [change 4294967296 with (2 ^ 32)|]; lia.
    + intros s id Hi _. rewrite Hds. cbn [enc_ctx_of ec_sstr] in Hi. apply index_of_nth in Hi. rewrite N.sub_0_r in Hi.
      now apply nth_error_nth.
Qed.

(* every explicitly set property of a written instance has a column in the table of its class *)
Definition cols_cover (dom : cdom) (ts : list tree) (st : ser_state) : Prop :=
  forall r i k v ti, In r (flat_map refs ts) -> find_inst dom r = Some i -> In (k, v) (i_props i) ->
    In (i_class i, ti) (ss_types st) -> exists pi, In (k, pi) (ti_props ti).

Definition ectx_any : enc_ctx := mkEC (fun _ => None) (fun _ => None) (fun _ => 0).
Definition dctx_any : dec_ctx := mkDC (fun _ => 0) [] None.

Lemma simple_col2_vback st ty vs v :
  simple_col2 st ty vs -> In v vs -> unknown_scope v = true -> bin_vback st v (norm_val st v).
Proof.
  intros Hs Hv Hsc.
  assert (G : forall w, (forall dc, dc_lim dc = None -> bin_back ectx_any dc w w) -> exists c dc, dc_lim dc = None /\ bin_back c dc w w).
  { intros w H. exists ectx_any, dctx_any. split; [reflexivity|]. now apply H. }
  destruct Hs as [ty vs Hs|ss Hss].
  - destruct Hs; apply in_map_iff in Hv; destruct Hv as (a & <- & Ha); cbn [unknown_scope dom_scope cross_scope norm_val bin_vback] in *;
      try discriminate Hsc; try reflexivity; apply G; intros dc Hl.
    + apply bin_bool.
    + now apply bin_int32.
    + now apply bin_int64.
    + now apply bin_float32.
    + now apply bin_float64.
    + apply bin_bstring. now rewrite Hl.
  - apply in_map_iff in Hv. destruct Hv as (a & <- & _). reflexivity.
Qed.

Lemma in_cols c ti cp types : In (c, ti) types -> In cp (ti_props ti) -> In (c, ti, cp) (cols types).
Proof. intros H1 H2. unfold cols. apply in_flat_map. exists (c, ti). split; [exact H1|]. apply in_map_iff. exists cp. auto. Qed.

(* the law for the plain reader's side: an explicitly set property of a written instance is held under its own name with
   the normalised value *)
Lemma plain_bin_law d ep p dom ts st :
  BinRoundTrip.input_ok dom ts -> props_ok dom ts -> unknown_props d dom -> ep_order ep [] = [] ->
  add_instances d ep dom (List.map root ts) = Ok st -> cols_cover dom ts st ->
  (forall x, In x (cols (ss_types st)) -> fst (snd x) <> NAME -> simple_col2 st (pi_type (snd (snd x))) (col_values ep dom x)) ->
  bin_law unknown_scope p dom st (plain_read ep dom st) (fun _ k => k).
Proof.
  intros Hin Hpo Hun Hord Hst Hcov Hsimple c ti kidx r i Hct Hk Hf k v Hkv Hs.
  destruct (unknown_props_table d ep dom _ st Hun Hst) as (_ & _ & _ & Hpl).
  destruct (enc_class_ids _ _ _ _ _ Hst) as (_ & _ & _ & _ & _ & Hall & _ & _). destruct (Hall c ti Hct) as (Hfil & _ & _).
  assert (Hr : In r (ss_relevant st) /\ c = i_class i).
  { apply nth_error_In in Hk. rewrite Hfil in Hk. apply filter_In in Hk. destruct Hk as [Hk Hoc]. split; [exact Hk|].
    unfold of_class, class_of in Hoc. rewrite Hf in Hoc. apply bytes_eqb_eq in Hoc. now symmetry. }
  destruct Hr as [Hr ->]. apply (relevant_written d ep dom ts st Hin Hst) in Hr.
  pose proof (bfind_in _ _ _ Hkv) as Hkin. destruct (Hcov r i k v ti Hr Hf Hkin Hct) as (pi & Hpi).
  destruct (Hpo r i Hr Hf) as [_ HnN].
  assert (HkN : k <> NAME) by (intros ->; apply HnN; apply in_map_iff; exists (NAME, v); auto).
  assert (HkNb : bytes_eqb k NAME = false) by now apply bytes_eqb_neq.
  assert (Hsrc : src dom r = i) by now apply find_inst_src.
  rewrite (read_props_plain p ep dom st (i_class i) ti kidx r Hk).
  assert (Hval : forall canon pi', In (canon, pi') (ti_props ti) -> bytes_eqb canon NAME = false -> pi_ser_name pi' = k ->
            prop_value ep canon pi' (ep_order ep (pi_aliases pi')) (src dom r) = v).
  { intros canon pi' Hcp Hn E. destruct (Hpl _ (in_cols _ _ _ _ Hct Hcp)) as (E1 & E2 & E3). cbn [fst snd] in E1, E2, E3.
    rewrite (prop_value_plain ep canon pi' _ E2 E3 Hord Hn), Hsrc. assert (Ec : canon = k) by congruence. rewrite Ec. now rewrite Hkv. }
  set (l := plain_props ep dom st ti r).
  assert (Hall_k : forall w, In (k, w) l -> w = norm_val st v).
  { intros w Hw. unfold l, plain_props in Hw. apply in_map_iff in Hw. destruct Hw as ([canon pi'] & E & Hcp). cbn [fst snd] in E.
    apply filter_In in Hcp. destruct Hcp as [Hcp Hnn]. cbn [fst] in Hnn. apply negb_true_iff in Hnn. injection E as E1 E2.
    rewrite <- E2. f_equal. now apply Hval. }
  assert (Hex : In (k, norm_val st v) l).
  { unfold l, plain_props. apply in_map_iff. exists (k, pi). destruct (Hpl _ (in_cols _ _ _ _ Hct Hpi)) as (E1 & _). cbn [fst snd] in *.
    split; [rewrite E1; f_equal; f_equal; now apply Hval|]. apply filter_In. split; [exact Hpi|]. cbn [fst]. now rewrite HkNb. }
  pose proof (collect_props_has k l) as Hhas.
  replace (existsb (fun kv : bytes * value => bytes_eqb (fst kv) k) l) with true in Hhas.
  2:{ symmetry. apply existsb_exists. exists (k, norm_val st v). split; [exact Hex|apply bytes_eqb_refl]. }
  destruct (bfind k (collect_props l)) as [w|] eqn:Ew; [|discriminate Hhas].
  exists w. split; [reflexivity|]. apply bfind_in, collect_props_in in Ew. rewrite (Hall_k w Ew).
  (* the value is one of the column's values, and the column is simple *)
  pose proof (Hsimple _ (in_cols _ _ _ _ Hct Hpi) HkN) as Hsc. cbn [fst snd] in Hsc.
  apply (simple_col2_vback st _ _ v Hsc); [|exact Hs].
  unfold col_values. destruct (Hpl _ (in_cols _ _ _ _ Hct Hpi)) as (E1 & _). cbn [fst snd] in E1.
  rewrite <- (Hval k pi Hpi HkNb E1). apply in_map. apply in_map. eapply nth_error_In; eauto.
Qed.

(* ---------------------------------------------------------------- 2e. [cols_cover] holds of the model *)
(* every property name the property loop has visited for a class has a column (properties unknown to the database: the canonical
   name is the name itself), and columns are never removed *)
Definition vis_ok (ti : type_info) : Prop := forall k, In k (ti_visited ti) -> exists pi, In (k, pi) (ti_props ti).
Definition keys_mono (ti ti' : type_info) : Prop := forall k pi, In (k, pi) (ti_props ti) -> exists pi', In (k, pi') (ti_props ti').

Lemma cti_prop_cover d class ss ti pv ss' ti' :
  find_desc_bin d (string_of_bytes class) (string_of_bytes (fst pv)) = Ok None ->
  cti_prop d class (ss, ti) pv = Ok (ss', ti') -> vis_ok ti ->
  vis_ok ti' /\ keys_mono ti ti' /\ exists pi, In (fst pv, pi) (ti_props ti').
Proof.
  destruct pv as [pname pvalue]. cbn [fst]. intros Hdb H Hv. unfold cti_prop in H.
  destruct (bmem pname (ti_visited ti)) eqn:Ev.
  { injection H as _ <-. split; [exact Hv|]. split; [intros k pi Hk; eauto|]. apply Hv. now apply bmem_In. }
  unfold resolve_prop in H. rewrite Hdb in H. cbn [rbind] in H.
  cbn [ti_props ti_class ti_id ti_service ti_instances ti_visited] in H.
  match type of H with rbind ?X _ = _ => destruct X as [[ss1 ti1]| | |] eqn:E1 end; cbn [rbind] in H; try discriminate.
  rewrite bytes_eqb_refl in H. injection H as _ <-.
  destruct (bfind pname (ti_props ti)) as [pi0|] eqn:Ef.
  - injection E1 as _ <-. unfold vis_ok, keys_mono. cbn [ti_props ti_visited]. split; [|split].
    + intros k [<-|Hk]; [exists pi0; now apply bfind_in|now apply Hv].
    + intros k pi Hk. eauto.
    + exists pi0. now apply bfind_in.
  - match type of E1 with rbind ?X _ = _ => destruct X as [dbdef| | |] end; cbn [rbind] in E1; try discriminate.
    match type of E1 with match ?X with _ => _ end = _ => destruct X as [dv|] end; [|discriminate].
    destruct (from_rbx_type (vtype pvalue)) as [ser_type|]; [|discriminate].
    injection E1 as _ <-. unfold vis_ok, keys_mono. cbn [ti_props ti_visited]. split; [|split].
    + intros k [<-|Hk]; [eexists; apply in_binsert; left; reflexivity|]. destruct (Hv k Hk) as (pi & Hpi). exists pi. apply in_binsert. now right.
    + intros k pi Hk. exists pi. apply in_binsert. now right.
    + eexists. apply in_binsert. left. reflexivity.
Qed.

Lemma cti_fold_cover d class l : forall ss ti ss' ti',
  (forall pv, In pv l -> find_desc_bin d (string_of_bytes class) (string_of_bytes (fst pv)) = Ok None) ->
  fold_res (cti_prop d class) (ss, ti) l = Ok (ss', ti') -> vis_ok ti ->
  vis_ok ti' /\ keys_mono ti ti' /\ forall pv, In pv l -> exists pi, In (fst pv, pi) (ti_props ti').
Proof.
  induction l as [|pv l IH]; intros ss ti ss' ti' Hl; cbn [fold_res].
  { intros [= _ <-] Hv. split; [exact Hv|]. split; [intros k pi Hk; eauto|intros pv []]. }
  destruct (cti_prop d class (ss, ti) pv) as [[ss1 ti1]| | |] eqn:E; cbn [rbind]; try discriminate.
  intros H Hv. destruct (cti_prop_cover d class ss ti pv ss1 ti1 (Hl pv (or_introl eq_refl)) E Hv) as (Hv1 & Hm1 & Hc1).
  destruct (IH ss1 ti1 ss' ti' (fun pv' Hin => Hl pv' (or_intror Hin)) H Hv1) as (Hv' & Hm' & Hc').
  split; [exact Hv'|]. split.
  - intros k pi Hk. destruct (Hm1 k pi Hk) as (pi1 & Hk1). exact (Hm' k pi1 Hk1).
  - intros pv' [<-|Hin]; [|now apply Hc']. destruct Hc1 as (pi1 & Hk1). exact (Hm' _ pi1 Hk1).
Qed.

Definition cov_inv (dom : cdom) (st : ser_state) : Prop :=
  (forall c ti, In (c, ti) (ss_types st) -> vis_ok ti) /\
  (forall r i k v ti, In r (ss_relevant st) -> find_inst dom r = Some i -> In (k, v) (i_props i) ->
     In (i_class i, ti) (ss_types st) -> exists pi, In (k, pi) (ti_props ti)).

Lemma collect_cover d dom st r inst st' :
  unknown_props d dom -> find_inst dom r = Some inst -> types_inv dom st -> cov_inv dom st ->
  collect_type_info d (mkSS (ss_relevant st ++ [r]) (ss_types st) (ss_next_id st) (ss_sstr st)) inst = Ok st' ->
  cov_inv dom st'.
Proof.
  intros Hun Hfi Hinv [Hvis Hcov] H. pose proof (sorted_NoDup _ (inv_sorted _ _ Hinv)) as Hndk.
  destruct (find_inst_some _ _ _ Hfi) as [Hind _].
  assert (Hl : forall pv, In pv (i_props inst) -> find_desc_bin d (string_of_bytes (i_class inst)) (string_of_bytes (fst pv)) = Ok None).
  { intros [pname v] Hin. cbn [fst]. exact (proj1 (Hun inst pname v Hind Hin)). }
  (* both branches end in the same situation: a table [types0] with distinct keys holding (class, ti0), ti0 visited-ok and
     covering the old instances of the class; the new table is bset class ti2 types0 *)
  assert (G : forall types0 ti0 next ss2 ti2,
            NoDup (List.map fst types0) -> bfind (i_class inst) types0 = Some ti0 -> vis_ok ti0 ->
            (forall c ti, In (c, ti) types0 -> (c, ti) = (i_class inst, ti0) \/ In (c, ti) (ss_types st)) ->
            (forall r' i' k v, In r' (ss_relevant st) -> find_inst dom r' = Some i' -> In (k, v) (i_props i') -> i_class i' = i_class inst ->
                               exists pi, In (k, pi) (ti_props ti0)) ->
            fold_res (cti_prop d (i_class inst))
              (ss_sstr st, mkTI (ti_id ti0) (ti_service ti0) (ti_instances ti0 ++ [i_ref inst]) (ti_props ti0) (ti_class ti0) (ti_visited ti0))
              (i_props inst) = Ok (ss2, ti2) ->
            cov_inv dom (mkSS (ss_relevant st ++ [r]) (bset (i_class inst) ti2 types0) next ss2)).
  { intros types0 ti0 next ss2 ti2 Hnd0 Hf0 Hv0 Hold Hcov0 Ef.
    destruct (cti_fold_cover d (i_class inst) (i_props inst) _ _ _ _ Hl Ef) as (Hv2 & Hm2 & Hc2); [exact Hv0|].
    assert (Hnd2 : NoDup (List.map fst (bset (i_class inst) ti2 types0))) by (now rewrite bset_keys).
    assert (Hin2 : In (i_class inst, ti2) (bset (i_class inst) ti2 types0)) by (eapply in_bset_same; eauto).
    split; cbn [ss_types ss_relevant].
    - intros c ti Hin. apply (in_bset_cases _ _ _ _ Hf0) in Hin. destruct Hin as [[-> ->]|Hin]; [exact Hv2|].
      destruct (Hold c ti Hin) as [[= -> ->]|Hin']; [exact Hv0|now apply (Hvis c ti)].
    - intros r' i' k v ti Hr' Hf' Hkv Hct.
      destruct (bytes_eqb (i_class i') (i_class inst)) eqn:Ec.
      + apply bytes_eqb_eq in Ec. rewrite Ec in Hct. assert (ti = ti2) by (eapply keys_functional; eauto). subst ti.
        apply in_app_or in Hr'. destruct Hr' as [Hr'|[<-|[]]].
        * destruct (Hcov0 r' i' k v Hr' Hf' Hkv Ec) as (pi & Hpi). exact (Hm2 k pi Hpi).
        * rewrite Hfi in Hf'. injection Hf' as <-. exact (Hc2 (k, v) Hkv).
      + apply bytes_eqb_false_neq in Ec. apply (in_bset_cases _ _ _ _ Hf0) in Hct. destruct Hct as [[E _]|Hct]; [contradiction|].
        destruct (Hold _ _ Hct) as [[= E _]|Hct']; [contradiction|].
        apply in_app_or in Hr'. destruct Hr' as [Hr'|[<-|[]]]; [now apply (Hcov r' i' k v ti)|].
        rewrite Hfi in Hf'. injection Hf' as <-. now elim Ec. }
  unfold collect_type_info in H. cbn [ss_types ss_next_id ss_sstr ss_relevant] in H.
  destruct (bfind (i_class inst) (ss_types st)) as [ti0|] eqn:Hf.
  - match type of H with rbind ?X _ = _ => destruct X as [[ss2 ti2]| | |] eqn:Ef end; cbn [rbind] in H; try discriminate.
    injection H as <-. apply (G (ss_types st) ti0 (ss_next_id st) ss2 ti2 Hndk Hf); [|auto| |exact Ef].
    + apply (Hvis (i_class inst)). now apply bfind_in.
    + intros r' i' k v Hr' Hf' Hkv Ec. apply (Hcov r' i' k v ti0 Hr' Hf' Hkv). rewrite Ec. now apply bfind_in.
  - match type of H with rbind ?X _ = _ => destruct X as [[ss2 ti2]| | |] eqn:Ef end; cbn [rbind] in H; try discriminate.
    injection H as <-.
    set (nti := new_type_info d (ss_next_id st) (i_class inst)) in *.
    apply (G (binsert (i_class inst, nti) (ss_types st)) nti (ss_next_id st + 1) ss2 ti2); [| | | | |exact Ef].
    + eapply Permutation_NoDup; [symmetry; apply Permutation_map; apply binsert_perm|]. cbn [List.map fst]. constructor; [|exact Hndk].
      now apply bfind_none_notin.
    + now apply BinStructure.bfind_binsert_same.
    + intros k [].
    + intros c ti Hin. apply in_binsert in Hin. destruct Hin as [E|Hin]; [now left|now right].
    + intros r' i' k v Hr' Hf' Hkv Ec. exfalso. apply (bfind_none_notin _ _ Hf). rewrite <- Ec.
      pose proof (inv_cover _ _ Hinv r' Hr') as Hc. unfold class_of in Hc. now rewrite Hf' in Hc.
Qed.

Lemma add_loop_cover d dom : unknown_props d dom -> forall fuel outer stack lv st st',
  types_inv dom st -> cov_inv dom st -> add_loop fuel d dom outer stack lv st = Ok st' -> cov_inv dom st'.
Proof.
  intros Hun. induction fuel as [|f IH]; intros outer stack lv st st' Hinv Hc H; [discriminate|].
  cbn [add_loop] in H. destruct stack as [|x rest]; [now injection H as <-|].
  destruct (find_inst dom x) as [inst|] eqn:Hfi; [|discriminate].
  destruct outer; [exact (IH _ _ _ _ _ Hinv Hc H)|].
  match type of H with (if ?c then _ else _) = _ => destruct c end; [exact (IH _ _ _ _ _ Hinv Hc H)|].
  destruct (collect_type_info d _ inst) as [st1| | |] eqn:E; cbn [rbind] in H; try discriminate.
  destruct (cti_step _ _ _ _ _ _ Hfi Hinv E) as (Hinv1 & _).
  exact (IH _ _ _ _ _ Hinv1 (collect_cover d dom st x inst st1 Hun Hfi Hinv Hc E) H).
Qed.

(* the answer: when all properties are unknown to the database, every explicitly set property of a written instance has a column *)
Theorem enc_cols_cover d ep dom ts st : unknown_props d dom ->
  BinRoundTrip.input_ok dom ts -> add_instances d ep dom (List.map root ts) = Ok st -> cols_cover dom ts st.
Proof.
  intros Hun Hin Hst. destruct (add_instances_inv _ _ _ _ _ Hst) as (st0 & Hl & Hrel & Ht & _).
  assert (Hc : cov_inv dom st0).
  { eapply (add_loop_cover d dom Hun); [apply types_inv0| |exact Hl]. split; [intros c ti []|intros r i k v ti []]. }
  intros r i k v ti Hr Hf Hkv Hct. apply (relevant_written d ep dom ts st Hin Hst) in Hr. rewrite Hrel in Hr. rewrite Ht in Hct.
  exact (proj2 Hc r i k v ti Hr Hf Hkv Hct).
Qed.
Print Assumptions enc_cols_cover.

(* K2, closed.  All properties of the DOM are unknown to the binary codec's database; every column holds values of one simple
   type (Bool, Int32, Int64, Float32, Float64, String, BinaryString, Ref, SharedString); the XML pairing is plain. *)
Theorem cross_format_doms_agree d ep cmp dom ts b p st e ebeh dbeh evs revs :
  BinRoundTrip.input_ok dom ts -> props_ok dom ts -> names_ok dom ->
  unknown_props d dom -> ep_order ep [] = [] ->
  encode_file d ep cmp dom (List.map root ts) = Ok b ->
  add_instances d ep dom (List.map root ts) = Ok st ->
  dp_lim p = None ->
  (forall e0, encode_chunks d ep dom (List.map root ts) = Ok e0 -> frame_ok p cmp e0) ->
  BinRoundTrip.sstr_ok st ->
  (forall x, In x (cols (ss_types st)) -> fst (snd x) <> NAME -> simple_col2 st (pi_type (snd (snd x))) (col_values ep dom x)) ->
  plain_mode e ebeh dbeh dom (List.map root ts) -> hash_ok e -> readable_dom e dom (List.map root ts) ->
  xml_oracle_ok (xe_o e) ->
  xml_encode e ebeh dom (List.map root ts) = Ok evs -> channel evs = Ok revs ->
  exists outB outX,
    decode_file d p b = Ok outB /\ xml_decode e dbeh revs = Ok outX /\
    doms_agree unknown_scope (lbl st) (label (flat_map refs ts)) (flat_map refs ts) (dp_fresh_uid p) (fun _ k => k) dom outB outX.
Proof.
  intros Hin Hpo Hnames Hun Hord Hf Hst Hlim Hfr Hss Hsimple Hpm Hh Hrd Ho He Hc.
  pose proof (enc_cols_cover d ep dom ts st Hun Hin Hst) as Hcov.
  destruct (unknown_props_table d ep dom _ st Hun Hst) as (Hser & Hncol & Hdb & _).
  pose proof Hin as (_ & _ & Hag & Hnd & _). destruct (enc_relevant_postorder _ _ _ _ _ Hag Hnd Hst) as [_ Hndr].
  assert (Hlen : (Z.of_nat (length (ss_relevant st)) <= 2147483647)%Z).
  { destruct (encode_file_inv _ _ _ _ _ _ Hf) as (e0 & He0 & _).
    destruct (BinStructure.encode_chunks_inv _ _ _ _ _ He0) as (st' & _ & _ & _ & _ & Hst' & Hlen & _).
    assert (st' = st) by congruence. now subst st'. }
  apply (cross_format_doms_agree_generic unknown_scope d ep cmp dom ts b p st (plain_read ep dom st) e ebeh dbeh evs revs
           unknown_scope_dom Hin Hpo Hnames Hf Hst Hlim Hfr Hss Hser Hncol); try assumption.
  - intros x Hx Hn. apply (simple_col2_law d ep p dom ts st x Hst Hndr Hlen Hlim Hss); [now apply Hdb|now apply Hsimple].
  - now apply (plain_bin_law d ep p dom ts st).
Qed.
Print Assumptions cross_format_doms_agree.

(* ================================================================ 3. non-vacuity: one DOM through both codecs *)
(* executable forms of the two hypotheses introduced here *)
Definition props_okb (dom : cdom) (ts : list tree) : bool :=
  forallb (fun r => match find_inst dom r with
                    | Some i => nodupb (List.map fst (i_props i)) && negb (existsb (bytes_eqb (B "Name")) (List.map fst (i_props i)))
                    | None => true
                    end) (flat_map refs ts).
Lemma props_okb_sound dom ts : props_okb dom ts = true -> props_ok dom ts.
Proof.
  unfold props_okb. rewrite forallb_forall. intros H r i Hr Hf. specialize (H r Hr). rewrite Hf in H. apply andb_true_iff in H.
  destruct H as [A1 A2]. split; [now apply nodupb_sound|]. intro Hin. apply negb_true_iff in A2.
  assert (existsb (bytes_eqb (B "Name")) (List.map fst (i_props i)) = true)
    by (apply existsb_exists; exists (B "Name"); split; [exact Hin|apply bytes_eqb_refl]). congruence.
Qed.
Definition cols_coverb (dom : cdom) (ts : list tree) (st : ser_state) : bool :=
  forallb (fun r => match find_inst dom r with
                    | Some i => forallb (fun ct : bytes * type_info =>
                                           negb (bytes_eqb (fst ct) (i_class i)) ||
                                           forallb (fun kv : bytes * value => existsb (fun cp : bytes * prop_info => bytes_eqb (fst cp) (fst kv)) (ti_props (snd ct)))
                                                   (i_props i)) (ss_types st)
                    | None => true
                    end) (flat_map refs ts).
Lemma cols_coverb_sound dom ts st : cols_coverb dom ts st = true -> cols_cover dom ts st.
Proof.
  unfold cols_coverb. rewrite forallb_forall. intros H r i k v ti Hr Hf Hkv Hct. specialize (H r Hr). rewrite Hf in H.
  rewrite forallb_forall in H. specialize (H _ Hct). cbn [fst snd] in H. rewrite bytes_eqb_refl in H. cbn [negb orb] in H.
  rewrite forallb_forall in H. specialize (H _ Hkv). cbn [fst] in H. apply existsb_exists in H. destruct H as ([k' pi] & Hin & E).
  cbn [fst] in E. apply bytes_eqb_eq in E. subst k'. eauto.
Qed.

Module Example.
(* two roots (1 and 5), three levels (1 > 2 > 3), an instance that is not written (4); a forward Ref (3 -> 5), a Ref whose
   target gets different labels in the two files (5 -> 2: binary label 1, XML label 2), a null Ref, a Ref to an instance that
   is not written; two SharedStrings; Float32 values including a negative NaN; a Float64; Bool; Int32 *)
Definition ex_dom : cdom :=
  [ mkInst 1 0 (B "Folder0") (B "a") [(B "Half", VFloat32 XmlCompound2.F32_HALF); (B "Flag", VBool true); (B "D", VFloat64 F64_ONE)];
    mkInst 2 1 (B "Folder0") (B "b") [(B "Half", VFloat32 F32_NNAN); (B "Flag", VBool false); (B "D", VFloat64 F64_ONE)];
    mkInst 3 2 (B "Thing") (B "c") [(B "Target", VRef 5); (B "Gone", VRef 0); (B "Blob", VSharedString (B "xyz")); (B "Count", VInt32 (-7))];
    mkInst 4 0 (B "Unwritten") (B "u") [];
    mkInst 5 0 (B "Thing") (B "d") [(B "Target", VRef 2); (B "Gone", VRef 4); (B "Blob", VSharedString (B "abc")); (B "Count", VInt32 9)] ].
Definition ex_ts : list tree := [Node 1 [Node 2 [Node 3 []]]; Node 5 []].
(* the binary writer needs the hash of every SharedString it sorts, including the empty default of the column *)
Definition ex_ep : enc_params := mkEP [] [] (fun _ => 0) (fun l => l) [(B "xyz", h_a); (B "abc", h_c); ([], repeat 3 32)].
Definition ex_e : xenv := mkXE (mkDb [] []) [] [] o2 (xe_hash e_rt).

Definition ex_st : ser_state :=
  Eval vm_compute in match add_instances db0 ex_ep ex_dom [1; 5] with Ok s => s | _ => ser_state0 end.
Definition ex_enc : encoded :=
  Eval vm_compute in match encode_chunks db0 ex_ep ex_dom [1; 5] with Ok e => e | _ => mkEnc [] [] end.
Definition ex_file : bytes :=
  Eval vm_compute in match encode_file db0 ex_ep None ex_dom [1; 5] with Ok b => b | _ => [] end.
Definition ex_outB : cdom :=
  Eval vm_compute in match decode_file db0 (dp0 None) ex_file with Ok d => d | _ => [] end.
Definition ex_outX : cdom :=
  Eval vm_compute in match thru ex_e EWriteUnknown DReadUnknown ex_dom [1; 5] with Ok d => d | _ => [] end.

Lemma ex_st_ok : add_instances db0 ex_ep ex_dom (List.map root ex_ts) = Ok ex_st.
Proof. vm_compute. reflexivity. Qed.
Lemma ex_enc_ok : encode_chunks db0 ex_ep ex_dom (List.map root ex_ts) = Ok ex_enc.
Proof. vm_compute. reflexivity. Qed.
Lemma ex_file_ok : encode_file db0 ex_ep None ex_dom (List.map root ex_ts) = Ok ex_file.
Proof. vm_compute. reflexivity. Qed.

Lemma ex_input_ok : BinRoundTrip.input_ok ex_dom ex_ts.
Proof.
  split; [|split; [|split; [|split]]].
  - cbn. repeat constructor; cbn; intuition discriminate.
  - repeat constructor; vm_compute; reflexivity.
  - repeat (constructor; try (vm_compute; reflexivity)).
  - cbn. repeat constructor; cbn; intuition discriminate.
  - cbn. intuition discriminate.
Qed.
Lemma ex_names_ok : names_ok ex_dom.
Proof. repeat constructor; vm_compute; reflexivity. Qed.
Lemma ex_unknown_props : unknown_props db0 ex_dom.
Proof.
  intros i pname v Hi Hp. cbn in Hi.
  repeat (destruct Hi as [<-|Hi]; [cbn [i_props] in Hp; repeat (destruct Hp as [[= <- <-]|Hp]; [repeat split; vm_compute; reflexivity|]); contradiction|]).
  contradiction.
Qed.
Lemma ex_frame_ok e0 : encode_chunks db0 ex_ep ex_dom (List.map root ex_ts) = Ok e0 -> frame_ok (dp0 None) None e0.
Proof.
  rewrite ex_enc_ok. intros [= <-]. unfold frame_ok, ex_enc. cbn [en_chunks].
  repeat (constructor; [split; [split; [vm_compute; reflexivity|exact I]|exact I]|]). constructor.
Qed.
Lemma ex_sstr_ok : BinRoundTrip.sstr_ok ex_st.
Proof. split; [vm_compute; reflexivity|repeat constructor; vm_compute; reflexivity]. Qed.
Lemma ex_simple_cols x : In x (cols (ss_types ex_st)) -> fst (snd x) <> NAME ->
  simple_col2 ex_st (pi_type (snd (snd x))) (col_values ex_ep ex_dom x).
Proof.
  intros Hx Hn. vm_compute in Hx.
  destruct Hx as [<-|[<-|[<-|[<-|[<-|[<-|[<-|[<-|[<-|[]]]]]]]]]]; try (exfalso; apply Hn; reflexivity).
  - apply sc2_simple. change (simple_col WFloat64 (List.map VFloat64 [F64_ONE; F64_ONE])). constructor. repeat constructor.
  - apply sc2_simple. change (simple_col WBool (List.map VBool [false; true])). constructor.
  - apply sc2_simple. change (simple_col WFloat32 (List.map VFloat32 [F32_NNAN; XmlCompound2.F32_HALF])). constructor. repeat constructor.
  - change (simple_col2 ex_st WSharedString (List.map VSharedString [B "xyz"; B "abc"])). apply sc2_shared.
    repeat constructor; vm_compute; tauto.
  - apply sc2_simple. change (simple_col WInt32 (List.map VInt32 [(-7)%Z; 9%Z])). constructor. repeat constructor.
  - apply sc2_simple. change (simple_col WRef (List.map VRef [0; 4])). constructor.
  - apply sc2_simple. change (simple_col WRef (List.map VRef [5; 2])). constructor.
Qed.
Lemma ex_float_laws : float_laws (xe_o ex_e).
Proof. destruct o2_ok as (dl & _ & _ & l64). split; [exact (display_all_float_law o2 dl)|exact l64]. Qed.
Lemma ex_written : written ex_dom [1; 5] = [1; 2; 3; 5].
Proof. reflexivity. Qed.
Lemma ex_readable : readable_dom ex_e ex_dom (List.map root ex_ts).
Proof.
  intros id i k v Hid Hf Hkv Hns. exists (norm_simple v). apply simple_law; [exact ex_float_laws| |exact Hns].
  cbn [List.map root ex_ts] in Hid. rewrite ex_written in Hid. cbn [In] in Hid.
  destruct Hid as [<-|[<-|[<-|[<-|[]]]]]; vm_compute in Hf; inversion Hf; subst i; cbn [i_props In] in Hkv;
    repeat (destruct Hkv as [Hkv|Hkv]; [inversion Hkv; subst; cbn [simple_ok]; try exact I; try lia; repeat constructor|]);
    try contradiction.
Qed.

(* every hypothesis of cross_format_doms_agree holds of the example, and its conclusion is about the computed outputs *)
Example cross_format_example :
  encode_file db0 ex_ep None ex_dom [1; 5] = Ok ex_file /\ decode_file db0 (dp0 None) ex_file = Ok ex_outB /\
  thru ex_e EWriteUnknown DReadUnknown ex_dom [1; 5] = Ok ex_outX /\
  doms_agree unknown_scope (lbl ex_st) (label [1; 2; 3; 5]) [1; 2; 3; 5] (VUniqueId 0 0 0%Z) (fun _ k => k) ex_dom ex_outB ex_outX /\
  List.map (lbl ex_st) [1; 2; 3; 5] = [2; 1; 3; 4] /\ List.map (label [1; 2; 3; 5]) [1; 2; 3; 5] = [1; 2; 3; 4].
Proof.
  split; [vm_compute; reflexivity|]. split; [vm_compute; reflexivity|]. split; [vm_compute; reflexivity|].
  split; [|split; vm_compute; reflexivity].
  destruct (xml_encode ex_e EWriteUnknown ex_dom [1; 5]) as [evs| | |] eqn:He; try (vm_compute in He; discriminate He).
  destruct (channel evs) as [revs| | |] eqn:Hc;
    try (assert (Hx : (evs0 <- xml_encode ex_e EWriteUnknown ex_dom [1; 5] ;; channel evs0) = channel evs) by (rewrite He; reflexivity);
         rewrite Hc in Hx; vm_compute in Hx; discriminate Hx).
  assert (Hd : xml_decode ex_e DReadUnknown revs = Ok ex_outX).
  { assert (Hx : thru ex_e EWriteUnknown DReadUnknown ex_dom [1; 5] = xml_decode ex_e DReadUnknown revs)
      by (unfold thru; rewrite He; cbn [rbind]; rewrite Hc; reflexivity).
    rewrite <- Hx. vm_compute. reflexivity. }
  destruct (cross_format_doms_agree db0 ex_ep None ex_dom ex_ts ex_file (dp0 None) ex_st ex_e EWriteUnknown DReadUnknown evs revs)
    as (outB & outX & HB & HX & Hag).
  - exact ex_input_ok.
  - apply props_okb_sound. vm_compute. reflexivity.
  - exact ex_names_ok.
  - exact ex_unknown_props.
  - reflexivity.
  - exact ex_file_ok.
  - exact ex_st_ok.
  - reflexivity.
  - exact ex_frame_ok.
  - exact ex_sstr_ok.
  - exact ex_simple_cols.
  - apply plain_mode_unknown_classes. reflexivity.
  - exact e_rt_hash_ok.
  - exact ex_readable.
  - exact o2_ok.
  - exact He.
  - exact Hc.
  - rewrite Hd in HX. injection HX as <-.
    assert (HB' : decode_file db0 (dp0 None) ex_file = Ok ex_outB) by (vm_compute; reflexivity).
    rewrite HB' in HB. injection HB as <-. exact Hag.
Qed.

(* what the statement says on the example, computed: the Ref 5 -> 2 is VRef 1 in the binary-decoded DOM and VRef 2 in the
   XML-decoded DOM (both are the label of the instance decoded for 2); the negative NaN stays in the binary file and is the
   canonical NaN in the XML file *)
Example cross_format_example_values :
  option_map (fun i => (bfind (B "Target") (i_props i), bfind (B "Gone") (i_props i))) (find_inst ex_outB (lbl ex_st 5)) = Some (Some (VRef 1), Some (VRef 0)) /\
  option_map (fun i => (bfind (B "Target") (i_props i), bfind (B "Gone") (i_props i))) (find_inst ex_outX (label [1; 2; 3; 5] 5)) = Some (Some (VRef 2), Some (VRef 0)) /\
  option_map (fun i => bfind (B "Half") (i_props i)) (find_inst ex_outB (lbl ex_st 2)) = Some (Some (VFloat32 F32_NNAN)) /\
  option_map (fun i => bfind (B "Half") (i_props i)) (find_inst ex_outX (label [1; 2; 3; 5] 2)) = Some (Some (VFloat32 F32_NAN)) /\
  option_map (fun i => bfind (B "Blob") (i_props i)) (find_inst ex_outB (lbl ex_st 3)) = Some (Some (VSharedString (B "xyz"))) /\
  option_map (fun i => bfind (B "Blob") (i_props i)) (find_inst ex_outX (label [1; 2; 3; 5] 3)) = Some (Some (VSharedString (B "xyz"))).
Proof. repeat split; vm_compute; reflexivity. Qed.
End Example.
Print Assumptions Example.cross_format_example.

(* ================================================================ 4. findings *)
(* FINDING (the two formats differ; hence [unknown_scope]).  A String property the database does not know — the plain pairing on
   the XML side, a database without the class on the binary side — is read back from the binary file as a BinaryString
   (find_canonical_property falls back to Type::to_default_rbx_type (String) = BinaryString) and from the XML file as a String
   (the <string> element).  The two decoded values are not nan_equiv although the value is in CrossFormat.cross_scope: in the
   statement "every property that was explicitly set appears ... with an equal value in both", String (and ContentId)
   properties unknown to the database must be excluded. *)
Definition str_dom : cdom := [mkInst 1 0 (B "Thing") (B "c") [(B "S", VString (B "hi"))]].
Example unknown_string_differs :
  dom_scope (VString (B "hi")) = true /\
  (exists b, encode_file db0 ep0 None str_dom [1] = Ok b /\
             decode_file db0 (dp0 None) b = Ok [mkInst 1 0 (B "Thing") (B "c") [(B "S", VBinaryString (B "hi"))]]) /\
  thru Example.ex_e EWriteUnknown DReadUnknown str_dom [1] = Ok [mkInst 1 0 (B "Thing") (B "c") [(B "S", VString (B "hi"))]] /\
  ~ nan_equiv (VBinaryString (B "hi")) (VString (B "hi")).
Proof.
  split; [vm_compute; reflexivity|]. split; [eexists; split; [vm_compute; reflexivity|vm_compute; reflexivity]|]. split; [vm_compute; reflexivity|].
  intro H. exact H.
Qed.
(* the same DOM meets every other hypothesis of cross_format_doms_agree (its column is a simple_col String column): only the
   scope keeps the property out of the comparison *)
Example unknown_string_hypotheses :
  BinRoundTrip.input_ok str_dom [Node 1 []] /\ props_ok str_dom [Node 1 []] /\ unknown_props db0 str_dom /\
  exists st, add_instances db0 ep0 str_dom [1] = Ok st /\ cols_cover str_dom [Node 1 []] st /\
    forall x, In x (cols (ss_types st)) -> fst (snd x) <> NAME -> simple_col2 st (pi_type (snd (snd x))) (col_values ep0 str_dom x).
Proof.
  split; [|split; [|split]].
  - split; [|split; [|split; [|split]]].
    + cbn. repeat constructor; cbn; intuition discriminate.
    + repeat constructor; vm_compute; reflexivity.
    + repeat (constructor; try (vm_compute; reflexivity)).
    + cbn. repeat constructor; cbn; intuition discriminate.
    + cbn. intuition discriminate.
  - apply props_okb_sound. vm_compute. reflexivity.
  - intros i pname v Hi Hp. cbn in Hi. destruct Hi as [<-|[]]. cbn [i_props] in Hp. destruct Hp as [[= <- <-]|[]].
    repeat split; vm_compute; reflexivity.
  - eexists. split; [vm_compute; reflexivity|]. split; [apply cols_coverb_sound; vm_compute; reflexivity|].
    intros x Hx Hn. vm_compute in Hx. destruct Hx as [<-|[<-|[]]]; [exfalso; apply Hn; reflexivity|].
    apply sc2_simple. change (simple_col WString (List.map VString [B "hi"])). constructor. repeat constructor.
Qed.

(* ================================================================ 5. K3: binary -> XML *)
(* The "consequently" clause: read a binary file, write what was read as XML, read that.  The first read's output [outB] is
   described by file_values_roundtrip; the second leg is xml_roundtrip applied to (outB, the children of its root).  RE-ESTABLISHED
   from the first read: XmlRoundTrip.input_ok (referents unique, the chosen subtrees = the whole decoded DOM without overlap, 0 not
   written, every property key once, no key `Name`) — the last under [reads_no_name], which holds for the plain reader's side.
   NOT re-established (they are value-level / behaviour-level facts about what the binary reader produced, not structure):
   [plain_mode] on the decoded DOM (automatic without reflection), [readable_dom] (every decoded value is one the XML codec
   reads back), and that the XML writer accepts (xml_encode = Ok). *)
Fixpoint tmap (f : N -> N) (t : tree) : tree := match t with Node r cs => Node (f r) (List.map (tmap f) cs) end.
Lemma root_tmap f t : root (tmap f t) = f (root t).
Proof. now destruct t. Qed.
Lemma refs_tmap f : forall t, refs (tmap f t) = List.map f (refs t).
Proof.
  apply (tree_ind' (fun t => refs (tmap f t) = List.map f (refs t))). intros r cs IH. cbn [tmap refs List.map]. f_equal.
  induction IH as [|c cs Hc _ IHcs]; [reflexivity|]. cbn [List.map flat_map]. now rewrite map_app, Hc, IHcs.
Qed.
Lemma frefs_tmap f ts : flat_map refs (List.map (tmap f) ts) = List.map f (flat_map refs ts).
Proof. induction ts as [|t ts IH]; [reflexivity|]. cbn [List.map flat_map]. now rewrite map_app, refs_tmap, IH. Qed.

Lemma agrees_tmap dom out (L : N -> N) W :
  (forall r, In r W -> children_of out (L r) = List.map L (children_of dom r)) ->
  forall t, agrees (children_of dom) t -> incl (refs t) W -> agrees (children_of out) (tmap L t).
Proof.
  intros Hk. apply (tree_ind' (fun t => agrees (children_of dom) t -> incl (refs t) W -> agrees (children_of out) (tmap L t))).
  intros r cs IH Hag Hincl. apply agrees_unfold in Hag. destruct Hag as [Hkr Hcs]. cbn [tmap]. constructor.
  - rewrite (Hk r (Hincl r (or_introl eq_refl))), Hkr, !map_map. apply map_ext. intro c. now rewrite root_tmap.
  - rewrite Forall_forall in IH, Hcs. apply Forall_forall. intros c' Hc'. apply in_map_iff in Hc'. destruct Hc' as (c & <- & Hc).
    apply (IH c Hc (Hcs c Hc)). intros x Hx. apply Hincl. cbn [refs]. right. apply in_flat_map. eauto.
Qed.

Lemma collect_props_nodup l : NoDup (List.map fst (collect_props l)).
Proof.
  unfold collect_props. assert (G : forall m, NoDup (List.map fst m) -> NoDup (List.map fst (fold_left (fun m kv => bupd (fst kv) (snd kv) m) l m))).
  { induction l as [|kv l IH]; intros m Hm; [exact Hm|]. cbn [fold_left]. apply IH. now apply nodup_bupd. }
  apply G. constructor.
Qed.

(* the reader files nothing under `Name` *)
Definition reads_no_name (st : ser_state) (R : column -> col_read) : Prop :=
  forall x name mig vs, In x (cols (ss_types st)) -> fst (snd x) <> NAME -> R x = Some (name, mig, vs) ->
    name <> NAME /\ forall nn op, mig = Some (nn, op) -> nn <> NAME.

Lemma read_props_no_name p st R c ti k : In (c, ti) (ss_types st) -> reads_no_name st R ->
  forall kv, In kv (read_props p R (c, ti) k) -> fst kv <> NAME.
Proof.
  intros Hct Hno. unfold read_props. cbn [snd].
  assert (G : forall l acc, incl l (ti_props ti) -> (forall kv, In kv acc -> fst kv <> NAME) ->
                forall kv, In kv (fold_left (col_props p R (c, ti) k) l acc) -> fst kv <> NAME).
  { induction l as [|cp l IH]; intros acc Hl Hacc; [exact Hacc|]. cbn [fold_left]. apply IH; [intros y Hy; apply Hl; now right|].
    unfold col_props. destruct (bytes_eqb (fst cp) NAME) eqn:En; [exact Hacc|].
    destruct (R (c, ti, cp)) as [[[name mig] vs']|] eqn:ER; [|exact Hacc]. destruct (nth_error vs' k) as [v|]; [|exact Hacc].
    destruct (Hno (c, ti, cp) name mig vs' (in_cols _ _ _ _ Hct (Hl cp (or_introl eq_refl))) (bytes_eqb_false_neq _ _ En) ER) as [Hn Hm].
    unfold add_prop. destruct mig as [[nn op]|].
    - destruct (existsb _ acc); [exact Hacc|]. destruct (migrate _ _ op v); [|exact Hacc].
      intros kv Hin. apply in_app_or in Hin. destruct Hin as [Hin|[<-|[]]]; [now apply Hacc|]. exact (Hm nn op eq_refl).
    - intros kv Hin. apply in_app_or in Hin. destruct Hin as [Hin|[<-|[]]]; [now apply Hacc|exact Hn]. }
  apply G; [apply incl_refl|intros kv []].
Qed.

Lemma plain_read_no_name ep dom st : name_cols_ok st -> reads_no_name st (plain_read ep dom st).
Proof.
  intros Hncol [[c ti] [canon pi]] name mig vs Hx Hn ER. unfold plain_read in ER. cbn [fst snd] in *. injection ER as <- <- _.
  split; [|intros nn op E; discriminate E].
  unfold cols in Hx. apply in_flat_map in Hx. destruct Hx as (ct & Hct & Hx). apply in_map_iff in Hx. destruct Hx as (cp & [= -> ->] & Hcp).
  cbn [snd] in Hcp. destruct (Hncol c ti Hct) as [_ Hnc]. destruct (Hnc canon pi Hcp) as [Hiff _]. intro E. apply Hn. now apply Hiff.
Qed.

Theorem binary_then_xml_partial d ep cmp dom ts b p st (R : column -> col_read) e ebeh dbeh evs revs :
  BinRoundTrip.input_ok dom ts -> names_ok dom ->
  encode_file d ep cmp dom (List.map root ts) = Ok b ->
  add_instances d ep dom (List.map root ts) = Ok st ->
  dp_lim p = None ->
  (forall e0, encode_chunks d ep dom (List.map root ts) = Ok e0 -> frame_ok p cmp e0) ->
  BinRoundTrip.sstr_ok st -> ser_names_ok st -> name_cols_ok st ->
  (forall x, In x (cols (ss_types st)) -> fst (snd x) <> NAME -> col_law d ep p dom st (stI_of st) x (R x)) ->
  reads_no_name st R ->
  exists outB, decode_file d p b = Ok outB /\
    let roots' := children_of outB 0 in
    (* the first read's output meets the structural hypotheses of the second write, and all of it is written *)
    XmlRoundTrip.input_ok outB roots' /\
    written outB roots' = List.map (lbl st) (flat_map refs ts) /\
    Permutation (written outB roots') (List.map i_ref outB) /\
    (* hence, given the value-level hypotheses of xml_roundtrip, the second read returns the first read's DOM *)
    (plain_mode e ebeh dbeh outB roots' -> hash_ok e -> readable_dom e outB roots' ->
     xml_encode e ebeh outB roots' = Ok evs -> channel evs = Ok revs ->
     exists outX, xml_decode e dbeh revs = Ok outX /\ XmlRoundTrip.same_forest e outB roots' outX).
Proof.
  intros Hin Hnames Hf Hst Hlim Hfr Hss Hser Hncol Hcl Hno.
  destruct (file_values_roundtrip d ep cmp dom ts b p st R Hin Hnames Hf Hst Hlim Hfr Hss Hser Hncol Hcl) as (outB & HdB & HfB & HiB).
  exists outB. split; [exact HdB|]. cbv zeta.
  pose proof Hin as (_ & _ & Hag & Hnd & _). pose proof HfB as (HpB & HndB & HnzB & HrootsB & HkidsB & _ & _).
  set (W := flat_map refs ts) in *. set (L := lbl st) in *. set (ts' := List.map (tmap L) ts).
  assert (HndL : NoDup (List.map L W)) by (eapply Permutation_NoDup; [exact HpB|exact HndB]).
  assert (Hroots' : children_of outB 0 = List.map root ts').
  { rewrite HrootsB. unfold ts'. rewrite !map_map. apply map_ext. intro t. now rewrite root_tmap. }
  assert (Hag' : Forall (agrees (children_of outB)) ts').
  { unfold ts'. apply Forall_forall. intros t' Ht'. apply in_map_iff in Ht'. destruct Ht' as (t & <- & Ht).
    rewrite Forall_forall in Hag. apply (agrees_tmap dom outB L W HkidsB t (Hag t Ht)).
    intros x Hx. unfold W. apply in_flat_map. eauto. }
  assert (Hrefs' : flat_map refs ts' = List.map L W) by apply frefs_tmap.
  assert (Hw : written outB (children_of outB 0) = List.map L W).
  { rewrite Hroots', (written_refs outB ts' Hag'); [exact Hrefs'|]. now rewrite Hrefs'. }
  assert (H0 : ~ In 0 (List.map L W)).
  { intro H. apply in_map_iff in H. destruct H as (r & E & Hr). now apply (HnzB r Hr). }
  split; [|split; [exact Hw|split; [rewrite Hw; now symmetry|]]].
  - split; [exact HndB|]. rewrite Hw. split; [exact HndL|]. split; [exact H0|].
    intros id i' Hid Hfi. apply in_map_iff in Hid. destruct Hid as (r & <- & Hr).
    destruct (enc_class_ids _ _ _ _ _ Hst) as (_ & _ & _ & _ & _ & Hall & Hcov & _).
    apply (relevant_written d ep dom ts st Hin Hst) in Hr. destruct (Hcov r Hr) as (ti & Hct). destruct (Hall _ _ Hct) as (Hfil & _ & _).
    assert (Hi : In r (ti_instances ti)) by (rewrite Hfil; apply filter_In; split; [exact Hr|unfold of_class; apply bytes_eqb_refl]).
    apply In_nth_error in Hi. destruct Hi as [k Hk].
    destruct (HiB _ ti k r Hct Hk) as (i'' & Hfi'' & _ & _ & _ & Hu). fold L in Hfi''. rewrite Hfi in Hfi''. injection Hfi'' as <-.
    set (ps := collect_props (read_props p R (class_of dom r, ti) k)) in *.
    assert (Hps : NoDup (List.map fst ps) /\ ~ In (B "Name") (List.map fst ps)).
    { split; [apply collect_props_nodup|]. intro Hin'. apply in_map_iff in Hin'. destruct Hin' as (kv & E & Hkv).
      apply collect_props_in in Hkv. apply (read_props_no_name p st R _ ti k Hct Hno kv Hkv). exact E. }
    destruct Hu as [->|(a & b0 & c0 & _ & ->)]; [exact Hps|]. destruct Hps as [P1 P2]. split; [now apply nodup_bupd|].
    unfold bupd. cbn [List.map fst]. intros [E|Hin']; [discriminate E|]. apply P2.
    apply in_map_iff in Hin'. destruct Hin' as (kv & E & Hkv). apply in_map_iff. exists kv. split; [exact E|]. exact (bremove_incl _ _ _ Hkv).
  - intros Hpm Hh Hrd He Hc. apply (xml_roundtrip e ebeh dbeh outB _ evs revs); try assumption.
    split; [exact HndB|]. rewrite Hw. split; [exact HndL|]. split; [exact H0|].
    (* (the property clause again, now as part of input_ok) *)
    intros id i' Hid Hfi. apply in_map_iff in Hid. destruct Hid as (r & <- & Hr).
    destruct (enc_class_ids _ _ _ _ _ Hst) as (_ & _ & _ & _ & _ & Hall & Hcov & _).
    apply (relevant_written d ep dom ts st Hin Hst) in Hr. destruct (Hcov r Hr) as (ti & Hct). destruct (Hall _ _ Hct) as (Hfil & _ & _).
    assert (Hi : In r (ti_instances ti)) by (rewrite Hfil; apply filter_In; split; [exact Hr|unfold of_class; apply bytes_eqb_refl]).
    apply In_nth_error in Hi. destruct Hi as [k Hk].
    destruct (HiB _ ti k r Hct Hk) as (i'' & Hfi'' & _ & _ & _ & Hu). fold L in Hfi''. rewrite Hfi in Hfi''. injection Hfi'' as <-.
    set (ps := collect_props (read_props p R (class_of dom r, ti) k)) in *.
    assert (Hps : NoDup (List.map fst ps) /\ ~ In (B "Name") (List.map fst ps)).
    { split; [apply collect_props_nodup|]. intro Hin'. apply in_map_iff in Hin'. destruct Hin' as (kv & E & Hkv).
      apply collect_props_in in Hkv. apply (read_props_no_name p st R _ ti k Hct Hno kv Hkv). exact E. }
    destruct Hu as [->|(a & b0 & c0 & _ & ->)]; [exact Hps|]. destruct Hps as [P1 P2]. split; [now apply nodup_bupd|].
    unfold bupd. cbn [List.map fst]. intros [E|Hin']; [discriminate E|]. apply P2.
    apply in_map_iff in Hin'. destruct Hin' as (kv & E & Hkv). apply in_map_iff. exists kv. split; [exact E|]. exact (bremove_incl _ _ _ Hkv).
Qed.
Print Assumptions binary_then_xml_partial.

(* K3 for the covered class (properties unknown to the database, simple columns): the reader's side is [plain_read], which
   files nothing under `Name` *)
Corollary binary_then_xml_unknown_partial d ep cmp dom ts b p st e ebeh dbeh evs revs :
  BinRoundTrip.input_ok dom ts -> names_ok dom -> unknown_props d dom ->
  encode_file d ep cmp dom (List.map root ts) = Ok b ->
  add_instances d ep dom (List.map root ts) = Ok st ->
  dp_lim p = None ->
  (forall e0, encode_chunks d ep dom (List.map root ts) = Ok e0 -> frame_ok p cmp e0) ->
  BinRoundTrip.sstr_ok st ->
  (forall x, In x (cols (ss_types st)) -> fst (snd x) <> NAME -> simple_col2 st (pi_type (snd (snd x))) (col_values ep dom x)) ->
  exists outB, decode_file d p b = Ok outB /\
    let roots' := children_of outB 0 in
    XmlRoundTrip.input_ok outB roots' /\
    written outB roots' = List.map (lbl st) (flat_map refs ts) /\
    Permutation (written outB roots') (List.map i_ref outB) /\
    (plain_mode e ebeh dbeh outB roots' -> hash_ok e -> readable_dom e outB roots' ->
     xml_encode e ebeh outB roots' = Ok evs -> channel evs = Ok revs ->
     exists outX, xml_decode e dbeh revs = Ok outX /\ XmlRoundTrip.same_forest e outB roots' outX).
Proof.
  intros Hin Hnames Hun Hf Hst Hlim Hfr Hss Hsimple.
  destruct (unknown_props_table d ep dom _ st Hun Hst) as (Hser & Hncol & Hdb & _).
  pose proof Hin as (_ & _ & Hag & Hnd & _). destruct (enc_relevant_postorder _ _ _ _ _ Hag Hnd Hst) as [_ Hndr].
  assert (Hlen : (Z.of_nat (length (ss_relevant st)) <= 2147483647)%Z).
  { destruct (encode_file_inv _ _ _ _ _ _ Hf) as (e0 & He0 & _).
    destruct (BinStructure.encode_chunks_inv _ _ _ _ _ He0) as (st' & _ & _ & _ & _ & Hst' & Hlen & _).
    assert (st' = st) by congruence. now subst st'. }
  apply (binary_then_xml_partial d ep cmp dom ts b p st (plain_read ep dom st) e ebeh dbeh evs revs Hin Hnames Hf Hst Hlim Hfr Hss Hser Hncol).
  - intros x Hx Hn. apply (simple_col2_law d ep p dom ts st x Hst Hndr Hlen Hlim Hss); [now apply Hdb|now apply Hsimple].
  - now apply plain_read_no_name.
Qed.
Print Assumptions binary_then_xml_unknown_partial.

Module Example3.
Import Example.
(* the example DOM: read from the binary file, written as XML, read again *)
Definition ex_outBX : cdom :=
  Eval vm_compute in match thru ex_e EWriteUnknown DReadUnknown ex_outB (children_of ex_outB 0) with Ok d => d | _ => [] end.

Lemma ex_outB_readable : readable_dom ex_e ex_outB (children_of ex_outB 0).
Proof.
  intros id i k v Hid Hf Hkv Hns. exists (norm_simple v). apply simple_law; [exact ex_float_laws| |exact Hns].
  assert (HW : written ex_outB (children_of ex_outB 0) = [2; 1; 3; 4]) by reflexivity. rewrite HW in Hid. cbn [In] in Hid.
  destruct Hid as [<-|[<-|[<-|[<-|[]]]]]; vm_compute in Hf; inversion Hf; subst i; cbn [i_props In] in Hkv;
    repeat (destruct Hkv as [Hkv|Hkv]; [inversion Hkv; subst; cbn [simple_ok]; try exact I; try lia; repeat constructor|]);
    try contradiction.
Qed.

Example binary_then_xml_example :
  decode_file db0 (dp0 None) ex_file = Ok ex_outB /\
  children_of ex_outB 0 = [2; 4] /\
  thru ex_e EWriteUnknown DReadUnknown ex_outB [2; 4] = Ok ex_outBX /\
  XmlRoundTrip.input_ok ex_outB [2; 4] /\
  Permutation (written ex_outB [2; 4]) (List.map i_ref ex_outB) /\
  XmlRoundTrip.same_forest ex_e ex_outB [2; 4] ex_outBX /\
  (* nothing is lost: the second read has the first read's classes, names and property maps (NaN canonicalised) *)
  List.map (fun i => (i_class i, i_name i)) ex_outBX
    = List.map (fun r => match find_inst ex_outB r with Some i => (i_class i, i_name i) | None => ([], []) end) (written ex_outB [2; 4]).
Proof.
  assert (HB : decode_file db0 (dp0 None) ex_file = Ok ex_outB) by (vm_compute; reflexivity).
  split; [exact HB|]. split; [reflexivity|]. split; [vm_compute; reflexivity|].
  destruct (xml_encode ex_e EWriteUnknown ex_outB [2; 4]) as [evs| | |] eqn:He; try (vm_compute in He; discriminate He).
  destruct (channel evs) as [revs| | |] eqn:Hc;
    try (assert (Hx : (evs0 <- xml_encode ex_e EWriteUnknown ex_outB [2; 4] ;; channel evs0) = channel evs) by (rewrite He; reflexivity);
         rewrite Hc in Hx; vm_compute in Hx; discriminate Hx).
  assert (Hd : xml_decode ex_e DReadUnknown revs = Ok ex_outBX).
  { assert (Hx : thru ex_e EWriteUnknown DReadUnknown ex_outB [2; 4] = xml_decode ex_e DReadUnknown revs)
      by (unfold thru; rewrite He; cbn [rbind]; rewrite Hc; reflexivity).
    rewrite <- Hx. vm_compute. reflexivity. }
  destruct (binary_then_xml_unknown_partial db0 ex_ep None ex_dom ex_ts ex_file (dp0 None) ex_st ex_e EWriteUnknown DReadUnknown evs revs
              ex_input_ok ex_names_ok ex_unknown_props ex_file_ok ex_st_ok eq_refl ex_frame_ok ex_sstr_ok ex_simple_cols)
    as (outB & HB' & Hin & _ & Hperm & Hleg).
  rewrite HB in HB'. injection HB' as <-. cbv zeta in Hin, Hperm, Hleg. change (children_of ex_outB 0) with [2; 4] in *.
  split; [exact Hin|]. split; [exact Hperm|]. split; [|vm_compute; reflexivity].
  destruct Hleg as (outX & HdX & Hsf); try assumption.
  - apply plain_mode_unknown_classes. reflexivity.
  - exact e_rt_hash_ok.
  - exact ex_outB_readable.
  - rewrite Hd in HdX. injection HdX as <-. exact Hsf.
Qed.

(* K1 on the example, through the file-level theorem [forest_iso] (the reader's acceptance of the PROP chunks computed) *)
Example forest_iso_example :
  dom_iso (lab_iso (lbl ex_st) (label [1; 2; 3; 5]) [1; 2; 3; 5]) ex_outB ex_outX.
Proof.
  destruct (xml_encode ex_e EWriteUnknown ex_dom [1; 5]) as [evs| | |] eqn:He; try (vm_compute in He; discriminate He).
  destruct (channel evs) as [revs| | |] eqn:Hc;
    try (assert (Hx : (evs0 <- xml_encode ex_e EWriteUnknown ex_dom [1; 5] ;; channel evs0) = channel evs) by (rewrite He; reflexivity);
         rewrite Hc in Hx; vm_compute in Hx; discriminate Hx).
  assert (Hd : xml_decode ex_e DReadUnknown revs = Ok ex_outX).
  { assert (Hx : thru ex_e EWriteUnknown DReadUnknown ex_dom [1; 5] = xml_decode ex_e DReadUnknown revs)
      by (unfold thru; rewrite He; cbn [rbind]; rewrite Hc; reflexivity).
    rewrite <- Hx. vm_compute. reflexivity. }
  assert (Hpo : props_ok ex_dom ex_ts) by (apply props_okb_sound; vm_compute; reflexivity).
  assert (Hpm : plain_mode ex_e EWriteUnknown DReadUnknown ex_dom (List.map root ex_ts)) by (apply plain_mode_unknown_classes; reflexivity).
  destruct (unknown_props_table db0 ex_ep ex_dom _ ex_st ex_unknown_props ex_st_ok) as (Hser & Hncol & _).
  destruct (forest_iso db0 ex_ep None ex_dom ex_ts ex_file (dp0 None) ex_st ex_e EWriteUnknown DReadUnknown plainD evs revs
              ex_input_ok ex_names_ok ex_file_ok ex_st_ok eq_refl Hser Hncol) as (outB & outX & HB & HX & Hiso).
  - intros e0 He0. split; [now apply ex_frame_ok|]. rewrite ex_enc_ok in He0. injection He0 as <-. eexists. vm_compute. reflexivity.
  - exact (hash_ok_bytes _ e_rt_hash_ok).
  - exact (readable_plain _ _ _ _ _ Hpm ex_readable).
  - exact (dec_law_plain _ _ _ _ _ (xml_input_ok _ _ ex_input_ok Hpo) Hpm).
  - exact He.
  - exact Hc.
  - rewrite Hd in HX. injection HX as <-.
    assert (HB' : decode_file db0 (dp0 None) ex_file = Ok ex_outB) by (vm_compute; reflexivity).
    rewrite HB' in HB. injection HB as <-. exact Hiso.
Qed.
End Example3.
Print Assumptions Example3.binary_then_xml_example.
Print Assumptions Example3.forest_iso_example.

(* ================================================================ 6. K3, the other direction: XML -> binary *)
(* Read an XML file, write what was read as a binary file.  RE-ESTABLISHED from the first read (xml_roundtrip): every hypothesis
   the BinRoundTrip theorems put on the encoder's INPUT — BinRoundTrip.input_ok for the relabelled forest (referents unique, class
   names valid, shapes read off children_of, no overlap, 0 not written), names_ok, and [props_ok]; the relabelled forest is the
   whole decoded DOM, in its order.  NOT re-established: the hypotheses on the encoder's class table and the column laws
   (sstr_ok, ser_names_ok, name_cols_ok, col_law / simple_col2: they concern the values the XML reader produced and the
   database), to be supplied as for any other DOM. *)
Theorem xml_then_binary_partial e ebeh dbeh dom ts evs revs :
  BinRoundTrip.input_ok dom ts -> props_ok dom ts -> names_ok dom ->
  plain_mode e ebeh dbeh dom (List.map root ts) -> hash_ok e -> readable_dom e dom (List.map root ts) ->
  xml_encode e ebeh dom (List.map root ts) = Ok evs -> channel evs = Ok revs ->
  exists outX, xml_decode e dbeh revs = Ok outX /\
    let ts' := List.map (tmap (label (flat_map refs ts))) ts in
    BinRoundTrip.input_ok outX ts' /\ names_ok outX /\ props_ok outX ts' /\
    List.map root ts' = children_of outX 0 /\ flat_map refs ts' = List.map i_ref outX.
Proof.
  intros Hin Hpo Hnames Hpm Hh Hrd He Hc. pose proof (xml_input_ok dom ts Hin Hpo) as HinX.
  destruct (xml_roundtrip e ebeh dbeh dom _ evs revs HinX Hpm Hh Hrd He Hc) as (outX & HdX & HsX).
  destruct (xml_roundtrip_forest e ebeh dbeh dom _ evs revs HinX Hpm (hash_ok_bytes e Hh) Hrd He Hc) as (outX' & HdX' & HfX).
  rewrite HdX in HdX'. injection HdX' as <-. exists outX. split; [exact HdX|]. cbv zeta.
  destruct Hin as (Hndd & Hcls & Hag & Hnd & H0).
  unfold XmlRoundTrip.same_forest in HsX. unfold forest_rel in HfX. cbv zeta in HsX, HfX. rewrite (written_refs dom ts Hag Hnd) in HsX, HfX.
  set (W := flat_map refs ts) in *. set (L := label W). destruct HsX as [HF Hl]. destruct HfX as (_ & _ & HrootsX & HkidsX).
  assert (HmapX : List.map i_ref outX = List.map L W).
  { clear - HF. induction HF as [|id i' l l' (i & _ & E & _) _ IH]; [reflexivity|]. cbn [List.map]. now rewrite E, IH. }
  assert (HndX : NoDup (List.map i_ref outX)) by (rewrite Hl; apply nodup_nseq).
  assert (Hsrc : Forall (fun iX => exists i, In i dom /\ i_class iX = i_class i /\ i_name iX = i_name i) outX).
  { eapply Forall2_Forall_r; [|exact HF]. intros id iX (i & Hf & _ & _ & Ec & En & _). exists i. split; [|auto].
    exact (proj1 (find_inst_some _ _ _ Hf)). }
  set (ts' := List.map (tmap L) ts).
  assert (Hrefs' : flat_map refs ts' = List.map L W) by apply frefs_tmap.
  split; [|split; [|split; [|split]]].
  - split; [exact HndX|]. split; [|split; [|split]].
    + unfold class_ok in *. rewrite Forall_forall in Hsrc, Hcls. apply Forall_forall. intros iX HiX. destruct (Hsrc iX HiX) as (i & Hi & -> & _). now apply Hcls.
    + unfold ts'. apply Forall_forall. intros t' Ht'. apply in_map_iff in Ht'. destruct Ht' as (t & <- & Ht).
      rewrite Forall_forall in Hag. apply (agrees_tmap dom outX L W HkidsX t (Hag t Ht)). intros x Hx. unfold W. apply in_flat_map. eauto.
    + rewrite Hrefs', <- HmapX. exact HndX.
    + rewrite Hrefs', <- HmapX, Hl. intro H. apply in_nseq in H. lia.
  - unfold names_ok. rewrite Forall_forall in Hsrc. unfold names_ok in Hnames. rewrite Forall_forall in Hnames. apply Forall_forall.
    intros iX HiX. destruct (Hsrc iX HiX) as (i & Hi & _ & ->). now apply Hnames.
  - intros r' i' Hr' Hf'. rewrite Hrefs' in Hr'. apply in_map_iff in Hr'. destruct Hr' as (r & <- & Hr).
    destruct (Forall2_in_l _ _ _ r HF Hr) as (iX & HiX & i & Hf & E1 & _ & _ & _ & Hnk & Hk).
    assert (Hf2 : find_inst outX (L r) = Some iX) by (unfold L; rewrite <- E1; now apply find_inst_nodup).
    rewrite Hf' in Hf2. injection Hf2 as <-. split; [exact Hnk|]. intro Hin'.
    destruct (Hpo r i Hr Hf) as [_ HnN]. apply HnN. specialize (Hk (B "Name")).
    destruct (bfind (B "Name") (i_props i)) as [v|] eqn:Ev.
    + apply bfind_in in Ev. apply in_map_iff. exists (B "Name", v). auto.
    + destruct (bfind (B "Name") (i_props i')) as [v'|] eqn:Ev'; [contradiction|]. exfalso. exact (bfind_none_notin _ _ Ev' Hin').
  - unfold ts'. rewrite HrootsX, !map_map. apply map_ext. intro t. now rewrite root_tmap.
  - now rewrite Hrefs', HmapX.
Qed.
Print Assumptions xml_then_binary_partial.

Module Example6.
Import Example.
(* the example DOM read from XML, then through the binary codec: the structural hypotheses come from the theorem, the binary
   round trip of what the XML reader produced is computed *)
Example xml_then_binary_example :
  thru ex_e EWriteUnknown DReadUnknown ex_dom [1; 5] = Ok ex_outX /\
  BinRoundTrip.input_ok ex_outX [Node 1 [Node 2 [Node 3 []]]; Node 4 []] /\ names_ok ex_outX /\
  props_ok ex_outX [Node 1 [Node 2 [Node 3 []]]; Node 4 []] /\
  children_of ex_outX 0 = [1; 4] /\ List.map i_ref ex_outX = [1; 2; 3; 4] /\
  exists b out2, encode_file db0 ex_ep None ex_outX [1; 4] = Ok b /\ decode_file db0 (dp0 None) b = Ok out2 /\
    List.map (fun i => (i_class i, i_name i)) out2 = [(B "Folder0", B "a"); (B "Thing", B "d"); (B "Folder0", B "b"); (B "Thing", B "c")].
Proof.
  split; [vm_compute; reflexivity|].
  destruct (xml_encode ex_e EWriteUnknown ex_dom [1; 5]) as [evs| | |] eqn:He; try (vm_compute in He; discriminate He).
  destruct (channel evs) as [revs| | |] eqn:Hc;
    try (assert (Hx : (evs0 <- xml_encode ex_e EWriteUnknown ex_dom [1; 5] ;; channel evs0) = channel evs) by (rewrite He; reflexivity);
         rewrite Hc in Hx; vm_compute in Hx; discriminate Hx).
  assert (Hd : xml_decode ex_e DReadUnknown revs = Ok ex_outX).
  { assert (Hx : thru ex_e EWriteUnknown DReadUnknown ex_dom [1; 5] = xml_decode ex_e DReadUnknown revs)
      by (unfold thru; rewrite He; cbn [rbind]; rewrite Hc; reflexivity).
    rewrite <- Hx. vm_compute. reflexivity. }
  assert (Hpo : props_ok ex_dom ex_ts) by (apply props_okb_sound; vm_compute; reflexivity).
  assert (Hpm : plain_mode ex_e EWriteUnknown DReadUnknown ex_dom (List.map root ex_ts)) by (apply plain_mode_unknown_classes; reflexivity).
  destruct (xml_then_binary_partial ex_e EWriteUnknown DReadUnknown ex_dom ex_ts evs revs ex_input_ok Hpo ex_names_ok Hpm e_rt_hash_ok ex_readable He Hc)
    as (outX & HdX & H1 & H2 & H3 & H4 & H5).
  rewrite Hd in HdX. injection HdX as <-.
  change (List.map (tmap (label (flat_map refs ex_ts))) ex_ts) with [Node 1 [Node 2 [Node 3 []]]; Node 4 []] in *.
  split; [exact H1|]. split; [exact H2|]. split; [exact H3|]. split; [reflexivity|]. split; [reflexivity|].
  eexists. eexists. split; [vm_compute; reflexivity|]. split; vm_compute; reflexivity.
Qed.
End Example6.
Print Assumptions Example6.xml_then_binary_example.

(* ================================================================ 7. a further difference outside the statement: unset properties *)
(* FINDING (recorded; not a counter-example to C06, which speaks of explicitly set properties only).  The binary format stores
   one value per instance of a class for every property ANY instance of the class has: an instance that lacks the property is
   written with the column default and read back WITH the property; the XML file has no element for it.  On BinFileFacts.sample_dom
   (instance 2 of class Folder0 lacks Q, instance 1 has it) the binary-decoded instance of 2 holds Q = false, the XML-decoded one
   has no Q.  So the two decoded DOMs agree on the explicitly set properties ([doms_agree]) but not on their key sets. *)
Example unset_property_differs :
  bfind (B "Q") (i_props (src sample_dom 2)) = None /\
  (exists b outB, encode_file db0 ep0 None sample_dom [1] = Ok b /\ decode_file db0 (dp0 None) b = Ok outB /\
     option_map (fun i => bfind (B "Q") (i_props i)) (find_inst outB (lbl SampleRoundTrip.sample_st 2)) = Some (Some (VBool false))) /\
  (exists outX, thru Example.ex_e EWriteUnknown DReadUnknown sample_dom [1] = Ok outX /\
     option_map (fun i => bfind (B "Q") (i_props i)) (find_inst outX (label [1; 2; 3] 2)) = Some None).
Proof.
  split; [reflexivity|]. split.
  - eexists. eexists. split; [vm_compute; reflexivity|]. split; vm_compute; reflexivity.
  - eexists. split; vm_compute; reflexivity.
Qed.
