(* XmlKnownProps.v — property C02, the XML round trip of properties the reflection database knows.
   Generic in the per-value law of the XML value codec ([vcodec]: which values are read back, as what); two instances:
   [simple_codec] (the 26 simple types of Proofs/XmlRoundTrip.v) and [ext_codec] (the remaining types, from Proofs/CrossFormat.v
   and, for Attributes, Proofs/AttrFacts.v attr_roundtrip under [wf_amap]).
   (H1) [known_write] / [known_read] / [known_prop_step]: what serialize_property writes and deserialize_property stores for a
        property spelled [k] (canonical name or alias) whose descriptors are (canon, ser), neither migrating; the composed
        value function [norm_known] and its characterisation ([norm_known_typed], [norm_simple_fixed], [norm_known_identity],
        [norm_known_color3_quantised], [norm_known_tags], [norm_known_brickcolor], [norm_known_attributes]).
   (H2) [xml_roundtrip_known]: the whole-file theorem for the default pairing EIgnoreUnknown / DIgnoreUnknown ([keep] = false) and
        for EWriteUnknown / DReadUnknown ([keep] = true): same forest, every known property back under its CANONICAL name with
        [norm_known] of its value, Refs relabelled, SharedStrings restored, unknown properties dropped (resp. kept as in the
        plain theorem).  A LEGACY (migrating) property is gone under its own name; the new canonical name holds the migrated value
        ([migrated_back]) when the legacy property is alone, the explicit value when the instance carries one
        ([explicit_value_stays]); values on which the migration is undefined are excluded by [mig_val_ok]
        ([migration_undefined_refuted]).
   (H3) the database hypotheses as two executable checks ([db_keys_ok], [db_names_ok]; [xml_roundtrip_known_db]), run over the
        whole bundled database ([bundled_keys_ok]: 22588 (class, key) pairs, migration targets included, two exceptions;
        [xml_roundtrip_known_bundled]).
   (H4) two spellings of one logical property on one instance ([two_spellings_*], [one_spelling_b_sound]).
   Findings: [seras_not_back_refuted], [seras_clash_refuted] (Sound.MaxDistance, MaterialService.Use2022Materials).
   Standard library only. *)
From Coq Require Import List NArith ZArith Bool Lia String Permutation Sorted.
From RbxVerif Require Import Base Bytes Value Db DbCheck CodecDom XmlEvents XmlValues XmlFile XmlInt XmlText XmlBase64 XmlCompound XmlCompound2
  XmlFileFacts XmlDeterminism XmlStructure XmlRoundTrip MigratePaths.
From RbxVerif Require BinValues.
Import ListNotations.
Open Scope list_scope.
Open Scope N_scope.

(* ================================================================= (0) small facts *)
Lemma S_bytes s : S_ (bytes_of_string s) = s.
Proof. apply mp_string_bytes. Qed.
Lemma B_inj s1 s2 : B s1 = B s2 -> s1 = s2.
Proof. intro H. rewrite <- (S_bytes s1), <- (S_bytes s2). unfold B in H. now rewrite H. Qed.

Definition special (v : value) : Prop := match v with VRef _ | VSharedString _ => True | _ => False end.
Lemma special_or v : special v \/ nonspecial v.
Proof. destruct v; cbn; auto. Qed.

(* conversion.rs never makes or unmakes a Ref or a SharedString *)
Lemma try_convert_special o v t : special v -> try_convert o v t = Ok v.
Proof. destruct v; try contradiction; reflexivity. Qed.
Lemma try_convert_nonspecial o v t w : nonspecial v -> try_convert o v t = Ok w -> nonspecial w.
Proof.
  intros Hns H. destruct v; try contradiction Hns; cbn [try_convert] in H; unfold ask in H.
  all: repeat match type of H with
         | context [if ?c then _ else _] => destruct c
         | context [match ?x with _ => _ end] => destruct x; cbn [rbind] in H
         end; try discriminate H; inversion H; exact I.
Qed.

Definition nonmig (p : pdesc) : Prop := match pd_kind p with KCanon (PMigrate _ _) => False | _ => True end.

Fixpoint filter_map {A C} (f : A -> option C) (l : list A) : list C :=
  match l with [] => [] | x :: r => match f x with Some y => y :: filter_map f r | None => filter_map f r end end.
Lemma in_filter_map {A C} (f : A -> option C) l y : In y (filter_map f l) <-> exists x, In x l /\ f x = Some y.
Proof.
  induction l as [|x r IH]; cbn [filter_map In]; [split; [tauto|intros (x & [] & _)]|].
  destruct (f x) as [y0|] eqn:E; cbn [In]; rewrite IH; split.
  - intros [<-|(x0 & H1 & H2)]; [exists x; auto|exists x0; auto].
  - intros (x0 & [<-|H1] & H2); [left; congruence|right; eauto].
  - intros (x0 & H1 & H2). exists x0; auto.
  - intros (x0 & [<-|H1] & H2); [congruence|eauto].
Qed.
Lemma filter_map_app {A C} (f : A -> option C) l1 l2 : filter_map f (l1 ++ l2) = filter_map f l1 ++ filter_map f l2.
Proof. induction l1 as [|x r IH]; [reflexivity|]. cbn [app filter_map]. destruct (f x); cbn [app]; now rewrite IH. Qed.
Lemma filter_map_map {A A' C} (g : A -> A') (f : A' -> option C) l : filter_map f (List.map g l) = filter_map (fun x => f (g x)) l.
Proof. induction l as [|x r IH]; [reflexivity|]. cbn [List.map filter_map]. destruct (f (g x)); now rewrite IH. Qed.
Lemma filter_map_ext_in {A C} (f g : A -> option C) l : (forall x, In x l -> f x = g x) -> filter_map f l = filter_map g l.
Proof.
  induction l as [|x r IH]; intro H; [reflexivity|]. cbn [filter_map]. rewrite (H x (or_introl eq_refl)).
  rewrite IH by (intros y Hy; apply H; now right). reflexivity.
Qed.
Lemma map_filter_map {A C E} (g : C -> E) (f : A -> option C) l : List.map g (filter_map f l) = filter_map (fun x => option_map g (f x)) l.
Proof. induction l as [|x r IH]; [reflexivity|]. cbn [filter_map]. destruct (f x); cbn [option_map List.map]; now rewrite IH. Qed.
Lemma nodup_filter_map {A C} (key : A -> bytes) (f : A -> option C) (g : C -> bytes) l :
  NoDup (List.map key l) ->
  (forall a b y1 y2, In a l -> In b l -> f a = Some y1 -> f b = Some y2 -> g y1 = g y2 -> key a = key b) ->
  NoDup (List.map g (filter_map f l)).
Proof.
  induction l as [|x r IH]; intros Hnd Hinj; [constructor|]. cbn [List.map] in Hnd. inversion Hnd as [|? ? Hn Hd]; subst.
  assert (IH' : NoDup (List.map g (filter_map f r))).
  { apply IH; [exact Hd|]. intros a b y1 y2 Ha Hb. apply Hinj; now right. }
  cbn [filter_map]. destruct (f x) as [y|] eqn:E; [|exact IH']. cbn [List.map]. constructor; [|exact IH'].
  intro Hin. apply in_map_iff in Hin. destruct Hin as (y' & Ey & Hy'). apply in_filter_map in Hy'. destruct Hy' as (x' & Hx' & Ex').
  apply Hn. rewrite (Hinj x x' y y' (or_introl eq_refl) (or_intror Hx') E Ex' (eq_sym Ey)). now apply in_map.
Qed.

(* the per-value law of the XML value codec, as a parameter: the values [vc_ok] (other than Refs and SharedStrings), written by
   write_xml into a property element and sent through the channel, are read back by read_value_xml as [vc_norm] *)
Record vcodec (o : xoracle) : Type := mkVC {
  vc_ok : value -> Prop;
  vc_norm : value -> value;
  vc_law : forall w, vc_ok w -> nonspecial w -> vlaw o w (vc_norm w)
}.
Arguments vc_ok {o} _ _.
Arguments vc_norm {o} _ _.
Arguments vc_law {o} _ _ _ _.
(* the 26 simple value types of Proofs/XmlRoundTrip.v, given the two float-text laws *)
Definition simple_codec (o : xoracle) (H : float_laws o) : vcodec o :=
  mkVC o simple_ok norm_simple (fun w Hs Hn => simple_law o w H Hs Hn).
Lemma p_ok_dval_gen e (vc : vcodec (xe_o e)) m dict p :
  p_ok e m dict p -> nonspecial (p_src p) -> vc_ok vc (p_src p) -> p_dval p = vc_norm vc (p_src p).
Proof.
  intros Hp Hns Hs. destruct p as [pn r txt|pn c h|pn w revs v' tag inner]; cbn [p_src] in *; try contradiction.
  cbn [p_ok p_dval] in *. destruct Hp as (_ & Hw & _ & _ & _ & Hv).
  apply (vlaw_fun (xe_o e) w); [eexists _, _; exact Hw|exact Hv|apply vc_law; assumption].
Qed.

(* ================================================================= (1) H1: one known property through the writer and the reader *)
(* the composed value function: the writer converts to the serialized type, the value level reads back [nrm] of that ([norm_simple] for the simple types),
   the reader converts to the canonical type.  (A Ref / a SharedString is not touched by either conversion; what becomes of
   it is the business of the two rewrite passes: see [value_known_back].) *)
Definition norm_known (o : xoracle) (nrm : value -> value) (sty cty : N) (v : value) : res value :=
  w <- try_convert o v sty ;;
  match w with
  | VRef _ | VSharedString _ => Ok w
  | _ => try_convert o (nrm w) cty
  end.

Section Step.
  Variable e : xenv.
  Let o := xe_o e.

  (* --- the writer *)
  Lemma known_write ebeh c keys k v canon ser w :
    ebeh <> ENoReflection ->
    find_desc_xml (xe_db e) (S_ c) (S_ k) = Ok (Some (canon, ser)) -> nonmig ser ->
    try_convert o v (dtype_vt (pd_type ser)) = Ok w ->
    ser_plan e ebeh c keys k v = Ok (Some (B (pd_name ser), w)).
  Proof.
    intros Hb Hd Hm Hc. unfold ser_plan.
    assert (E : match ebeh with ENoReflection => Ok None | _ => find_desc_xml (xe_db e) (S_ c) (S_ k) end = Ok (Some (canon, ser)))
      by (destruct ebeh; try exact Hd; congruence).
    rewrite E. cbn [rbind]. fold o. rewrite Hc. cbn [rbind]. unfold nonmig in Hm.
    destruct (pd_kind ser) as [[| | |to op]|]; try contradiction; reflexivity.
  Qed.

  Lemma known_write_events ebeh c keys st k v canon ser w :
    ebeh <> ENoReflection ->
    find_desc_xml (xe_db e) (S_ c) (S_ k) = Ok (Some (canon, ser)) -> nonmig ser ->
    try_convert o v (dtype_vt (pd_type ser)) = Ok w ->
    serialize_property e ebeh c keys st k v = write_value_xml e st (B (pd_name ser)) w.
  Proof.
    intros Hb Hd Hm Hc. rewrite serialize_property_plan, (known_write ebeh c keys k v canon ser w Hb Hd Hm Hc). reflexivity.
  Qed.

  (* --- the reader: what [refl_plan] (the reader's step as a function of the element) is for a described element *)
  Lemma refl_plan_known dbeh c p canon ser' conv :
    dbeh <> DNoReflection ->
    find_desc_xml (xe_db e) (S_ c) (S_ (p_name p)) = Ok (Some (canon, ser')) -> nonmig canon ->
    try_convert o (p_dval p) (dtype_vt (pd_type canon)) = Ok conv ->
    refl_plan e dbeh c p = (Some (B (pd_name canon)), fun props => bupd (B (pd_name canon)) conv props).
  Proof.
    intros Hb Hd Hm Hc. unfold refl_plan. fold o. rewrite Hd, Hc. unfold nonmig in Hm.
    destruct dbeh; try congruence; destruct (pd_kind canon) as [[| | |to op]|]; try contradiction; reflexivity.
  Qed.

  Lemma refl_step_known dbeh c p canon ser' conv :
    find_desc_xml (xe_db e) (S_ c) (S_ (p_name p)) = Ok (Some (canon, ser')) -> nonmig canon ->
    try_convert o (p_dval p) (dtype_vt (pd_type canon)) = Ok conv ->
    refl_step_ok e dbeh c p.
  Proof.
    intros Hd Hm Hc. unfold refl_step_ok. fold o. rewrite Hd. unfold nonmig in Hm.
    destruct dbeh; try exact I; (exists conv; split; [exact Hc|]; destruct (pd_kind canon) as [[| | |to op]|]; try contradiction; exact I).
  Qed.

  (* the element [p] (whatever was written for it: [p_reads]) met by deserialize_property under the serialized name: the value
     read back, converted to the canonical type, is stored under the canonical name, and the rewrites a Ref / a SharedString
     queues are filed under the canonical name *)
  Lemma known_read dbeh c p canon ser' conv :
    dbeh <> DNoReflection -> p_reads e p ->
    find_desc_xml (xe_db e) (S_ c) (S_ (p_name p)) = Ok (Some (canon, ser')) -> nonmig canon ->
    try_convert o (p_dval p) (dtype_vt (pd_type canon)) = Ok conv ->
    chan_elems (p_wev p) (p_rev p) /\
    exists ty tail, p_rev p = RStart ty (name_attr (p_name p)) :: tail /\
      forall st id props e0 rest, nonchar e0 ->
        deserialize_property e dbeh c id ty (p_name p) st props (p_rev p ++ e0 :: rest)
        = Ok ((rqueue st id (B (pd_name canon)) p, bupd (B (pd_name canon)) conv props), e0 :: rest).
  Proof.
    intros Hb Hr Hd Hm Hc.
    destruct (refl_good e dbeh c p Hr (refl_step_known dbeh c p canon ser' conv Hd Hm Hc)) as (Hch & ty & tail & Eh & Hread).
    split; [exact Hch|]. exists ty, tail. split; [exact Eh|]. intros st id props e0 rest He0.
    rewrite (Hread st id props e0 rest He0). unfold queue, reflD. cbn [do_rw do_srw do_store].
    rewrite (refl_plan_known dbeh c p canon ser' conv Hb Hd Hm Hc). reflexivity.
  Qed.
End Step.

(* --- H1, composed: a property spelled [k] (canonical name or alias) of an instance of class [c]; the database gives
   (canon, ser) for [k], neither migrating, and gives [canon] again for the serialized name; the value is not a Ref or a
   SharedString, the serialized value is covered by the per-value law [vc].  serialize_property writes exactly one element, named [pd_name ser],
   holding the converted value; deserialize_property, on the channelled events, stores [norm_known] of the value under
   [pd_name canon] and queues nothing. *)
Theorem known_prop_step e (vc : vcodec (xe_o e)) ebeh dbeh c keys st k v canon ser ser' ev st' :
  ebeh <> ENoReflection -> dbeh <> DNoReflection ->
  find_desc_xml (xe_db e) (S_ c) (S_ k) = Ok (Some (canon, ser)) -> nonmig ser -> nonmig canon ->
  find_desc_xml (xe_db e) (S_ c) (pd_name ser) = Ok (Some (canon, ser')) ->
  nonspecial v ->
  (forall w, try_convert (xe_o e) v (dtype_vt (pd_type ser)) = Ok w -> vc_ok vc w) ->
  serialize_property e ebeh c keys st k v = Ok (ev, st') ->
  exists w tag inner revs,
    try_convert (xe_o e) v (dtype_vt (pd_type ser)) = Ok w /\ write_xml (xe_o e) w = Some (tag, Ok inner) /\
    st' = st /\ ev = WStart tag (name_attr (B (pd_name ser))) :: inner ++ [WEnd] /\
    chan_elems ev revs /\
    forall v', norm_known (xe_o e) (vc_norm vc) (dtype_vt (pd_type ser)) (dtype_vt (pd_type canon)) v = Ok v' ->
      forall dst id props e0 rest, nonchar e0 ->
        deserialize_property e dbeh c id tag (B (pd_name ser)) dst props (revs ++ e0 :: rest)
        = Ok ((dst, bupd (B (pd_name canon)) v' props), e0 :: rest).
Proof.
  intros Hb Hdb Hd Hms Hmc Hback Hns Hsimple Hser.
  destruct (try_convert (xe_o e) v (dtype_vt (pd_type ser))) as [w| |cc|] eqn:Hc.
  2-4: unfold serialize_property in Hser;
       assert (E : match ebeh with ENoReflection => Ok None | _ => find_desc_xml (xe_db e) (S_ c) (S_ k) end = Ok (Some (canon, ser)))
         by (destruct ebeh; try exact Hd; congruence);
       rewrite E in Hser; cbn [rbind] in Hser; rewrite Hc in Hser; try destruct (cc =? DE_CONVERT); discriminate Hser.
  rewrite (known_write_events e ebeh c keys st k v canon ser w Hb Hd Hms Hc) in Hser.
  pose proof (try_convert_nonspecial _ _ _ _ Hns Hc) as Hnsw. pose proof (Hsimple w eq_refl) as Hsw.
  destruct (enc_value e st (B (pd_name ser)) w ev st' (fun _ => ex_intro _ (vc_norm vc w) (vc_law vc w Hsw Hnsw)) Hser)
    as (_ & p & Hpn & Hps & Hev & Hok).
  specialize (Hok st' (st_le_refl st')).
  destruct p as [pn r txt|pn cc h|pn w0 revs v0 tag inner]; cbn [p_src p_name] in Hps, Hpn; subst; try contradiction Hnsw.
  pose proof (p_ok_dval_gen e vc _ _ _ Hok Hnsw Hsw) as Hdv. cbn [p_dval p_src] in Hdv. subst v0.
  pose proof (p_ok_reads _ _ _ _ Hok) as Hreads.
  cbn [p_ok] in Hok. destruct Hok as (_ & Hw & _ & Hch & _ & _).
  exists w, tag, inner, revs. split; [reflexivity|]. split; [exact Hw|].
  rewrite (wvx_nonspecial _ _ _ _ Hnsw), Hw in Hser. cbn [rbind] in Hser.
  assert (Est : st' = st) by (inversion Hser; reflexivity). split; [exact Est|]. split; [reflexivity|].
  split; [exact (proj1 Hreads)|].
  intros v' Hnk dst id props e0 rest He0. unfold norm_known in Hnk. rewrite Hc in Hnk. cbn [rbind] in Hnk.
  assert (Hconv : try_convert (xe_o e) (vc_norm vc w) (dtype_vt (pd_type canon)) = Ok v') by (destruct w; try contradiction Hnsw; exact Hnk).
  set (p := PVal (B (pd_name ser)) w revs (vc_norm vc w) tag inner) in *.
  assert (Hd' : find_desc_xml (xe_db e) (S_ c) (S_ (p_name p)) = Ok (Some (canon, ser'))).
  { cbn [p p_name]. unfold B. rewrite S_bytes. exact Hback. }
  destruct (known_read e dbeh c p canon ser' v' Hdb Hreads Hd' Hmc Hconv) as (_ & ty & tail & Eh & Hread).
  assert (Ety : ty = tag).
  { cbn [p p_rev] in Eh. cbn [chan_go] in Hch. destruct (chan_go [tag] t0 (inner ++ [WEnd])) as [r| |c0|]; cbn [rbind] in Hch; try discriminate.
    rewrite Eh in Hch. inversion Hch. reflexivity. }
  subst ty. specialize (Hread dst id props e0 rest He0). cbn [p p_name p_rev] in Hread. rewrite Hread.
  rewrite rqueue_nil by reflexivity. reflexivity.
Qed.
Print Assumptions known_prop_step.

(* ---- [norm_known] is the identity except for the documented normalisations *)
Lemma try_convert_own o v : try_convert o v (vtype v) = Ok v.
Proof. destruct v; reflexivity. Qed.
Lemma vtype_norm_simple v : vtype (norm_simple v) = vtype v.
Proof. destruct v; reflexivity. Qed.

(* a value of the declared type of a property serialized under its own type: only the value-level normalisation is left *)
Theorem norm_known_typed o v : norm_known o norm_simple (vtype v) (vtype v) v = Ok (norm_simple v).
Proof.
  unfold norm_known. rewrite try_convert_own. cbn [rbind].
  destruct v; try reflexivity; rewrite <- vtype_norm_simple at 1; apply try_convert_own.
Qed.

(* the value-level normalisation: the canonical NaN in every float, a Font's weight / style clamped; nothing else *)
Definition f32_plain (x : f32) : Prop := f32_is_nan x = false.
Definition v2_plain (v : vec2) : Prop := f32_plain (v2x v) /\ f32_plain (v2y v).
Definition v3_plain (v : vec3) : Prop := f32_plain (vx v) /\ f32_plain (vy v) /\ f32_plain (vz v).
Definition nan_free (v : value) : Prop :=
  match v with
  | VFloat32 x => f32_plain x
  | VFloat64 x => f64_is_nan x = false
  | VVector3 v => v3_plain v
  | VVector2 v => v2_plain v
  | VColor3 r g b => f32_plain r /\ f32_plain g /\ f32_plain b
  | VRect lo hi => v2_plain lo /\ v2_plain hi
  | VRay a b => v3_plain a /\ v3_plain b
  | VPhysicalProperties (Some p) =>
      f32_plain (ph_density p) /\ f32_plain (ph_friction p) /\ f32_plain (ph_elasticity p) /\
      f32_plain (ph_friction_weight p) /\ f32_plain (ph_elasticity_weight p)
  | VUDim u => f32_plain (ud_scale u)
  | VUDim2 x y => f32_plain (ud_scale x) /\ f32_plain (ud_scale y)
  | VFont f => font_weight_ok (fo_weight f) = true /\ (fo_style f = 0 \/ fo_style f = 1)
  | _ => True
  end.
Lemma norm_f32_plain x : f32_plain x -> norm_f32 x = x.
Proof. unfold f32_plain, norm_f32. now intros ->. Qed.
Lemma norm_v2_plain v : v2_plain v -> norm_v2 v = v.
Proof. destruct v as [x y]. intros [H1 H2]. unfold norm_v2. cbn [v2x v2y] in *. now rewrite !norm_f32_plain. Qed.
Lemma norm_v3_plain v : v3_plain v -> norm_v3 v = v.
Proof. destruct v as [x y z]. intros (H1 & H2 & H3). unfold norm_v3. cbn [vx vy vz] in *. now rewrite !norm_f32_plain. Qed.
Theorem norm_simple_fixed v : nan_free v -> norm_simple v = v.
Proof.
  destruct v; cbn [nan_free norm_simple]; intro H; try reflexivity.
  - destruct H as (H1 & H2 & H3). now rewrite !norm_f32_plain.
  - now rewrite norm_f32_plain.
  - unfold norm_f64. now rewrite H.
  - destruct p as [[d f e0 fw ew]|]; [|reflexivity]. cbn [ph_density ph_friction ph_elasticity ph_friction_weight ph_elasticity_weight] in H.
    destruct H as (H1 & H2 & H3 & H4 & H5). cbn [norm_phys ph_density ph_friction ph_elasticity ph_friction_weight ph_elasticity_weight].
    now rewrite !norm_f32_plain.
  - destruct H as [H1 H2]. now rewrite !norm_v3_plain.
  - destruct H as [H1 H2]. now rewrite !norm_v2_plain.
  - destruct u as [s off]. unfold norm_udim. cbn [ud_scale ud_offset] in *. now rewrite norm_f32_plain.
  - destruct x as [s1 o1], y as [s2 o2]. destruct H as [H1 H2]. unfold norm_udim. cbn [ud_scale ud_offset] in *. now rewrite !norm_f32_plain.
  - now rewrite norm_v2_plain.
  - now rewrite norm_v3_plain.
  - destruct H as [H1 H2]. f_equal. now apply norm_font_wf.
Qed.
(* a value of the declared type without NaN (and, for a Font, with a legal weight and style) comes back as it is *)
Corollary norm_known_identity o v : nan_free v -> norm_known o norm_simple (vtype v) (vtype v) v = Ok v.
Proof. intro H. rewrite norm_known_typed, norm_simple_fixed by exact H. reflexivity. Qed.

(* the one conversion between a canonical and a serialized type that changes a value of the declared type: a Color3 in a
   property serialized as Color3uint8 (Part.Color, ...) is quantised, and comes back as the Color3uint8 (whatever the
   canonical type: conversion.rs has no way back) *)
Theorem norm_known_color3_quantised o cty r g b r' g' b' :
  xo_quant o r = Some r' -> xo_quant o g = Some g' -> xo_quant o b = Some b' ->
  norm_known o norm_simple XT_Color3uint8 cty (VColor3 r g b) = Ok (VColor3uint8 r' g' b').
Proof.
  intros H1 H2 H3. unfold norm_known. cbn [try_convert]. change (XT_Color3uint8 =? XT_Color3uint8) with true. cbv iota.
  rewrite H1, H2, H3. reflexivity.
Qed.
(* values that are not of the declared type but that conversion.rs accepts: widened on the way out *)
Lemma norm_known_int32_in_int64 o z : norm_known o norm_simple XT_Int64 XT_Int64 (VInt32 z) = Ok (VInt64 z).
Proof. reflexivity. Qed.
Lemma norm_known_float32_in_float64 o x : norm_known o norm_simple XT_Float64 XT_Float64 (VFloat32 x) = Ok (VFloat64 (norm_f64 (BinValues.f64_of_f32 x))).
Proof. reflexivity. Qed.

(* ================================================================= (2) H2: the hypotheses, per class and per property *)
(* the two pairings of behaviours covered: the defaults (unknown properties are dropped by the writer; the reader would drop
   them too), and WriteUnknown / ReadUnknown (unknown properties travel as they stand) *)
Definition ebeh_of (keep : bool) : ebehavior := if keep then EWriteUnknown else EIgnoreUnknown.
Definition dbeh_of (keep : bool) : dbehavior := if keep then DReadUnknown else DIgnoreUnknown.

Definition rename (p : pelem) (t : bytes) (val : value) : pelem :=
  match p with
  | PRef _ r txt => PRef t r txt
  | PShared _ c h => PShared t c h
  | PVal _ w revs _ tag inner => PVal t w revs val tag inner
  end.
Lemma rename_name p t v : p_name (rename p t v) = t.
Proof. destruct p; reflexivity. Qed.
Lemma rename_rwn L p t v : p_rwn L t (rename p t v) = p_rwn L t p.
Proof. destruct p; reflexivity. Qed.
Lemma rename_srwn L p t v : p_srwn L t (rename p t v) = p_srwn L t p.
Proof. destruct p; reflexivity. Qed.
Lemma rename_final refs known p t v :
  p_final refs known (rename p t v) = match p with PVal _ _ _ _ _ _ => v | _ => p_final refs known p end.
Proof. destruct p; reflexivity. Qed.

Section Known.
  Variables (e : xenv) (vc : vcodec (xe_o e)) (keep : bool).
  Let o := xe_o e.
  Let ebeh := ebeh_of keep.
  Let dbeh := dbeh_of keep.

  Definition kdesc (c k : bytes) : res (option (pdesc * pdesc)) := find_desc_xml (xe_db e) (S_ c) (S_ k).
  (* the key under which the property spelled [k] comes back: the canonical name; its own name if the database does not know it
     and unknown properties are kept; none if they are dropped *)
  Definition tkey (c k : bytes) : option bytes :=
    match kdesc c k with
    | Ok (Some (canon, _)) => Some (B (pd_name canon))
    | Ok None => if keep then Some k else None
    | _ => None
    end.

  (* the value conditions: the writer's conversion to the serialized type succeeds and gives a value the per-value law covers; the
     reader's conversion of what is read back to the canonical type succeeds *)
  Definition val_ok (sty cty : N) (v : value) : Prop :=
    match v with
    | VRef _ => True
    | VSharedString _ => try_convert o (VBinaryString []) cty = Ok (VBinaryString [])
    | _ => exists w, try_convert o v sty = Ok w /\ vc_ok vc w /\ exists v', try_convert o (vc_norm vc w) cty = Ok v'
    end.

  (* ---- legacy (migrating) properties.  [keys] are the keys of the instance, as the writer passes them to
     has_explicit_new_value (sorted). *)
  Definition mig_of (p : pdesc) : option (string * migop) :=
    match pd_kind p with KCanon (PMigrate q op) => Some (q, op) | _ => None end.
  (* the instance carries an explicit value of the migration target [q] of its legacy key [k] (62703803) *)
  Definition explicit_b (c : bytes) (keys : list bytes) (k : bytes) (q : string) : bool :=
    match has_explicit_new_value e c k q keys with Ok true => true | _ => false end.
  (* the element name the writer uses for the key [k], if it writes it at all *)
  Definition wname (c : bytes) (keys : list bytes) (k : bytes) : option bytes :=
    match kdesc c k with
    | Ok (Some (_, ser)) =>
        match mig_of ser with
        | Some (q, _) => if explicit_b c keys k q then None else Some (B q)
        | None => Some (B (pd_name ser))
        end
    | Ok None => if keep then Some k else None
    | _ => None
    end.
  (* the key under which the property spelled [k] of an instance with keys [keys] comes back, if it does *)
  Definition okey (c : bytes) (keys : list bytes) (k : bytes) : option bytes :=
    match wname c keys k with Some pn => tkey c pn | None => None end.
  (* the value of a legacy property: the writer's conversion succeeds and, unless an explicit new value makes the writer skip
     it, the migration is DEFINED on it (Enum.Font items above 45, BrickColor numbers outside the palette ... are excluded
     here: Proofs/MigratePaths.v migrate_failure_paths_disagree_refuted, bundled_font_46_unmigratable), its result is covered
     by the per-value law and converts to the type of the new property *)
  Definition mig_val_ok (op : migop) (sty cty : N) (explicit : bool) (v : value) : Prop :=
    exists conv, try_convert o v sty = Ok conv /\
      (explicit = false ->
       exists nv, migrate (xe_font e) (xe_brick e) op conv = Some nv /\ vc_ok vc nv /\
                  exists v', try_convert o (vc_norm vc nv) cty = Ok v').

  Definition known_prop_ok (c : bytes) (keys : list bytes) (k : bytes) (v : value) : Prop :=
    match kdesc c k with
    | Ok (Some (canon, ser)) =>
        match mig_of ser with
        | Some (q, op) =>
            (exists b, has_explicit_new_value e c k q keys = Ok b) /\
            (forall k2, In k2 keys -> okey c keys k2 <> Some k) /\
            exists qd qs, find_desc_xml (xe_db e) (S_ c) q = Ok (Some (qd, qs)) /\ nonmig qd /\ pd_name qd <> "Name"%string /\
                          mig_val_ok op (dtype_vt (pd_type ser)) (dtype_vt (pd_type qd)) (explicit_b c keys k q) v
        | None =>
            nonmig ser /\ nonmig canon /\
            (exists ser', find_desc_xml (xe_db e) (S_ c) (pd_name ser) = Ok (Some (canon, ser'))) /\
            pd_name canon <> "Name"%string /\
            val_ok (dtype_vt (pd_type ser)) (dtype_vt (pd_type canon)) v
        end
    | Ok None => if keep then nonspecial v -> vc_ok vc v else True
    | _ => False
    end.
  Definition name_ok (c : bytes) : Prop :=
    find_desc_xml (xe_db e) (S_ c) "Name" = Ok None \/
    exists canon ser, find_desc_xml (xe_db e) (S_ c) "Name" = Ok (Some (canon, ser)) /\ pd_name canon = "Name"%string /\ nonmig canon.
  (* one spelling per logical property: no two keys of the instance come back under one key *)
  Definition one_spelling (c : bytes) (keys : list bytes) : Prop :=
    forall k1 k2 t, In k1 keys -> In k2 keys -> okey c keys k1 = Some t -> okey c keys k2 = Some t -> k1 = k2.

  Lemma dbeh_refl : dbeh <> DNoReflection.
  Proof. unfold dbeh, dbeh_of. destruct keep; discriminate. Qed.
  Lemma ebeh_refl : ebeh <> ENoReflection.
  Proof. unfold ebeh, ebeh_of. destruct keep; discriminate. Qed.
  Lemma mig_of_none p : mig_of p = None <-> nonmig p.
  Proof. unfold mig_of, nonmig. destruct (pd_kind p) as [[| | |q op]|]; split; intro H; try exact I; try reflexivity; try discriminate; contradiction. Qed.
  Lemma mig_of_some p q op : mig_of p = Some (q, op) <-> pd_kind p = KCanon (PMigrate q op).
  Proof. unfold mig_of. destruct (pd_kind p) as [[| | |q' op']|]; split; intro H; try discriminate; inversion H; reflexivity. Qed.

  (* ---- the writer's plan *)
  Definition wplan (c : bytes) (keys : list bytes) (kv : bytes * value) : option (bytes * value) :=
    match kdesc c (fst kv) with
    | Ok (Some (_, ser)) =>
        match try_convert o (snd kv) (dtype_vt (pd_type ser)) with
        | Ok w =>
            match mig_of ser with
            | Some (q, op) =>
                if explicit_b c keys (fst kv) q then None
                else match migrate (xe_font e) (xe_brick e) op w with
                     | Some nv => Some (B q, nv)
                     | None => Some (B (pd_name ser), w)
                     end
            | None => Some (B (pd_name ser), w)
            end
        | _ => None
        end
    | Ok None => if keep then Some kv else None
    | _ => None
    end.

  Lemma val_ok_conv sty cty v : val_ok sty cty v -> exists w, try_convert o v sty = Ok w.
  Proof. destruct (special_or v) as [Hs|Hn]; [intros _; exists v; now apply try_convert_special|]. destruct v; try contradiction Hn; intros (w & H & _); eauto. Qed.

  Lemma ser_plan_wplan c keys k v : known_prop_ok c keys k v -> ser_plan e ebeh c keys k v = Ok (wplan c keys (k, v)).
  Proof.
    unfold known_prop_ok, wplan. cbn [fst snd]. destruct (kdesc c k) as [[[canon ser]|]| |cc|] eqn:Ek; try contradiction.
    - destruct (mig_of ser) as [[q op]|] eqn:Em.
      + intros ((b & Hb) & _ & qd & qs & _ & _ & _ & conv & Hcv & _). fold o. rewrite Hcv.
        apply mig_of_some in Em. unfold ser_plan.
        assert (E : match ebeh with ENoReflection => Ok None | _ => find_desc_xml (xe_db e) (S_ c) (S_ k) end = Ok (Some (canon, ser)))
          by (pose proof ebeh_refl; destruct ebeh; try exact Ek; congruence).
        rewrite E. cbn [rbind]. fold o. rewrite Hcv. cbn [rbind]. rewrite Em. unfold explicit_b. rewrite Hb. cbn [rbind].
        destruct b; [reflexivity|]. destruct (migrate (xe_font e) (xe_brick e) op conv); reflexivity.
      + intros (Hms & _ & _ & _ & Hv). destruct (val_ok_conv _ _ _ Hv) as (w & Hw). fold o. rewrite Hw.
        exact (known_write e ebeh c keys k v canon ser w ebeh_refl Ek Hms Hw).
    - intros _. unfold ser_plan, ebeh, ebeh_of. unfold kdesc in Ek. destruct keep; rewrite Ek; reflexivity.
  Qed.

  Lemma plan_list_spec c keys : forall ps, (forall k v, In (k, v) ps -> known_prop_ok c keys k v) ->
    plan_list e ebeh c keys ps = Ok (filter_map (wplan c keys) ps).
  Proof.
    induction ps as [|[k v] ps IH]; intro H; [reflexivity|]. cbn [plan_list filter_map].
    rewrite (ser_plan_wplan c keys k v (H k v (or_introl eq_refl))). cbn [rbind].
    rewrite IH by (intros k0 v0 Hin; apply H; now right). cbn [rbind]. destruct (wplan c keys (k, v)); reflexivity.
  Qed.

  (* the element name of what is planned for a key *)
  Lemma wname_wplan c keys k v pn w : known_prop_ok c keys k v -> wplan c keys (k, v) = Some (pn, w) -> wname c keys k = Some pn.
  Proof.
    unfold known_prop_ok, wplan, wname. cbn [fst snd]. destruct (kdesc c k) as [[[canon ser]|]| |cc|]; try contradiction.
    - destruct (mig_of ser) as [[q op]|].
      + intros (_ & _ & qd & qs & _ & _ & _ & conv & Hcv & Hmig). fold o. rewrite Hcv.
        destruct (explicit_b c keys k q) eqn:Ex; [discriminate|]. destruct (Hmig eq_refl) as (nv & Hnv & _). rewrite Hnv.
        intro E. inversion E. reflexivity.
      + intros _. destruct (try_convert o v (dtype_vt (pd_type ser))); try discriminate. intro E. inversion E. reflexivity.
    - destruct keep; [|discriminate]. intros _ E. inversion E. reflexivity.
  Qed.

  (* ---- the reader's step on an element *)
  Definition rval (c : bytes) (p : pelem) : value :=
    match kdesc c (p_name p) with
    | Ok (Some (canon, _)) => match try_convert o (p_dval p) (dtype_vt (pd_type canon)) with Ok conv => conv | _ => p_dval p end
    | _ => p_dval p
    end.
  Definition rd_ok (c : bytes) (p : pelem) : Prop :=
    match kdesc c (p_name p) with
    | Ok (Some (canon, _)) =>
        nonmig canon /\ pd_name canon <> "Name"%string /\
        exists conv, try_convert o (p_dval p) (dtype_vt (pd_type canon)) = Ok conv /\ (special (p_src p) -> conv = p_dval p)
    | Ok None => p_name p <> B "Name"
    | _ => False
    end.
  (* the element as the reflective reader files it: under the key [tkey], holding [rval] *)
  Definition tr (c : bytes) (p : pelem) : option pelem :=
    match tkey c (p_name p) with Some t => Some (rename p t (rval c p)) | None => None end.

  Lemma refl_plan_rd c p : rd_ok c p ->
    refl_plan e dbeh c p =
    (tkey c (p_name p), match tkey c (p_name p) with Some t => fun props => bupd t (rval c p) props | None => fun props => props end).
  Proof.
    unfold rd_ok, tkey, rval. destruct (kdesc c (p_name p)) as [[[canon ser']|]| |cc|] eqn:Ek; try contradiction.
    - intros (Hm & _ & conv & Hc & _). rewrite (refl_plan_known e dbeh c p canon ser' conv dbeh_refl Ek Hm Hc). fold o. rewrite Hc. reflexivity.
    - intro Hn. unfold refl_plan. unfold kdesc in Ek. rewrite Ek.
      replace (bytes_eqb (p_name p) (B "Name")) with false by (symmetry; now apply beqb_false_iff).
      unfold dbeh, dbeh_of. destruct keep; reflexivity.
  Qed.

  Lemma rval_special c p : rd_ok c p -> special (p_src p) -> rval c p = p_dval p.
  Proof.
    unfold rd_ok, rval. destruct (kdesc c (p_name p)) as [[[canon ser']|]| |cc|]; try reflexivity.
    intros (_ & _ & conv & Hc & Hs) Hsp. fold o. rewrite Hc. now apply Hs.
  Qed.
  Lemma rename_dval c p t : rd_ok c p -> p_dval (rename p t (rval c p)) = rval c p.
  Proof. intro H. destruct p; try reflexivity; cbn [rename p_dval]; symmetry; exact (rval_special c _ H I). Qed.

  Lemma rd_ok_step c p : rd_ok c p -> refl_step_ok e dbeh c p /\ refl_target e dbeh c p <> Some (B "Name").
  Proof.
    unfold rd_ok. pose proof dbeh_refl as Hb.
    destruct (kdesc c (p_name p)) as [[[canon ser']|]| |cc|] eqn:Ek; try contradiction; unfold kdesc in Ek.
    - intros (Hm & Hn & conv & Hc & _). split; [exact (refl_step_known e dbeh c p canon ser' conv Ek Hm Hc)|].
      unfold refl_target. rewrite Ek. fold o. rewrite Hc. unfold nonmig in Hm.
      destruct (pd_kind canon) as [[| | |to op]|]; try contradiction;
        destruct dbeh; try congruence; intro E; inversion E as [E']; apply Hn; exact (B_inj _ _ E').
    - intro Hn. unfold refl_step_ok, refl_target. rewrite Ek.
      replace (bytes_eqb (p_name p) (B "Name")) with false by (symmetry; now apply beqb_false_iff).
      split; [unfold dbeh, dbeh_of in *; destruct keep; auto|].
      destruct dbeh; try congruence; discriminate.
  Qed.

  Lemma store_all_refl c : forall ps acc, Forall (rd_ok c) ps ->
    store_all (reflD e dbeh) c ps acc = bupd_all (List.map p_kv (filter_map (tr c) ps)) acc.
  Proof.
    induction ps as [|p ps IH]; intros acc H; [reflexivity|]. inversion H as [|? ? Hp Hps]; subst.
    cbn [store_all fold_left]. change (fold_left _ ps ?a) with (store_all (reflD e dbeh) c ps a). rewrite IH by exact Hps.
    cbn [reflD do_store]. rewrite (refl_plan_rd c p Hp). cbn [snd filter_map]. unfold tr.
    destruct (tkey c (p_name p)) as [t|]; [|reflexivity]. cbn [List.map]. rewrite bupd_all_cons. f_equal.
    unfold p_kv. cbn [fst snd]. rewrite rename_name, (rename_dval c p t Hp). reflexivity.
  Qed.
  Lemma rw_refl c L : forall ps, Forall (rd_ok c) ps ->
    flat_map (do_rw (reflD e dbeh) c L) ps = flat_map (q_rw L) (filter_map (tr c) ps) /\
    flat_map (do_srw (reflD e dbeh) c L) ps = flat_map (q_srw L) (filter_map (tr c) ps).
  Proof.
    induction ps as [|p ps IH]; intro H; [split; reflexivity|]. inversion H as [|? ? Hp Hps]; subst. destruct (IH Hps) as [IH1 IH2].
    cbn [flat_map filter_map]. rewrite IH1, IH2. cbn [reflD do_rw do_srw]. rewrite (refl_plan_rd c p Hp). cbn [fst]. unfold tr.
    destruct (tkey c (p_name p)) as [t|]; [|split; reflexivity]. cbn [flat_map]. unfold q_rw, q_srw.
    rewrite rename_name, rename_rwn, rename_srwn. split; reflexivity.
  Qed.
End Known.

(* ================================================================= (3) H2: one written instance *)
Lemma special_nonspecial v : special v -> nonspecial v -> False.
Proof. destruct v; cbn; tauto. Qed.
Lemma filter_map_filter_map {A C E} (f : A -> option C) (g : C -> option E) l :
  filter_map g (filter_map f l) = filter_map (fun x => match f x with Some y => g y | None => None end) l.
Proof. induction l as [|x r IH]; [reflexivity|]. cbn [filter_map]. destruct (f x) as [y|]; cbn [filter_map]; [destruct (g y)|]; now rewrite IH. Qed.
Lemma flat_map_map_in {A A' C} (f : A -> list C) (g : A' -> list C) (h : A -> A') l :
  (forall x, In x l -> f x = g (h x)) -> flat_map f l = flat_map g (List.map h l).
Proof.
  induction l as [|x r IH]; intro H; [reflexivity|]. cbn [flat_map List.map]. rewrite (H x (or_introl eq_refl)), IH; [reflexivity|].
  intros y Hy. apply H. now right.
Qed.
Lemma bytes_eq_dec (a b : bytes) : {a = b} + {a <> b}.
Proof. apply list_eq_dec, N.eq_dec. Qed.

Section Node.
  Variables (e : xenv) (vc : vcodec (xe_o e)) (keep : bool).
  Let o := xe_o e.
  Let ebeh := ebeh_of keep.
  Let dbeh := dbeh_of keep.

  Lemma migrate_nonspecial ft bt op v w : migrate ft bt op v = Some w -> nonspecial w.
  Proof.
    destruct op, v; cbn [migrate]; try discriminate; intro H.
    - inversion H; exact I.
    - destruct (font_lookup ft n) as [[[fam wt] st]|]; [inversion H; exact I|discriminate].
    - destruct (brick_lookup bt n) as [[[r g] b]|]; [inversion H; exact I|discriminate].
    - inversion H; exact I.
  Qed.

  (* what the writer wrote for a property that meets the hypotheses is an element the reader's step handles *)
  Lemma wplan_simple c keys k v pn w :
    known_prop_ok e vc keep c keys k v -> wplan e keep c keys (k, v) = Some (pn, w) -> nonspecial w -> vc_ok vc w.
  Proof.
    unfold known_prop_ok, wplan. cbn [fst snd]. destruct (kdesc e c k) as [[[canon ser]|]| |cc|]; try contradiction.
    - destruct (mig_of ser) as [[q op]|].
      + intros (_ & _ & qd & qs & _ & _ & _ & conv & Hcv & Hmig). rewrite Hcv.
        destruct (explicit_b e c keys k q); [discriminate|]. destruct (Hmig eq_refl) as (nv & Hnv & Hok & _). rewrite Hnv.
        intros E _. inversion E; subst. exact Hok.
      + intros (_ & _ & _ & _ & Hv). destruct (try_convert (xe_o e) v (dtype_vt (pd_type ser))) as [w0| |cc|] eqn:Hc; try discriminate.
        intros E Hnw. inversion E; subst pn w0. destruct (special_or v) as [Hs|Hn].
        * rewrite (try_convert_special _ _ _ Hs) in Hc. exfalso. assert (Ev : v = w) by congruence. subst w. exact (special_nonspecial _ Hs Hnw).
        * assert (Hv' : exists w', try_convert (xe_o e) v (dtype_vt (pd_type ser)) = Ok w' /\ vc_ok vc w' /\
                                 exists v', try_convert (xe_o e) (vc_norm vc w') (dtype_vt (pd_type canon)) = Ok v')
            by (destruct v; try contradiction Hn; exact Hv).
          destruct Hv' as (w' & Hw' & Hs' & _). rewrite Hc in Hw'. inversion Hw'; subst w'. exact Hs'.
    - destruct keep; [|discriminate]. intros Hs E Hnw. inversion E; subst. exact (Hs Hnw).
  Qed.

  Lemma rd_ok_of c keys k v m dict p :
    known_prop_ok e vc keep c keys k v -> k <> B "Name" -> wplan e keep c keys (k, v) = Some (p_pair p) -> p_ok e m dict p -> rd_ok e c p.
  Proof.
    intros Hk Hkn Hw Hp. pose proof (wplan_simple c keys k v _ _ Hk Hw) as Hsw. revert Hk Hw.
    unfold known_prop_ok, wplan, rd_ok. cbn [fst snd]. destruct (kdesc e c k) as [[[canon ser]|]| |cc|] eqn:Ek; try contradiction.
    - destruct (mig_of ser) as [[q op]|].
      + (* a legacy property: the element carries the new name and the migrated value *)
        intros (_ & _ & qd & qs & Hq & Hmq & Hnq & conv & Hcv & Hmig). rewrite Hcv.
        destruct (explicit_b e c keys k q); [discriminate|]. destruct (Hmig eq_refl) as (nv & Hnv & Hok & v' & Hv'). rewrite Hnv.
        intro E. unfold p_pair in E. inversion E as [[En Es]].
        unfold kdesc, B. rewrite S_bytes, Hq. split; [exact Hmq|]. split; [exact Hnq|].
        pose proof (migrate_nonspecial _ _ _ _ _ Hnv) as Hnw.
        rewrite (p_ok_dval_gen e vc m dict p Hp) by (rewrite <- Es; assumption). rewrite <- Es.
        exists v'. split; [exact Hv'|]. intro Hsp. exfalso. exact (special_nonspecial _ Hsp Hnw).
      + intros (Hms & Hmc & (ser' & Hback) & Hnn & Hv).
        destruct (try_convert (xe_o e) v (dtype_vt (pd_type ser))) as [w| |cc|] eqn:Hc; try discriminate.
        intro E. unfold p_pair in E. inversion E as [[En Es]].
        unfold kdesc, B. rewrite S_bytes, Hback. split; [exact Hmc|]. split; [exact Hnn|].
        destruct (special_or v) as [Hs|Hn].
        * rewrite (try_convert_special _ _ _ Hs) in Hc. inversion Hc as [Hvw]. rewrite <- Hvw in Es. clear Hvw.
          destruct p as [pn r txt|pn cc h|pn w0 revs v0 tag inner]; cbn [p_src p_dval] in *.
          -- exists (VRef 0). split; [reflexivity|auto].
          -- exists (VBinaryString []). split; [|auto]. rewrite Es in Hv. exact Hv.
          -- exfalso. destruct Hp as (Hns & _). rewrite <- Es in Hns. exact (special_nonspecial _ Hs Hns).
        * assert (Hv' : exists w', try_convert (xe_o e) v (dtype_vt (pd_type ser)) = Ok w' /\ vc_ok vc w' /\
                                 exists v', try_convert (xe_o e) (vc_norm vc w') (dtype_vt (pd_type canon)) = Ok v')
            by (destruct v; try contradiction Hn; exact Hv).
          destruct Hv' as (w' & Hw' & Hs' & v' & Hv''). rewrite Hc in Hw'. inversion Hw'; subst w'.
          pose proof (try_convert_nonspecial _ _ _ _ Hn Hc) as Hnw.
          rewrite (p_ok_dval_gen e vc m dict p Hp) by (rewrite <- Es; assumption). rewrite <- Es.
          exists v'. split; [exact Hv''|]. intro Hsp. exfalso. exact (special_nonspecial _ Hsp Hnw).
    - destruct keep; [|discriminate]. intros _ E. unfold p_pair in E. inversion E as [[En Es]]. subst k. rewrite Ek. exact Hkn.
  Qed.

  (* the key an element comes back under is the key its property comes back under *)
  Lemma tkey_written c keys k v pn w :
    known_prop_ok e vc keep c keys k v -> wplan e keep c keys (k, v) = Some (pn, w) -> tkey e keep c pn = okey e keep c keys k.
  Proof. intros Hk Hw. unfold okey. rewrite (wname_wplan e vc keep c keys k v pn w Hk Hw). reflexivity. Qed.

  (* the value the element ends up with, after the two rewrite passes *)
  Lemma final_val refs known c p t : rd_ok e c p ->
    p_final refs known (rename p t (rval e c p)) = match p with PVal _ _ _ _ _ _ => rval e c p | _ => p_final refs known p end.
  Proof. intros _. apply rename_final. Qed.

  Lemma refl_plan_name c nm : name_ok e c ->
    refl_plan e dbeh c (name_p nm) = (Some (B "Name"), fun props => bupd (B "Name") (VString nm) props) /\
    refl_step_ok e dbeh c (name_p nm).
  Proof.
    intros [H|(canon & ser & H & Hn & Hm)].
    - unfold refl_plan, refl_step_ok. cbn [name_p p_name p_dval]. change (S_ (B "Name")) with "Name"%string. rewrite H.
      replace (bytes_eqb (B "Name") (B "Name")) with true by reflexivity. unfold dbeh, dbeh_of. destruct keep; (split; [reflexivity|now left]).
    - assert (Hd : find_desc_xml (xe_db e) (S_ c) (S_ (p_name (name_p nm))) = Ok (Some (canon, ser))) by exact H.
      assert (Hc : try_convert (xe_o e) (p_dval (name_p nm)) (dtype_vt (pd_type canon)) = Ok (VString nm)) by reflexivity.
      split; [|exact (refl_step_known e dbeh c _ canon ser _ Hd Hm Hc)].
      rewrite (refl_plan_known e dbeh c _ canon ser _ (dbeh_refl keep) Hd Hm Hc). rewrite Hn. reflexivity.
  Qed.
End Node.

(* ================================================================= (4) H2: the whole file *)
(* the keys of an instance as the writer passes them around: sorted *)
Definition ikeys (i : inst) : list bytes := List.map fst (bsort (i_props i)).
(* the hypotheses on the DOM: every written instance has a readable `Name`, every property meets [known_prop_ok], and no two
   keys of one instance are spellings of one logical property *)
Definition known_dom (e : xenv) (vc : vcodec (xe_o e)) (keep : bool) (d : cdom) (roots : list N) : Prop :=
  forall id i, In id (written d roots) -> find_inst d id = Some i ->
    name_ok e (i_class i) /\
    (forall k v, In (k, v) (i_props i) -> known_prop_ok e vc keep (i_class i) (ikeys i) k v) /\
    one_spelling e keep (i_class i) (ikeys i).

(* what a value of a known property comes back as *)
Definition value_known_back (e : xenv) (vc : vcodec (xe_o e)) (W : list N) (sty cty : N) (v v' : value) : Prop :=
  match v with
  | VRef r => v' = VRef (label W r)
  | VSharedString c => v' = VSharedString c
  | _ => norm_known (xe_o e) (vc_norm vc) sty cty v = Ok v'
  end.
(* what the value of a legacy property comes back as, under the new name: converted, migrated, read back, converted *)
Definition migrated_back (e : xenv) (vc : vcodec (xe_o e)) (op : migop) (sty cty : N) (v v' : value) : Prop :=
  exists conv nv, try_convert (xe_o e) v sty = Ok conv /\ migrate (xe_font e) (xe_brick e) op conv = Some nv /\
                  try_convert (xe_o e) (vc_norm vc nv) cty = Ok v'.
(* the decoded property table [ps'] of an instance of class [c] with property table [ps] (keys [keys]): no key twice; every
   property the database knows is there under its CANONICAL name with [norm_known] of its value (a Ref relabelled, a
   SharedString restored); a LEGACY (migrating) property is gone under its own name and, unless the instance carries an explicit
   value of the new property (which is then there as that property's clause says), the new canonical name holds the migrated
   value; a property the database does not know is there under its own name as in the plain theorem when unknown properties are
   kept, and nothing is said of it otherwise; and every key of [ps'] is the key [okey] of some property of [ps]: with the
   default behaviours ([keep] = false) the properties the database does not know are dropped *)
Definition props_known_back (e : xenv) (vc : vcodec (xe_o e)) (keep : bool) (W : list N) (c : bytes) (keys : list bytes)
  (ps ps' : list (bytes * value)) : Prop :=
  NoDup (List.map fst ps') /\
  (forall k v, In (k, v) ps ->
     match kdesc e c k with
     | Ok (Some (canon, ser)) =>
         match mig_of ser with
         | Some (q, op) =>
             bfind k ps' = None /\
             (explicit_b e c keys k q = false ->
              exists qd qs v', find_desc_xml (xe_db e) (S_ c) q = Ok (Some (qd, qs)) /\ bfind (B (pd_name qd)) ps' = Some v' /\
                               migrated_back e vc op (dtype_vt (pd_type ser)) (dtype_vt (pd_type qd)) v v')
         | None =>
             exists v', bfind (B (pd_name canon)) ps' = Some v' /\
                        value_known_back e vc W (dtype_vt (pd_type ser)) (dtype_vt (pd_type canon)) v v'
         end
     | _ => if keep then bfind k ps' = Some (value_back W (vc_norm vc) v) else True
     end) /\
  (forall k', bfind k' ps' <> None -> exists k v, In (k, v) ps /\ okey e keep c keys k = Some k').
Definition known_back (e : xenv) (vc : vcodec (xe_o e)) (keep : bool) (d : cdom) (W : list N) (id : N) (i' : inst) : Prop :=
  exists i, find_inst d id = Some i /\ i_ref i' = label W id /\ i_class i' = i_class i /\ i_name i' = i_name i /\
            props_known_back e vc keep W (i_class i) (ikeys i) (i_props i) (i_props i').

Lemma value_known_back_nonspecial e vc W sty cty v v' : nonspecial v ->
  (value_known_back e vc W sty cty v v' <-> norm_known (xe_o e) (vc_norm vc) sty cty v = Ok v').
Proof. intro H. destruct v; try contradiction H; reflexivity. Qed.

Section Whole2.
  Variables (e : xenv) (vc : vcodec (xe_o e)) (keep : bool) (d : cdom) (roots : list N).
  Let ebeh := ebeh_of keep.
  Let dbeh := dbeh_of keep.
  Let W := written d roots.
  Hypothesis Hin : input_ok d roots.
  Hypothesis Hk : known_dom e vc keep d roots.

  Lemma known_readable : readable e ebeh d roots.
  Proof.
    intros id i k v pn w Hid Hf Hkv Hs Hns. destruct (Hk id i Hid Hf) as (_ & Hp & _).
    unfold ebeh in Hs. fold (ikeys i) in Hs. rewrite (ser_plan_wplan e vc keep _ _ k v (Hp k v Hkv)) in Hs. inversion Hs as [Hw].
    exists (vc_norm vc w). apply vc_law; [|exact Hns]. exact (wplan_simple e vc keep _ _ k v pn w (Hp k v Hkv) Hw Hns).
  Qed.

  Lemma key_not_name id i k v : In id W -> find_inst d id = Some i -> In (k, v) (i_props i) -> k <> B "Name".
  Proof.
    intros Hid Hf Hkv E. destruct Hin as (_ & _ & _ & Hprops). destruct (Hprops id i Hid Hf) as [_ Hnn]. apply Hnn. rewrite <- E.
    eapply keys_in; exact Hkv.
  Qed.

  Lemma known_dec_law : dec_law e ebeh dbeh (reflD e dbeh) d roots.
  Proof.
    intros id i Hid Hf. destruct (Hk id i Hid Hf) as (Hn & Hp & _).
    destruct (refl_plan_name e keep (i_class i) (i_name i) Hn) as [Hpl Hst].
    split; [apply refl_good; [apply name_p_reads|exact Hst]|].
    split; [cbn [reflD do_store]; unfold dbeh; rewrite Hpl; cbn [snd]; rewrite bfind_bupd, bytes_eqb_refl; reflexivity|].
    intros p k v (m0 & dict0 & Hpk) Hkv Hs.
    unfold ebeh in Hs. fold (ikeys i) in Hs. rewrite (ser_plan_wplan e vc keep _ _ k v (Hp k v Hkv)) in Hs. inversion Hs as [Hw].
    assert (Hrd : rd_ok e (i_class i) p).
    { apply (rd_ok_of e vc keep (i_class i) _ k v m0 dict0 p (Hp k v Hkv)); [eapply key_not_name; eassumption|exact Hw|exact Hpk]. }
    destruct (rd_ok_step e keep _ p Hrd) as [H1 H2].
    split; [apply refl_good; [eapply p_ok_reads; exact Hpk|exact H1]|apply refl_keeps_name, H2].
  Qed.

  Definition trfn (fn : fnode) : fnode :=
    mkFN (fn_label fn) (fn_parent fn) (fn_id fn) (fn_x fn) (fn_class fn) (fn_name fn)
         (filter_map (tr e keep (fn_class fn)) (fn_props fn)).

  Lemma tr_not_name c p p' : rd_ok e c p -> tr e keep c p = Some p' -> p_name p' <> B "Name".
  Proof.
    unfold rd_ok, tr, tkey. destruct (kdesc e c (p_name p)) as [[[canon ser']|]| |cc|]; try contradiction.
    - intros (_ & Hn & _) E. inversion E. rewrite rename_name. intro E'. apply Hn. exact (B_inj _ _ E').
    - intros Hn. destruct keep; [|discriminate]. intro E. inversion E. rewrite rename_name. exact Hn.
  Qed.

  Lemma node_facts m dict fn : node_ok e ebeh d m dict fn -> In (fn_id fn) W ->
    exists i, find_inst d (fn_id fn) = Some i /\ fn_class fn = i_class i /\ fn_name fn = i_name i /\
      List.map p_pair (fn_props fn) = filter_map (wplan e keep (i_class i) (ikeys i)) (bsort (i_props i)) /\
      Forall (p_ok e m dict) (fn_props fn) /\ Forall (rd_ok e (i_class i)) (fn_props fn) /\
      NoDup (List.map p_name (fn_props (trfn fn))) /\ ~ In (B "Name") (List.map p_name (fn_props (trfn fn))).
  Proof.
    intros (i & Hf & Hc & Hn & Hps & Hx & Hpok) HidW. exists i.
    destruct (Hk _ i HidW Hf) as (Hname & Hp & H1).
    destruct Hin as (_ & _ & _ & Hprops). destruct (Hprops _ i HidW Hf) as [Hndk Hnn].
    assert (Hsorted : forall k v, In (k, v) (bsort (i_props i)) -> In (k, v) (i_props i)).
    { intros k v H. eapply Permutation_in; [apply bsort_permutation|exact H]. }
    assert (E : List.map p_pair (fn_props fn) = filter_map (wplan e keep (i_class i) (ikeys i)) (bsort (i_props i))).
    { unfold planned, ebeh in Hps. fold (ikeys i) in Hps. rewrite (plan_list_spec e vc keep) in Hps by (intros k v H; apply Hp, Hsorted, H). now inversion Hps. }
    assert (Hrd : Forall (rd_ok e (i_class i)) (fn_props fn)).
    { apply Forall_forall. intros p Hpin.
      assert (Hpp : In (p_pair p) (filter_map (wplan e keep (i_class i) (ikeys i)) (bsort (i_props i)))) by (rewrite <- E; now apply in_map).
      apply in_filter_map in Hpp. destruct Hpp as ([k v] & Hkv & Hw). apply Hsorted in Hkv.
      apply (rd_ok_of e vc keep (i_class i) _ k v m dict p (Hp k v Hkv)); [eapply key_not_name; eassumption|exact Hw|].
      rewrite Forall_forall in Hpok. now apply Hpok. }
    split; [exact Hf|]. split; [exact Hc|]. split; [exact Hn|]. split; [exact E|]. split; [exact Hpok|]. split; [exact Hrd|].
    cbn [trfn fn_props]. rewrite Hc. split.
    - rewrite map_filter_map.
      rewrite (filter_map_ext_in _ (fun p => tkey e keep (i_class i) (p_name p)))
        by (intros p _; unfold tr; destruct (tkey e keep (i_class i) (p_name p)); cbn [option_map]; rewrite ?rename_name; reflexivity).
      rewrite <- (filter_map_map p_name (tkey e keep (i_class i))).
      replace (List.map p_name (fn_props fn)) with (List.map fst (List.map p_pair (fn_props fn))) by (rewrite map_map; reflexivity).
      rewrite E, map_filter_map, filter_map_filter_map.
      rewrite <- (List.map_id (filter_map _ _)). apply (nodup_filter_map fst _ (fun x => x)).
      + eapply Permutation_NoDup; [apply Permutation_sym, bsort_keys_perm|exact Hndk].
      + intros [k1 v1] [k2 v2] y1 y2 Ha Hb E1 E2 Ey. subst y2. cbn [fst].
        destruct (wplan e keep (i_class i) (ikeys i) (k1, v1)) as [[pn1 w1]|] eqn:W1; cbn [option_map fst] in E1; try discriminate.
        destruct (wplan e keep (i_class i) (ikeys i) (k2, v2)) as [[pn2 w2]|] eqn:W2; cbn [option_map fst] in E2; try discriminate.
        pose proof Ha as Ha'. pose proof Hb as Hb'. apply Hsorted in Ha. apply Hsorted in Hb.
        rewrite (tkey_written e vc keep _ _ k1 v1 pn1 w1 (Hp _ _ Ha) W1) in E1. rewrite (tkey_written e vc keep _ _ k2 v2 pn2 w2 (Hp _ _ Hb) W2) in E2.
        apply (H1 k1 k2 y1); [exact (keys_in _ _ _ Ha')|exact (keys_in _ _ _ Hb')|exact E1|exact E2].
    - intro Hc'. apply in_map_iff in Hc'. destruct Hc' as (p' & Ep & Hp'). apply in_filter_map in Hp'. destruct Hp' as (p & Hpin & Htr).
      rewrite Forall_forall in Hrd. exact (tr_not_name _ p p' (Hrd p Hpin) Htr Ep).
  Qed.

  Lemma node_rewrite fn : name_ok e (fn_class fn) -> Forall (rd_ok e (fn_class fn)) (fn_props fn) ->
    ~ In (B "Name") (List.map p_name (fn_props (trfn fn))) ->
    dnode_of (reflD e dbeh) fn = dnode_of0 (trfn fn) /\ rw_of (reflD e dbeh) fn = rw_of0 (trfn fn) /\
    srw_of (reflD e dbeh) fn = srw_of0 (trfn fn).
  Proof.
    intros Hn Hrd Hnn. destruct (refl_plan_name e keep (fn_class fn) (fn_name fn) Hn) as [Hpl _].
    destruct (rw_refl e keep (fn_class fn) (fn_label fn) (fn_props fn) Hrd) as [R1 R2]. fold dbeh in Hpl, R1, R2.
    split; [|split].
    - unfold dnode_of, dnode_of0, dprops, dprops0. cbn [trfn fn_label fn_parent fn_class fn_name fn_props] in *. f_equal.
      cbn [store_all fold_left]. change (fold_left _ (fn_props fn) ?a) with (store_all (reflD e dbeh) (fn_class fn) (fn_props fn) a).
      unfold dbeh at 1 2. rewrite (store_all_refl e keep) by exact Hrd. cbn [reflD do_store]. fold dbeh. rewrite Hpl. cbn [snd].
      rewrite bremove_bupd_all by (rewrite map_fst_p_kv; exact Hnn).
      unfold bupd. cbn [bremove]. rewrite bytes_eqb_refl. reflexivity.
    - unfold rw_of, rw_of0, q_of. cbn [trfn fn_label fn_class fn_name fn_props flat_map]. rewrite R1.
      cbn [reflD do_rw]. destruct (fst (refl_plan e dbeh (fn_class fn) (name_p (fn_name fn)))); reflexivity.
    - unfold srw_of, srw_of0, q_of. cbn [trfn fn_label fn_class fn_name fn_props flat_map]. rewrite R2.
      cbn [reflD do_srw]. destruct (fst (refl_plan e dbeh (fn_class fn) (name_p (fn_name fn)))); reflexivity.
  Qed.
End Whole2.

Section Whole3.
  Variables (e : xenv) (vc : vcodec (xe_o e)) (keep : bool) (d : cdom) (roots : list N).
  Let ebeh := ebeh_of keep.
  Let dbeh := dbeh_of keep.
  Let W := written d roots.
  Hypothesis Hin : input_ok d roots.
  Hypothesis Hh : hash_ok e.
  Hypothesis Hk : known_dom e vc keep d roots.
  Variables (m : list (N * N)) (dict : list (bytes * bytes)) (F : list fnode).
  Hypothesis Hinj : map_injective m.
  Hypothesis Hsorted : StronglySorted klt dict.
  Hypothesis Hdh : forall h c, In (h, c) dict -> xe_hash e c = Some h.
  Hypothesis HF_nodes : Forall (node_ok e ebeh d m dict) F.
  Hypothesis HF_ids : List.map fn_id F = W.
  Hypothesis HF_labels : List.map fn_label F = nseq 1 (length F).
  Let refs := bupd_all (List.map ref_of F) [].
  Let known := bupd_all (List.map dkey dict) [].
  Let F' := List.map (trfn e keep) F.

  Lemma labels_F' : NoDup (List.map fn_label F').
  Proof. unfold F'. rewrite map_map. cbn [trfn fn_label]. change (List.map (fun x => fn_label x) F) with (List.map fn_label F). rewrite HF_labels. apply nodup_nseq. Qed.

  (* the value a property element ends up with *)
  Lemma elem_back p : p_ok e m dict p -> vback e W (p_src p) (p_final refs known p).
  Proof. apply (p_back e ebeh d roots m dict F Hin Hh Hinj Hsorted Hdh HF_nodes HF_ids HF_labels). Qed.

  Theorem node_known_back fn : In fn F -> known_back e vc keep d W (fn_id fn) (fin_node refs known F' (trfn e keep fn)).
  Proof.
    intro Hfn. pose proof HF_nodes as Hall. rewrite Forall_forall in Hall.
    assert (HidW : In (fn_id fn) W) by (rewrite <- HF_ids; now apply in_map).
    destruct (node_facts e vc keep d roots Hin Hk m dict fn (Hall fn Hfn) HidW) as (i & Hf & Hc & Hn & E & Hpok & Hrd & Hnd & Hnn).
    destruct (Hk _ i HidW Hf) as (Hname & Hp & H1).
    assert (Hperm : forall k v, In (k, v) (bsort (i_props i)) <-> In (k, v) (i_props i)).
    { intros k v. split; intro H; (eapply Permutation_in; [|exact H]); [apply bsort_permutation|apply Permutation_sym, bsort_permutation]. }
    assert (HinF' : In (trfn e keep fn) F') by (unfold F'; now apply in_map).
    rewrite Forall_forall in Hpok, Hrd.
    (* every property has its element, every element its property *)
    assert (Helem : forall k v pn w, In (k, v) (i_props i) -> wplan e keep (i_class i) (ikeys i) (k, v) = Some (pn, w) ->
                      exists p, In p (fn_props fn) /\ p_name p = pn /\ p_src p = w).
    { intros k v pn w Hkv Hw.
      assert (Hpp : In (pn, w) (List.map p_pair (fn_props fn))) by (rewrite E; apply in_filter_map; exists (k, v); split; [now apply Hperm|exact Hw]).
      apply in_map_iff in Hpp. destruct Hpp as (p & Ep & Hpin). unfold p_pair in Ep. inversion Ep. exists p. auto. }
    (* an element that is kept: where it is found and what it holds *)
    assert (Hkept : forall p t, In p (fn_props fn) -> tkey e keep (i_class i) (p_name p) = Some t ->
                      bfind t (fin_props refs known F' (trfn e keep fn))
                      = Some (match p with PVal _ _ _ _ _ _ => rval e (i_class i) p | _ => p_final refs known p end)).
    { intros p t Hpin Ht.
      assert (Hp' : In (rename p t (rval e (i_class i) p)) (fn_props (trfn e keep fn))).
      { cbn [trfn fn_props]. rewrite Hc. apply in_filter_map. exists p. split; [exact Hpin|]. unfold tr. rewrite Ht. reflexivity. }
      pose proof (fin_lookup refs known F' labels_F' (trfn e keep fn) _ HinF' Hnd Hp') as Hl. rewrite rename_name, rename_final in Hl. exact Hl. }
    (* nothing else *)
    assert (Hthird : forall k', bfind k' (fin_props refs known F' (trfn e keep fn)) <> None ->
                       exists k v, In (k, v) (i_props i) /\ okey e keep (i_class i) (ikeys i) k = Some k').
    { intros k' Hk'. destruct (in_dec bytes_eq_dec k' (List.map p_name (fn_props (trfn e keep fn)))) as [Hi|Hni].
      2:{ exfalso. apply Hk'. exact (fin_absent refs known F' labels_F' (trfn e keep fn) k' HinF' Hni). }
      apply in_map_iff in Hi. destruct Hi as (p' & Ep' & Hp'). cbn [trfn fn_props] in Hp'. rewrite Hc in Hp'.
      apply in_filter_map in Hp'. destruct Hp' as (p & Hpin & Htr). unfold tr in Htr.
      destruct (tkey e keep (i_class i) (p_name p)) as [t|] eqn:Et; [|discriminate]. inversion Htr; subst p'. rewrite rename_name in Ep'. subst t.
      assert (Hpp : In (p_pair p) (filter_map (wplan e keep (i_class i) (ikeys i)) (bsort (i_props i)))) by (rewrite <- E; now apply in_map).
      apply in_filter_map in Hpp. destruct Hpp as ([k v] & Hkv & Hw). apply Hperm in Hkv. exists k, v. split; [exact Hkv|].
      unfold p_pair in Hw. rewrite <- (tkey_written e vc keep _ _ k v _ _ (Hp k v Hkv) Hw). exact Et. }
    exists i. split; [exact Hf|]. split; [cbn [fin_node i_ref trfn fn_label]; symmetry; exact (label_fn d roots F (input_ok_0 _ _ Hin) HF_ids HF_labels fn Hfn)|].
    split; [exact Hc|]. split; [exact Hn|]. cbn [fin_node i_props].
    split; [apply fin_nodup|]. split; [|exact Hthird].
    (* the properties of the instance *)
    intros k v Hkv. pose proof (Hp k v Hkv) as Hkp. pose proof Hkp as Hkp'. unfold known_prop_ok in Hkp'.
    destruct (kdesc e (i_class i) k) as [[[canon ser]|]| |cc|] eqn:Ek; try contradiction.
    - destruct (mig_of ser) as [[q op]|] eqn:Emig.
      + (* a legacy property *)
        destruct Hkp' as (_ & Hfree & qd & qs & Hq & Hmq & Hnq & conv & Hcv & Hmig). split.
        * destruct (bfind k (fin_props refs known F' (trfn e keep fn))) eqn:Eb; [|reflexivity]. exfalso.
          destruct (Hthird k ltac:(rewrite Eb; discriminate)) as (k2 & v2 & Hkv2 & Hk2).
          apply (Hfree k2); [|exact Hk2]. unfold ikeys. eapply keys_in. apply Hperm. exact Hkv2.
        * intro Hex. destruct (Hmig Hex) as (nv & Hnv & Hoknv & v' & Hv').
          assert (Hw : wplan e keep (i_class i) (ikeys i) (k, v) = Some (B q, nv))
            by (unfold wplan; cbn [fst snd]; rewrite Ek, Hcv, Emig, Hex, Hnv; reflexivity).
          destruct (Helem k v _ _ Hkv Hw) as (p & Hpin & Epn & Eps).
          assert (Ht : tkey e keep (i_class i) (p_name p) = Some (B (pd_name qd)))
            by (rewrite Epn; unfold tkey, kdesc, B; rewrite S_bytes, Hq; reflexivity).
          exists qd, qs. eexists. split; [exact Hq|]. split; [exact (Hkept p _ Hpin Ht)|].
          pose proof (migrate_nonspecial _ _ _ _ _ Hnv) as Hnw. pose proof (Hrd p Hpin) as Hrdp.
          destruct p as [pn r txt|pn c0 h|pn w0 revs v0 tag inner]; cbn [p_src] in Eps; subst nv; try contradiction Hnw.
          pose proof (p_ok_dval_gen e vc m dict _ (Hpok _ Hpin) Hnw Hoknv) as Hdv. cbn [p_dval p_src] in Hdv. subst v0.
          exists conv, w0. split; [exact Hcv|]. split; [exact Hnv|].
          unfold rval. cbn [p_name] in *. subst pn. unfold kdesc, B. rewrite S_bytes, Hq. cbn [p_dval]. rewrite Hv'. reflexivity.
      + destruct Hkp' as (Hms & Hmc & (ser' & Hback) & Hnn' & Hv).
        destruct (val_ok_conv e vc _ _ _ Hv) as (w & Hcv).
        assert (Hw : wplan e keep (i_class i) (ikeys i) (k, v) = Some (B (pd_name ser), w))
          by (unfold wplan; cbn [fst snd]; rewrite Ek, Hcv, Emig; reflexivity).
        destruct (Helem k v _ _ Hkv Hw) as (p & Hpin & Epn & Eps).
        assert (Ht : tkey e keep (i_class i) (p_name p) = Some (B (pd_name canon))).
        { rewrite Epn. unfold tkey, kdesc, B. rewrite S_bytes, Hback. reflexivity. }
        eexists. split; [exact (Hkept p _ Hpin Ht)|].
        pose proof (elem_back p (Hpok p Hpin)) as Hvb. pose proof (Hrd p Hpin) as Hrdp.
        destruct (special_or v) as [Hs|Hns].
        * rewrite (try_convert_special _ _ _ Hs) in Hcv. assert (Hvw : w = v) by congruence. rewrite Hvw in Eps. clear Hvw Hcv.
          destruct p as [pn r txt|pn c0 h|pn w0 revs v0 tag inner]; cbn [p_src] in Eps; subst v; cbn [p_src vback value_known_back] in *; try exact Hvb.
          exfalso. destruct (Hpok _ Hpin) as (Hns' & _). exact (special_nonspecial _ Hs Hns').
        * apply (value_known_back_nonspecial e vc W _ _ v _ Hns). pose proof (try_convert_nonspecial _ _ _ _ Hns Hcv) as Hnw.
          destruct p as [pn r txt|pn c0 h|pn w0 revs v0 tag inner]; cbn [p_src] in Eps; subst w; try contradiction Hnw.
          unfold norm_known. rewrite Hcv. cbn [rbind].
          assert (Hsw : vc_ok vc w0) by (exact (wplan_simple e vc keep _ _ k v _ w0 Hkp Hw Hnw)).
          pose proof (p_ok_dval_gen e vc m dict _ (Hpok _ Hpin) Hnw Hsw) as Hdv. cbn [p_dval p_src] in Hdv. subst v0.
          unfold rd_ok in Hrdp. unfold rval. cbn [p_name] in *. subst pn. unfold kdesc in *. unfold B in *. rewrite S_bytes in *. rewrite Hback in *.
          destruct Hrdp as (_ & _ & conv & Hconv & _). cbn [p_dval] in *. rewrite Hconv.
          destruct w0; try contradiction Hnw; reflexivity.
    - assert (Hcase : keep = true \/ keep = false) by (clear; destruct keep; auto).
      destruct Hcase as [Ekeep|Ekeep]; [|rewrite Ekeep; exact I].
      assert (Hif : forall (A : Type) (a b : A), (if keep then a else b) = a) by (intros; rewrite Ekeep; reflexivity).
      rewrite (Hif Prop).
      assert (Hw : wplan e keep (i_class i) (ikeys i) (k, v) = Some (k, v)) by (unfold wplan; cbn [fst snd]; rewrite Ek; apply Hif).
      destruct (Helem k v _ _ Hkv Hw) as (p & Hpin & Epn & Eps).
      assert (Ht : tkey e keep (i_class i) (p_name p) = Some k) by (rewrite Epn; unfold tkey; rewrite Ek; apply Hif).
      rewrite (Hkept p _ Hpin Ht).
      pose proof (elem_back p (Hpok p Hpin)) as Hvb. f_equal.
      rewrite (Hif Prop) in Hkp'.
      destruct p as [pn r txt|pn c0 h|pn w0 revs v0 tag inner]; cbn [p_src] in Eps; subst v; cbn [p_src vback value_back] in *; try exact Hvb.
      destruct (Hpok _ Hpin) as (Hns' & _). rewrite value_back_nonspecial by exact Hns'.
      unfold rval. cbn [p_name] in *. subst pn. rewrite Ek.
      exact (p_ok_dval_gen e vc m dict _ (Hpok _ Hpin) Hns' (Hkp' Hns')).
  Qed.
End Whole3.

(* ---- H2: the whole-file theorem.  [keep] = false: the default behaviours EIgnoreUnknown / DIgnoreUnknown; [keep] = true:
   EWriteUnknown / DReadUnknown.  The decoded DOM is the same forest ([forest_rel]: labels, parents, classes, names, root and
   child order), and every written instance comes back with the property table [props_known_back] describes. *)
Theorem xml_roundtrip_known e vc keep d roots evs revs :
  input_ok d roots -> hash_ok e -> known_dom e vc keep d roots ->
  xml_encode e (ebeh_of keep) d roots = Ok evs -> channel evs = Ok revs ->
  exists d', xml_decode e (dbeh_of keep) revs = Ok d' /\ forest_rel d roots d' /\
             Forall2 (known_back e vc keep d (written d roots)) (written d roots) d'.
Proof.
  intros Hin Hh Hk He Hc.
  pose proof (known_readable e vc keep d roots Hk) as Hrd.
  pose proof (known_dec_law e vc keep d roots Hin Hk) as Hdl.
  set (ebeh := ebeh_of keep) in *. set (dbeh := dbeh_of keep) in *.
  destruct (xml_roundtrip_forest_generic e ebeh dbeh (reflD e dbeh) d roots evs revs (input_ok_0 _ _ Hin) (hash_ok_bytes _ Hh) Hrd Hdl He Hc)
    as (d' & Hd' & Hforest).
  exists d'. split; [exact Hd'|]. split; [exact Hforest|].
  destruct (encode_view e ebeh d roots Hrd evs He) as (its & stF & Hm & Hids & Hok & Hst & Hsorted & Hevs).
  assert (Hdec : Forall (it_forall (node_dec_ok e dbeh (reflD e dbeh))) its).
  { rewrite Forall_forall in *. intros it Hit. eapply (item_dec_ok e ebeh dbeh (reflD e dbeh) d roots Hdl); [|apply Hok, Hit].
    rewrite <- Hids. intros y Hy. apply in_flat_map. exists it. split; assumption. }
  pose proof (channel_view e dbeh (reflD e dbeh) its stF evs revs Hdec Hevs Hc) as Hrevs.
  pose proof (decode_view e dbeh (reflD e dbeh) its (es_shared stF) Hdec (dict_is_bytes e stF (hash_ok_bytes e Hh) Hst)) as Hd. cbv zeta in Hd.
  rewrite <- Hrevs, Hd' in Hd.
  set (F := flattens its 0 1) in *.
  destruct (flattens_facts its 0 1) as (A1 & A2 & A3). fold F in A1, A2, A3.
  destruct (flattens_nodes e ebeh d (es_map stF) (es_shared stF) its Hok 0 1) as (B1 & _ & _). fold F in B1.
  assert (HidsF : List.map fn_id F = written d roots) by (rewrite A3; exact Hids).
  assert (HlabF : List.map fn_label F = nseq 1 (length F)) by (rewrite A2, A1; reflexivity).
  (* the reflective reader's nodes and queues are those of the plain reader on the renamed elements *)
  assert (Hnodes : forall fn, In fn F ->
            dnode_of (reflD e dbeh) fn = dnode_of0 (trfn e keep fn) /\ rw_of (reflD e dbeh) fn = rw_of0 (trfn e keep fn) /\
            srw_of (reflD e dbeh) fn = srw_of0 (trfn e keep fn)).
  { intros fn Hfn. rewrite Forall_forall in B1.
    assert (HidW : In (fn_id fn) (written d roots)) by (rewrite <- HidsF; now apply in_map).
    destruct (node_facts e vc keep d roots Hin Hk _ _ fn (B1 fn Hfn) HidW) as (i & Hf & Hcl & _ & _ & _ & Hrdo & _ & Hnn).
    destruct (Hk _ i HidW Hf) as (Hname & _ & _).
    apply (node_rewrite e keep fn); [rewrite Hcl; exact Hname|rewrite Hcl; exact Hrdo|exact Hnn]. }
  set (F' := List.map (trfn e keep) F).
  assert (E1 : List.map (dnode_of (reflD e dbeh)) F = List.map dnode_of0 F').
  { unfold F'. rewrite map_map. apply map_ext_in. intros fn Hfn. apply (Hnodes fn Hfn). }
  assert (E2 : flat_map (rw_of (reflD e dbeh)) F = flat_map rw_of0 F').
  { unfold F'. apply flat_map_map_in. intros fn Hfn. apply (Hnodes fn Hfn). }
  assert (E3 : flat_map (srw_of (reflD e dbeh)) F = flat_map srw_of0 F').
  { unfold F'. apply flat_map_map_in. intros fn Hfn. apply (Hnodes fn Hfn). }
  assert (E4 : List.map ref_of F = List.map ref_of F') by (unfold F'; rewrite map_map; reflexivity).
  rewrite E1, E2, E3, E4, second_pass in Hd. inversion Hd as [Hd'']. clear Hd.
  destruct Hst as (_ & Hinj & Hdh).
  rewrite <- HidsF at 2. unfold F'. rewrite map_map. apply Forall2_map_same. apply Forall_forall. intros fn Hfn.
  fold F'. rewrite <- E4.
  exact (node_known_back e vc keep d roots Hin Hh Hk (es_map stF) (es_shared stF) F Hinj Hsorted Hdh B1 HidsF HlabF fn Hfn).
Qed.
Print Assumptions xml_roundtrip_known.

(* ---- a legacy property next to an explicit value of the new property: the explicit value stays.  When the writer finds an
   explicit new value ([explicit_b] = true) the instance carries ANOTHER key whose canonical name is the migration target's, and
   (by that key's own clause of [props_known_back]) the new canonical name holds [norm_known] of THAT key's value; the statement
   speaks of the property map, so the order in which the instance lists the two is irrelevant
   (two_spellings_listing_irrelevant below; Proofs/MigratePaths.v xml_read_explicit_then_legacy / xml_read_legacy_then_explicit) *)
Lemma explicit_key e c keys k q qd qs :
  find_desc_xml (xe_db e) (S_ c) q = Ok (Some (qd, qs)) ->
  (forall k2, In k2 keys -> exists r, kdesc e c k2 = Ok r) ->
  explicit_b e c keys k q = true ->
  exists k2 canon2 ser2, In k2 keys /\ k2 <> k /\ kdesc e c k2 = Ok (Some (canon2, ser2)) /\ pd_name canon2 = pd_name qd.
Proof.
  intros Hq Ht Hex. unfold explicit_b in Hex. rewrite (Xml.has_explicit_new_value_spec e c k q qd qs keys Hq Ht) in Hex.
  destruct (existsb (Xml.other_key_is (xe_db e) c k (pd_name qd)) keys) eqn:Ee; [|discriminate].
  apply existsb_exists in Ee. destruct Ee as (k2 & Hin & Ho). unfold Xml.other_key_is, Xml.canon_name_xml in Ho.
  apply andb_true_iff in Ho. destruct Ho as [Hne Hc].
  destruct (Ht k2 Hin) as (r & Hr). unfold kdesc in Hr. rewrite Hr in Hc. destruct r as [[canon2 ser2]|]; [|discriminate].
  exists k2, canon2, ser2. split; [exact Hin|]. split; [|split; [exact Hr|now apply String.eqb_eq]].
  intro E. subst k2. rewrite bytes_eqb_refl in Hne. discriminate.
Qed.
Theorem explicit_value_stays e vc keep W c keys ps ps' k v canon ser q op qd qs :
  props_known_back e vc keep W c keys ps ps' ->
  (forall k2, In k2 keys -> exists v2, In (k2, v2) ps) -> (forall k2, In k2 keys -> exists r, kdesc e c k2 = Ok r) ->
  In (k, v) ps -> kdesc e c k = Ok (Some (canon, ser)) -> mig_of ser = Some (q, op) ->
  find_desc_xml (xe_db e) (S_ c) q = Ok (Some (qd, qs)) -> explicit_b e c keys k q = true ->
  bfind k ps' = None /\
  exists k2 v2 canon2 ser2, In (k2, v2) ps /\ k2 <> k /\ kdesc e c k2 = Ok (Some (canon2, ser2)) /\ pd_name canon2 = pd_name qd /\
    (mig_of ser2 = None ->
     exists v', bfind (B (pd_name qd)) ps' = Some v' /\
                value_known_back e vc W (dtype_vt (pd_type ser2)) (dtype_vt (pd_type canon2)) v2 v').
Proof.
  intros (_ & Hprops & _) Hkeys Ht Hkv Hk Hm Hq Hex. split.
  - pose proof (Hprops k v Hkv) as H. rewrite Hk, Hm in H. exact (proj1 H).
  - destruct (explicit_key e c keys k q qd qs Hq Ht Hex) as (k2 & canon2 & ser2 & Hin2 & Hne & Hk2 & Hn2).
    destruct (Hkeys k2 Hin2) as (v2 & Hkv2). exists k2, v2, canon2, ser2. repeat split; try assumption.
    intro Hm2. pose proof (Hprops k2 v2 Hkv2) as H. rewrite Hk2, Hm2 in H. rewrite <- Hn2. exact H.
Qed.

(* ================================================================= (5) H3: the database hypotheses as an executable check *)
From RbxVerif Require Import DbFacts.
From RbxVerif Require Database.
Open Scope string_scope.

Definition migop_eqb (a b : migop) : bool :=
  match a, b with MigInset, MigInset | MigFont, MigFont | MigBrick, MigBrick | MigContent, MigContent => true | _, _ => false end.
Definition pser_eqb (a b : pser) : bool :=
  match a, b with
  | PSerializes, PSerializes | PDoesNot, PDoesNot => true
  | PSerAs n, PSerAs n' => String.eqb n n'
  | PMigrate t o, PMigrate t' o' => String.eqb t t' && migop_eqb o o'
  | _, _ => false
  end.
Definition pkind_eqb (a b : pkind) : bool :=
  match a, b with KCanon s, KCanon s' => pser_eqb s s' | KAlias t, KAlias t' => String.eqb t t' | _, _ => false end.
Definition dtype_eqb (a b : dtype) : bool :=
  match a, b with DValue n, DValue n' => N.eqb n n' | DEnum s, DEnum s' => String.eqb s s' | _, _ => false end.
Definition pdesc_eqb (a b : pdesc) : bool :=
  String.eqb (pd_name a) (pd_name b) && dtype_eqb (pd_type a) (pd_type b) && pkind_eqb (pd_kind a) (pd_kind b).
Lemma pdesc_eqb_sound a b : pdesc_eqb a b = true -> a = b.
Proof.
  destruct a as [n t k], b as [n' t' k']. unfold pdesc_eqb. cbn [pd_name pd_type pd_kind]. rewrite !andb_true_iff. intros [[H1 H2] H3].
  apply String.eqb_eq in H1. subst n'. f_equal.
  - destruct t, t'; cbn [dtype_eqb] in H2; try discriminate; [apply N.eqb_eq in H2|apply String.eqb_eq in H2]; now subst.
  - destruct k as [s|s], k' as [s'|s']; cbn [pkind_eqb] in H3; try discriminate; [|apply String.eqb_eq in H3; now subst].
    destruct s, s'; cbn [pser_eqb] in H3; try discriminate; try reflexivity.
    + apply String.eqb_eq in H3. now subst.
    + apply andb_true_iff in H3. destruct H3 as [H3 H4]. apply String.eqb_eq in H3. subst. destruct op, op0; try discriminate; reflexivity.
Qed.

(* the serialized name, looked up again from the same class, leads back to the same canonical descriptor *)
Definition back_b (d : db) (cn : string) (canon ser : pdesc) : bool :=
  match find_desc_xml d cn (pd_name ser) with Ok (Some (canon', _)) => pdesc_eqb canon canon' | _ => false end.
(* the target of a migration, looked up from the same class, is a canonical, non-migrating property other than `Name` *)
Definition mig_target_b (d : db) (cn q : string) : bool :=
  match find_desc_xml d cn q with
  | Ok (Some (qd, _)) => negb (is_migrate qd) && negb (String.eqb (pd_name qd) "Name")
  | _ => false
  end.
(* the key [k] met on an instance of class [cn] satisfies the database part of [known_prop_ok] *)
Definition key_ok_b (d : db) (cn k : string) : bool :=
  match find_desc_xml d cn k with
  | Ok (Some (canon, ser)) =>
      match mig_of ser with
      | Some (q, _) => mig_target_b d cn q
      | None => is_migrate canon || (negb (String.eqb (pd_name canon) "Name") && back_b d cn canon ser)
      end
  | Ok None => true
  | _ => false
  end.
Definition mem_pair (x : string * string) (l : list (string * string)) : bool :=
  existsb (fun y => String.eqb (fst x) (fst y) && String.eqb (snd x) (snd y)) l.
Lemma mem_pair_in x l : mem_pair x l = true -> In x l.
Proof.
  unfold mem_pair. intro H. apply existsb_exists in H. destruct H as ([a b] & Hin & E). destruct x as [a' b']. cbn [fst snd] in E.
  apply andb_true_iff in E. destruct E as [E1 E2]. apply String.eqb_eq in E1. apply String.eqb_eq in E2. now subst.
Qed.
(* every key an instance of a class of the database can carry, other than `Name` and the listed exceptions, is fine *)
Definition db_keys_ok (d : db) (exc : list (string * string)) : bool :=
  forallb (fun c => forallb (fun p => String.eqb (pd_name p) "Name" || key_ok_b d (cd_name c) (pd_name p) || mem_pair (cd_name c, pd_name p) exc)
                            (visible_props d c)) (db_classes d).
(* `Name`, looked up from a class of the database, is unknown (DoesNotSerialize) or the canonical `Name` *)
Definition db_names_ok (d : db) : bool :=
  forallb (fun c => match find_desc_xml d (cd_name c) "Name" with
                    | Ok None => true
                    | Ok (Some (canon, _)) => String.eqb (pd_name canon) "Name" && negb (is_migrate canon)
                    | _ => false
                    end) (db_classes d).

Lemma is_migrate_nonmig p : nonmig p <-> is_migrate p = false.
Proof. unfold nonmig, is_migrate. destruct (pd_kind p) as [[| | |to op]|]; split; intro H; try exact I; try reflexivity; try discriminate; contradiction. Qed.

(* a successful lookup found the key among the descriptors visible from the class *)
Lemma loop_visible d : forall f c pn r, chain_ok f d c = true -> forall f', (f <= f')%nat ->
  find_desc_xml_loop f' d c pn = Ok (Some r) ->
  exists a p, In a (superclasses f d c) /\ In p (cd_props a) /\ pd_name p = pn.
Proof.
  induction f as [|f IH]; intros c pn r Hch f' Hle H; [discriminate|]. destruct f' as [|f']; [lia|].
  cbn [find_desc_xml_loop] in H. cbn [superclasses].
  destruct (find_prop (cd_props c) pn) as [p|] eqn:Fp.
  - exists c, p. split; [now left|]. split; [eapply find_prop_in; exact Fp|eapply find_prop_name; exact Fp].
  - destruct (cd_super c) as [sn|] eqn:Hs; [|discriminate]. cbn [chain_ok] in Hch. rewrite Hs in Hch.
    destruct (get_class d sn) as [sc|] eqn:G; [|discriminate].
    assert (Hle' : (f <= f')%nat) by lia.
    destruct (IH sc pn r Hch f' Hle' H) as (a & p & Ha & Hp & Hn). exists a, p. split; [now right|]. split; assumption.
Qed.
Lemma lookup_visible d cn k r : db_coherent d = true -> find_desc_xml d cn k = Ok (Some r) ->
  exists c p, get_class d cn = Some c /\ In c (db_classes d) /\ cd_name c = cn /\ In p (visible_props d c) /\ pd_name p = k.
Proof.
  intros Hco H. unfold find_desc_xml in H. destruct (get_class d cn) as [c|] eqn:G; [|discriminate].
  assert (Hc : In c (db_classes d)) by (eapply find_class_in; exact G).
  destruct (safe_class d (coherent_safe d Hco) c Hc) as [Hch _]. unfold class_chain_ok in Hch.
  assert (Hle : (length (db_classes d) <= S (length (db_classes d)))%nat) by lia.
  destruct (loop_visible d _ c k r Hch _ Hle H) as (a & p & Ha & Hp & Hn).
  exists c, p. split; [reflexivity|]. split; [exact Hc|]. split; [eapply find_class_name; exact G|]. split; [|exact Hn].
  unfold visible_props. apply in_flat_map. exists a. split; assumption.
Qed.

(* the database part of [known_prop_ok], for every class name and every key, from the two checks *)
Theorem db_keys_ok_sound d exc : db_coherent d = true -> db_keys_ok d exc = true ->
  forall cn k canon ser, find_desc_xml d cn k = Ok (Some (canon, ser)) -> k <> "Name" -> ~ In (cn, k) exc ->
    nonmig ser -> nonmig canon ->
    pd_name canon <> "Name" /\ exists ser', find_desc_xml d cn (pd_name ser) = Ok (Some (canon, ser')).
Proof.
  intros Hco Hchk cn k canon ser Hl Hk Hexc Hms Hmc.
  destruct (lookup_visible d cn k _ Hco Hl) as (c & p & _ & Hc & <- & Hp & <-).
  unfold db_keys_ok in Hchk. rewrite forallb_forall in Hchk. specialize (Hchk c Hc). rewrite forallb_forall in Hchk. specialize (Hchk p Hp).
  apply orb_true_iff in Hchk. destruct Hchk as [Hchk|Hchk]; [|elim Hexc; now apply mem_pair_in].
  apply orb_true_iff in Hchk. destruct Hchk as [Hchk|Hchk]; [apply String.eqb_eq in Hchk; contradiction|].
  unfold key_ok_b in Hchk. rewrite Hl in Hchk. apply mig_of_none in Hms. apply is_migrate_nonmig in Hmc. rewrite Hms, Hmc in Hchk.
  cbn [orb] in Hchk. apply andb_true_iff in Hchk. destruct Hchk as [H1 H2]. split.
  - apply negb_true_iff in H1. now apply String.eqb_neq.
  - unfold back_b in H2. destruct (find_desc_xml d (cd_name c) (pd_name ser)) as [[[canon' ser']|]| |cc|]; try discriminate.
    apply pdesc_eqb_sound in H2. subst canon'. eauto.
Qed.
Theorem db_keys_ok_sound_mig d exc : db_coherent d = true -> db_keys_ok d exc = true ->
  forall cn k canon ser q op, find_desc_xml d cn k = Ok (Some (canon, ser)) -> k <> "Name" -> ~ In (cn, k) exc ->
    mig_of ser = Some (q, op) ->
    exists qd qs, find_desc_xml d cn q = Ok (Some (qd, qs)) /\ nonmig qd /\ pd_name qd <> "Name".
Proof.
  intros Hco Hchk cn k canon ser q op Hl Hk Hexc Hm.
  destruct (lookup_visible d cn k _ Hco Hl) as (c & p & _ & Hc & <- & Hp & <-).
  unfold db_keys_ok in Hchk. rewrite forallb_forall in Hchk. specialize (Hchk c Hc). rewrite forallb_forall in Hchk. specialize (Hchk p Hp).
  apply orb_true_iff in Hchk. destruct Hchk as [Hchk|Hchk]; [|elim Hexc; now apply mem_pair_in].
  apply orb_true_iff in Hchk. destruct Hchk as [Hchk|Hchk]; [apply String.eqb_eq in Hchk; contradiction|].
  unfold key_ok_b in Hchk. rewrite Hl, Hm in Hchk. unfold mig_target_b in Hchk.
  destruct (find_desc_xml d (cd_name c) q) as [[[qd qs]|]| |cc|]; try discriminate.
  apply andb_true_iff in Hchk. destruct Hchk as [H1 H2]. exists qd, qs. split; [reflexivity|]. split.
  - apply is_migrate_nonmig. now apply negb_true_iff.
  - apply negb_true_iff in H2. now apply String.eqb_neq.
Qed.
Theorem db_names_ok_sound e : db_names_ok (xe_db e) = true -> forall c, name_ok e c.
Proof.
  intros Hchk c. unfold name_ok. unfold find_desc_xml at 1 2. destruct (get_class (xe_db e) (S_ c)) as [cd|] eqn:G; [|now left].
  assert (Hc : In cd (db_classes (xe_db e))) by (eapply find_class_in; exact G).
  pose proof (find_class_name _ _ _ G) as Hn.
  unfold db_names_ok in Hchk. rewrite forallb_forall in Hchk. specialize (Hchk cd Hc). unfold find_desc_xml in Hchk. rewrite Hn, G in Hchk.
  destruct (find_desc_xml_loop _ (xe_db e) cd "Name") as [[[canon ser]|]| |cc|]; try discriminate; [|now left].
  apply andb_true_iff in Hchk. destruct Hchk as [H1 H2]. right. exists canon, ser. split; [reflexivity|]. split; [now apply String.eqb_eq|].
  apply is_migrate_nonmig. now apply negb_true_iff.
Qed.

(* ---- the hypotheses on the DOM that are left when the database passes the checks: per property, that it does not migrate,
   is not a listed exception, and its value converts; per instance, one spelling per logical property *)
Definition db_dom (e : xenv) (vc : vcodec (xe_o e)) (keep : bool) (exc : list (string * string)) (d : cdom) (roots : list N) : Prop :=
  forall id i, In id (written d roots) -> find_inst d id = Some i ->
    (forall k v, In (k, v) (i_props i) ->
       S_ k <> "Name" /\ ~ In (S_ (i_class i), S_ k) exc /\
       match kdesc e (i_class i) k with
       | Ok (Some (canon, ser)) =>
           match mig_of ser with
           | Some (q, op) =>
               (forall k2, In k2 (ikeys i) -> okey e keep (i_class i) (ikeys i) k2 <> Some k) /\
               forall qd qs, find_desc_xml (xe_db e) (S_ (i_class i)) q = Ok (Some (qd, qs)) ->
                 mig_val_ok e vc op (dtype_vt (pd_type ser)) (dtype_vt (pd_type qd)) (explicit_b e (i_class i) (ikeys i) k q) v
           | None => nonmig ser /\ nonmig canon /\ val_ok e vc (dtype_vt (pd_type ser)) (dtype_vt (pd_type canon)) v
           end
       | _ => if keep then nonspecial v -> vc_ok vc v else True
       end) /\
    one_spelling e keep (i_class i) (ikeys i).

Lemma db_dom_known e vc keep exc d roots :
  db_coherent (xe_db e) = true -> db_keys_ok (xe_db e) exc = true -> db_names_ok (xe_db e) = true ->
  db_dom e vc keep exc d roots -> known_dom e vc keep d roots.
Proof.
  intros Hco Hkeys Hnames Hd id i Hid Hf. destruct (Hd id i Hid Hf) as [Hp H1].
  split; [apply db_names_ok_sound, Hnames|]. split; [|exact H1].
  intros k v Hkv. destruct (Hp k v Hkv) as (Hkn & Hexc & Hv). unfold known_prop_ok.
  destruct (coherent_lookups_total (xe_db e) Hco (S_ (i_class i)) (S_ k)) as [_ (r & Hr)]. unfold kdesc in *. rewrite Hr in *.
  destruct r as [[canon ser]|]; [|exact Hv]. destruct (mig_of ser) as [[q op]|] eqn:Em.
  - destruct Hv as (Hfree & Hv).
    destruct (db_keys_ok_sound_mig (xe_db e) exc Hco Hkeys _ _ canon ser q op Hr Hkn Hexc Em) as (qd & qs & Hq & Hmq & Hnq).
    split; [|split; [exact Hfree|exists qd, qs; repeat split; try assumption; exact (Hv qd qs Hq)]].
    eexists. apply (Xml.has_explicit_new_value_spec e (i_class i) k q qd qs (ikeys i) Hq).
    intros k2 _. exact (proj2 (coherent_lookups_total (xe_db e) Hco (S_ (i_class i)) (S_ k2))).
  - destruct Hv as (Hms & Hmc & Hv).
    destruct (db_keys_ok_sound (xe_db e) exc Hco Hkeys _ _ canon ser Hr Hkn Hexc Hms Hmc) as [Hnn Hback].
    repeat split; assumption.
Qed.

Theorem xml_roundtrip_known_db e vc keep exc d roots evs revs :
  db_coherent (xe_db e) = true -> db_keys_ok (xe_db e) exc = true -> db_names_ok (xe_db e) = true ->
  input_ok d roots -> hash_ok e -> db_dom e vc keep exc d roots ->
  xml_encode e (ebeh_of keep) d roots = Ok evs -> channel evs = Ok revs ->
  exists d', xml_decode e (dbeh_of keep) revs = Ok d' /\ forest_rel d roots d' /\
             Forall2 (known_back e vc keep d (written d roots)) (written d roots) d'.
Proof.
  intros Hco Hkeys Hnames Hin Hh Hd. apply xml_roundtrip_known; try assumption. eapply db_dom_known; eassumption.
Qed.
Print Assumptions xml_roundtrip_known_db.
Print Assumptions explicit_value_stays.

(* ---- the bundled database: every key of every class leads back, except two *)
Definition bundled_exceptions : list (string * string) := [("MaterialService", "Use2022Materials"); ("Sound", "MaxDistance")].
Theorem bundled_keys_ok : db_keys_ok Database.database bundled_exceptions = true.
Proof. vm_cast_no_check (eq_refl true). Qed.
Theorem bundled_names_ok : db_names_ok Database.database = true.
Proof. vm_cast_no_check (eq_refl true). Qed.
(* the exhaustive domain of the two computations *)
Theorem bundled_keys_count :
  N.of_nat (list_sum (List.map (fun c => length (visible_props Database.database c)) (db_classes Database.database))) = 22588%N.
Proof. vm_cast_no_check (eq_refl 22588%N). Qed.

Theorem xml_roundtrip_known_bundled e vc keep d roots evs revs :
  xe_db e = Database.database ->
  input_ok d roots -> hash_ok e -> db_dom e vc keep bundled_exceptions d roots ->
  xml_encode e (ebeh_of keep) d roots = Ok evs -> channel evs = Ok revs ->
  exists d', xml_decode e (dbeh_of keep) revs = Ok d' /\ forest_rel d roots d' /\
             Forall2 (known_back e vc keep d (written d roots)) (written d roots) d'.
Proof.
  intro Edb. apply xml_roundtrip_known_db; rewrite Edb; [exact bundled_coherent|exact bundled_keys_ok|exact bundled_names_ok].
Qed.
Print Assumptions xml_roundtrip_known_bundled.
Print Assumptions bundled_keys_ok.

(* (c) [one_spelling] is decidable per instance *)
Definition one_spelling_b (e : xenv) (keep : bool) (c : bytes) (keys : list bytes) : bool :=
  forallb (fun k1 => forallb (fun k2 => bytes_eqb k1 k2 ||
                                        match okey e keep c keys k1, okey e keep c keys k2 with
                                        | Some t1, Some t2 => negb (bytes_eqb t1 t2)
                                        | _, _ => true
                                        end) keys) keys.
Lemma one_spelling_b_sound e keep c keys : one_spelling_b e keep c keys = true -> one_spelling e keep c keys.
Proof.
  unfold one_spelling_b. intros H k1 k2 t H1 H2 T1 T2. rewrite forallb_forall in H. specialize (H k1 H1). rewrite forallb_forall in H.
  specialize (H k2 H2). rewrite T1, T2, bytes_eqb_refl in H. cbn [negb] in H. rewrite orb_false_r in H. now apply beqb_true_iff.
Qed.


(* ================================================================= (6) non-vacuity *)
Open Scope N_scope.
Set Warnings "-unused-intro-pattern".
Definition q_k (x : f32) : N := if x =? F32_ONE then 255 else if x =? F32_HALF then 128 else 0.
Definition o_k : xoracle := mkXO (xo_show32 o1) (fun _ => None) (xo_parse32 o1) (fun _ => None) (fun x => Some (q_k x)) (fun _ => None).
Definition hash_k (c : bytes) : option bytes := if bytes_eqb c (B "xyz") then Some h_a else if bytes_eqb c (B "abc") then Some h_c else None.
Definition db_k : db := mkDb
  [mkCD "Instance" None false
     [mkPD "Name" (DValue 24) (KCanon PSerializes); mkPD "Archivable" (DValue 2) (KCanon PSerializes);
      mkPD "archivable" (DValue 2) (KAlias "Archivable")] [];
   mkCD "Part" (Some "Instance") false
     [mkPD "Size" (DValue 29) (KCanon (PSerAs "size")); mkPD "size" (DValue 29) (KAlias "Size");
      mkPD "Color" (DValue 5) (KCanon (PSerAs "Color3uint8")); mkPD "Color3uint8" (DValue 6) (KAlias "Color");
      mkPD "Transparency" (DValue 11) (KCanon PSerializes);
      mkPD "Target" (DValue 20) (KCanon PSerializes);
      mkPD "Mesh" (DValue 23) (KCanon PSerializes);
      mkPD "BrickColor" (DValue 3) (KCanon (PMigrate "Color" MigBrick))] []] [].
Definition e_k : xenv := mkXE db_k [] [(194, (163, 162, 165))] o_k hash_k.
Definition d_k : cdom :=
  [mkInst 1 0 (B "Part") (B "p")
     [(B "Size", VVector3 (mkV3 F32_ONE F32_NNAN F32_ZERO)); (B "Color", VColor3 F32_ONE F32_HALF F32_ZERO); (B "Target", VRef 2);
      (B "Mesh", VSharedString (B "xyz")); (B "Mystery", VBool true); (B "archivable", VBool false); (B "BrickColor", VBrickColor 194)];
   mkInst 2 1 (B "Part") (B " kid ")
     [(B "size", VVector3 (mkV3 F32_HALF F32_ONE F32_ZERO)); (B "Target", VRef 1); (B "Transparency", VFloat32 F32_HALF); (B "BrickColor", VBrickColor 194)];
   mkInst 3 1 (B "Gizmo") (B "g") [(B "Whatever", VInt32 5); (B "Up", VRef 1)]].
Lemma o_k_float_laws : float_laws o_k.
Proof. split; [exact o1_float_text_law|]. intros x t _ _ _ H. discriminate H. Qed.
Lemma e_k_hash_ok : hash_ok e_k.
Proof. exact e_rt_hash_ok. Qed.
Definition vc_k : vcodec (xe_o e_k) := simple_codec (xe_o e_k) o_k_float_laws.

Ltac kdesc_compute :=
  match goal with |- context [kdesc ?e ?c ?k] => let r := eval vm_compute in (kdesc e c k) in change (kdesc e c k) with r; cbv iota beta; cbn [mig_of pd_kind] end.
Ltac vc_ok_solve := vm_compute; repeat split; first [exact I|reflexivity|discriminate].
Ltac val_ok_solve :=
  cbn [val_ok];
  first [ exact I | reflexivity
        | eexists; split; [vm_compute; reflexivity|]; split; [vc_ok_solve|eexists; vm_compute; reflexivity] ].
Ltac mig_solve :=
  split;
  [ let k2 := fresh "k2" in let Hk2 := fresh "Hk2" in
    intros k2 Hk2; vm_compute in Hk2; repeat (destruct Hk2 as [<-|Hk2]); try contradiction; vm_compute; discriminate
  | let qd := fresh "qd" in let qs := fresh "qs" in let Hq := fresh "Hq" in let Hex := fresh "Hex" in
    intros qd qs Hq; vm_compute in Hq; inversion Hq; subst qd qs; clear Hq; unfold mig_val_ok; eexists; split; [vm_compute; reflexivity|];
    intro Hex;
    first [ vm_compute in Hex; discriminate Hex
          | eexists; split; [vm_compute; reflexivity|]; split; [vc_ok_solve|eexists; vm_compute; reflexivity] ] ].
Ltac prop_solve keep :=
  first [ split; [exact I|split; [exact I|val_ok_solve]]
        | mig_solve
        | destruct keep; [intros _; vc_ok_solve|exact I]
        | intros _; vc_ok_solve | exact I ].

Lemma d_k_dom keep : db_dom e_k vc_k keep [] d_k [1].
Proof.
  assert (HW : written d_k [1] = [1; 2; 3]) by reflexivity.
  intros id i Hid Hf. rewrite HW in Hid. cbn [In] in Hid.
  destruct keep.
  all: destruct Hid as [<-|[<-|[<-|[]]]]; vm_compute in Hf; inversion Hf; subst i; cbn [i_class i_props]; split.
  all: try (apply one_spelling_b_sound; vm_compute; reflexivity).
  all: intros k v Hkv; cbn [In] in Hkv;
       repeat (destruct Hkv as [Hkv|Hkv]; [inversion Hkv; subst k v; clear Hkv|]); try contradiction;
       (split; [vm_compute; discriminate|]); (split; [intros []|]); kdesc_compute.
  all: first [ split; [exact I|split; [exact I|val_ok_solve]] | mig_solve | intros _; vc_ok_solve | exact I ].
Qed.

Definition d_k_back : cdom :=
  [mkInst 1 0 (B "Part") (B "p")
     [(B "Mesh", VSharedString (B "xyz")); (B "Target", VRef 2); (B "Archivable", VBool false);
      (B "Size", VVector3 (mkV3 F32_ONE F32_NAN F32_ZERO)); (B "Color", VColor3uint8 255 128 0)];
   mkInst 2 1 (B "Part") (B " kid ")
     [(B "Target", VRef 1); (B "Size", VVector3 (mkV3 F32_HALF F32_ONE F32_ZERO)); (B "Transparency", VFloat32 F32_HALF);
      (B "Color", VColor3uint8 163 162 165)];
   mkInst 3 1 (B "Gizmo") (B "g") []].
Definition d_k_back_keep : cdom :=
  [mkInst 1 0 (B "Part") (B "p")
     [(B "Mesh", VSharedString (B "xyz")); (B "Target", VRef 2); (B "Archivable", VBool false);
      (B "Size", VVector3 (mkV3 F32_ONE F32_NAN F32_ZERO)); (B "Mystery", VBool true); (B "Color", VColor3uint8 255 128 0)];
   mkInst 2 1 (B "Part") (B " kid ")
     [(B "Target", VRef 1); (B "Size", VVector3 (mkV3 F32_HALF F32_ONE F32_ZERO)); (B "Transparency", VFloat32 F32_HALF);
      (B "Color", VColor3uint8 163 162 165)];
   mkInst 3 1 (B "Gizmo") (B "g") [(B "Up", VRef 1); (B "Whatever", VInt32 5)]].

(* H2 / H3 (generic check) are not vacuous: a database with a superclass, aliases (`size`, `archivable`, `Color3uint8`), SerializesAs
   with and without a change of type, a Ref and a SharedString property and a migrating property (not used); a DOM with a
   canonical spelling and an alias spelling, a Color3 that is quantised, a NaN that is canonicalised, Refs both ways, a
   SharedString, a property the database does not know and an instance of a class it does not know; a legacy BrickColor next to
   an explicit Color (instance 1: the explicit value stays) and a legacy BrickColor alone (instance 2: Color holds the migrated
   value); the legacy name is gone in both *)
Example xml_roundtrip_known_example :
  db_coherent db_k = true /\ db_keys_ok db_k [] = true /\ db_names_ok db_k = true /\
  input_ok d_k [1] /\ hash_ok e_k /\ db_dom e_k vc_k false [] d_k [1] /\ db_dom e_k vc_k true [] d_k [1] /\
  thru e_k EIgnoreUnknown DIgnoreUnknown d_k [1] = Ok d_k_back /\
  thru e_k EWriteUnknown DReadUnknown d_k [1] = Ok d_k_back_keep /\
  (* ... which is what the theorem predicts *)
  Forall2 (known_back e_k vc_k false d_k [1; 2; 3]) [1; 2; 3] d_k_back /\ Forall2 (known_back e_k vc_k true d_k [1; 2; 3]) [1; 2; 3] d_k_back_keep.
Proof.
  assert (Hin : input_ok d_k [1]) by (apply input_okb_sound; vm_compute; reflexivity).
  assert (T1 : thru e_k EIgnoreUnknown DIgnoreUnknown d_k [1] = Ok d_k_back) by (vm_compute; reflexivity).
  assert (T2 : thru e_k EWriteUnknown DReadUnknown d_k [1] = Ok d_k_back_keep) by (vm_compute; reflexivity).
  assert (C1 : db_coherent db_k = true) by (vm_compute; reflexivity).
  assert (C2 : db_keys_ok db_k [] = true) by (vm_compute; reflexivity).
  assert (C3 : db_names_ok db_k = true) by (vm_compute; reflexivity).
  repeat (split; [first [assumption|exact e_k_hash_ok|apply d_k_dom]|]).
  assert (G : forall keep back, thru e_k (ebeh_of keep) (dbeh_of keep) d_k [1] = Ok back -> Forall2 (known_back e_k vc_k keep d_k [1; 2; 3]) [1; 2; 3] back).
  { intros keep back T. unfold thru in T.
    destruct (xml_encode e_k (ebeh_of keep) d_k [1]) as [evs| | |] eqn:He; cbn [rbind] in T; try discriminate T.
    destruct (channel evs) as [revs| | |] eqn:Hc; cbn [rbind] in T; try discriminate T.
    destruct (xml_roundtrip_known_db e_k vc_k keep [] d_k [1] evs revs C1 C2 C3 Hin e_k_hash_ok (d_k_dom keep) He Hc) as (d' & Hd' & _ & H).
    rewrite T in Hd'. inversion Hd'; subst d'. exact H. }
  split; [exact (G false _ T1)|exact (G true _ T2)].
Qed.

(* H1 is not vacuous: the alias `size` of Part.Size (serialized as `size`), a Vector3 with a NaN *)
Example known_prop_step_example :
  find_desc_xml (xe_db e_k) (S_ (B "Part")) (S_ (B "size")) =
    Ok (Some (mkPD "Size" (DValue 29) (KCanon (PSerAs "size")), mkPD "size" (DValue 29) (KAlias "Size"))) /\
  find_desc_xml (xe_db e_k) (S_ (B "Part")) "size" =
    Ok (Some (mkPD "Size" (DValue 29) (KCanon (PSerAs "size")), mkPD "size" (DValue 29) (KAlias "Size"))) /\
  (exists ev, serialize_property e_k EIgnoreUnknown (B "Part") [B "size"] es0 (B "size") (VVector3 (mkV3 F32_ONE F32_NNAN F32_ZERO)) = Ok (ev, es0)) /\
  norm_known (xe_o e_k) norm_simple 29 29 (VVector3 (mkV3 F32_ONE F32_NNAN F32_ZERO)) = Ok (VVector3 (mkV3 F32_ONE F32_NAN F32_ZERO)) /\
  norm_known (xe_o e_k) norm_simple 6 5 (VColor3 F32_ONE F32_HALF F32_ZERO) = Ok (VColor3uint8 255 128 0).
Proof. repeat split; try (vm_compute; reflexivity). eexists. vm_compute. reflexivity. Qed.

(* ---- H3 on the bundled database itself: a Model with a Part (alias spelling `size`; Color, serialized as Color3uint8) *)
Definition e_b : xenv := mkXE Database.database MigrationTables.font_migration_table MigrationTables.brick_color_table o_k hash_k.
Definition vc_b : vcodec (xe_o e_b) := simple_codec (xe_o e_b) o_k_float_laws.
Definition d_b : cdom :=
  [mkInst 1 0 (B "Model") (B "m") [(B "PrimaryPart", VRef 2); (B "ModelMeshData", VSharedString (B "abc")); (B "Mystery", VInt32 7)];
   mkInst 2 1 (B "Part") (B "p")
     [(B "size", VVector3 (mkV3 F32_ONE F32_NNAN F32_ZERO)); (B "Color", VColor3 F32_ONE F32_HALF F32_ZERO); (B "Anchored", VBool true);
      (B "Transparency", VFloat32 F32_HALF); (B "BrickColor", VBrickColor 194)];
   mkInst 3 1 (B "Part") (B "q") [(B "brickColor", VBrickColor 194)];
   mkInst 4 1 (B "TextLabel") (B "t") [(B "Font", VEnum 3)];
   mkInst 5 1 (B "ScreenGui") (B "g") [(B "IgnoreGuiInset", VBool true)];
   mkInst 6 1 (B "ImageLabel") (B "i") [(B "Image", VContentId (B "rbxasset://x"))]].
Definition d_b_back : cdom :=
  [mkInst 1 0 (B "Model") (B "m") [(B "ModelMeshData", VSharedString (B "abc")); (B "PrimaryPart", VRef 2)];
   mkInst 2 1 (B "Part") (B "p")
     [(B "Size", VVector3 (mkV3 F32_ONE F32_NAN F32_ZERO)); (B "Transparency", VFloat32 F32_HALF); (B "Color", VColor3uint8 255 128 0);
      (B "Anchored", VBool true)];
   mkInst 3 1 (B "Part") (B "q") [(B "Color", VColor3uint8 163 162 165)];
   mkInst 4 1 (B "TextLabel") (B "t") [(B "FontFace", VFont (mkFont (B "rbxasset://fonts/families/SourceSansPro.json") 400 0 None))];
   mkInst 5 1 (B "ScreenGui") (B "g") [(B "ScreenInsets", VEnum 1)];
   mkInst 6 1 (B "ImageLabel") (B "i") [(B "ImageContent", VContent (CUri (B "rbxasset://x")))]].

Lemma d_b_dom : db_dom e_b vc_b false bundled_exceptions d_b [1].
Proof.
  assert (HW : written d_b [1] = [1; 2; 3; 4; 5; 6]) by reflexivity.
  intros id i Hid Hf. rewrite HW in Hid. cbn [In] in Hid.
  destruct Hid as [<-|[<-|[<-|[<-|[<-|[<-|[]]]]]]]; vm_compute in Hf; inversion Hf; subst i; cbn [i_class i_props]; split.
  all: try (apply one_spelling_b_sound; vm_compute; reflexivity).
  all: intros k v Hkv; cbn [In] in Hkv;
       repeat (destruct Hkv as [Hkv|Hkv]; [inversion Hkv; subst k v; clear Hkv|]); try contradiction;
       (split; [vm_compute; discriminate|]);
       (split; [cbn [bundled_exceptions In]; intros [E|[E|[]]]; vm_compute in E; discriminate E|]); kdesc_compute.
  all: first [ split; [exact I|split; [exact I|val_ok_solve]] | mig_solve | exact I ].
Qed.

(* H3 on the bundled database with the regenerated migration tables: alias spelling, quantised Color3, Ref, SharedString, an
   unknown property; BrickColor next to an explicit Color (instance 2), the legacy alias `brickColor` alone (3), Enum.Font ->
   FontFace (4), IgnoreGuiInset -> ScreenInsets (5), a ContentId-typed Image -> ImageContent (6) *)
Example xml_roundtrip_known_bundled_example :
  input_ok d_b [1] /\ hash_ok e_b /\ db_dom e_b vc_b false bundled_exceptions d_b [1] /\
  thru e_b EIgnoreUnknown DIgnoreUnknown d_b [1] = Ok d_b_back.
Proof.
  split; [apply input_okb_sound; vm_compute; reflexivity|]. split; [exact e_rt_hash_ok|].
  split; [exact d_b_dom|]. vm_compute. reflexivity.
Qed.

(* ================================================================= (7) H4: two spellings of one logical property on one instance *)
(* (a) The outcome is a function of the property MAP, not of the order in which the instance lists it: the writer sorts the
   properties by key before writing them (Proofs/XmlDeterminism.v), whatever the spellings. *)
Theorem two_spellings_listing_irrelevant e eb db d d' roots :
  props_permuted d d' -> thru e eb db d' roots = thru e eb db d roots.
Proof. intro H. unfold thru. rewrite (xml_encode_props_order e eb d d' roots H). reflexivity. Qed.

(* (b) Which value survives: the reader files the elements in the order they were written, which is the byte order of the DOM
   keys; of the elements filed under one key the LAST one stays (HashMap::insert).  So of two spellings of one logical
   property the one whose key is greater in byte order wins (`size` over `Size`; `RollOffMaxDistance` over `MaxDistance`). *)
Fixpoint blast {V} (k : bytes) (l : list (bytes * V)) (acc : option V) : option V :=
  match l with [] => acc | (k', v) :: r => blast k r (if bytes_eqb k k' then Some v else acc) end.
Lemma bfind_bupd_all_last {V} k (l : list (bytes * V)) : forall acc, bfind k (bupd_all l acc) = blast k l (bfind k acc).
Proof. induction l as [|[k' v] l IH]; intro acc; [reflexivity|]. rewrite bupd_all_cons, IH. cbn [fst snd blast]. rewrite bfind_bupd. reflexivity. Qed.
Theorem two_spellings_last_wins e keep c ps t : Forall (rd_ok e c) ps ->
  bfind t (store_all (reflD e (dbeh_of keep)) c ps []) = blast t (List.map p_kv (filter_map (tr e keep c) ps)) None.
Proof. intro H. rewrite (store_all_refl e keep c ps [] H). rewrite bfind_bupd_all_last. reflexivity. Qed.

(* (d) [one_spelling] is needed: `Size` and its alias `size` on one Part of the bundled database; one property comes back,
   holding the value of `size`, whichever way the instance lists the two *)
Example two_spellings_refuted :
  let big := VVector3 (mkV3 F32_ONE F32_ONE F32_ONE) in let small := VVector3 (mkV3 F32_HALF F32_HALF F32_HALF) in
  one_spelling_b e_b false (B "Part") [B "Size"; B "size"] = false /\
  thru e_b EIgnoreUnknown DIgnoreUnknown [mkInst 1 0 (B "Part") (B "p") [(B "Size", big); (B "size", small)]] [1]
    = Ok [mkInst 1 0 (B "Part") (B "p") [(B "Size", small)]] /\
  thru e_b EIgnoreUnknown DIgnoreUnknown [mkInst 1 0 (B "Part") (B "p") [(B "size", small); (B "Size", big)]] [1]
    = Ok [mkInst 1 0 (B "Part") (B "p") [(B "Size", small)]].
Proof. cbv zeta. repeat split; vm_compute; reflexivity. Qed.

(* ================================================================= (8) the database hypotheses are needed *)
(* The two exceptions of [bundled_keys_ok] are real: on the bundled database the serialized name of Sound.MaxDistance
   (`xmlRead_MaxDistance_3`) is an alias of Sound.RollOffMaxDistance, and the serialized name of
   MaterialService.Use2022Materials (`Use2022MaterialsXml`) is a canonical property of its own.  A file written by the
   serializer with the default options is read back by the deserializer with the property under ANOTHER canonical name ... *)
Example seras_not_back_refuted :
  key_ok_b Database.database "Sound" "MaxDistance" = false /\ key_ok_b Database.database "MaterialService" "Use2022Materials" = false /\
  thru e_b EIgnoreUnknown DIgnoreUnknown [mkInst 1 0 (B "Sound") (B "s") [(B "MaxDistance", VFloat32 F32_ONE)]] [1]
    = Ok [mkInst 1 0 (B "Sound") (B "s") [(B "RollOffMaxDistance", VFloat32 F32_ONE)]] /\
  thru e_b EIgnoreUnknown DIgnoreUnknown [mkInst 1 0 (B "MaterialService") (B "s") [(B "Use2022Materials", VBool true)]] [1]
    = Ok [mkInst 1 0 (B "MaterialService") (B "s") [(B "Use2022MaterialsXml", VBool true)]].
Proof. repeat split; vm_compute; reflexivity. Qed.
(* ... and a Sound that carries both MaxDistance and RollOffMaxDistance (two different canonical properties, each under its
   canonical name) loses one of them: both are written as `xmlRead_MaxDistance_3`, both read back as RollOffMaxDistance *)
Example seras_clash_refuted :
  thru e_b EIgnoreUnknown DIgnoreUnknown
    [mkInst 1 0 (B "Sound") (B "s") [(B "MaxDistance", VFloat32 F32_ONE); (B "RollOffMaxDistance", VFloat32 F32_HALF)]] [1]
  = Ok [mkInst 1 0 (B "Sound") (B "s") [(B "RollOffMaxDistance", VFloat32 F32_HALF)]].
Proof. vm_compute. reflexivity. Qed.
(* a property the database does not know is dropped by the default options (see also xml_roundtrip_known_example), kept by
   WriteUnknown / ReadUnknown *)
Example unknown_property_dropped :
  thru e_b EIgnoreUnknown DIgnoreUnknown [mkInst 1 0 (B "Part") (B "p") [(B "Mystery", VBool true)]] [1] = Ok [mkInst 1 0 (B "Part") (B "p") []] /\
  thru e_b EWriteUnknown DReadUnknown [mkInst 1 0 (B "Part") (B "p") [(B "Mystery", VBool true)]] [1]
    = Ok [mkInst 1 0 (B "Part") (B "p") [(B "Mystery", VBool true)]].
Proof. split; vm_compute; reflexivity. Qed.

(* ================================================================= (9) a larger per-value law: the remaining value types *)
(* [simple_codec] covers the 26 simple types.  The per-type XML laws of Proofs/CrossFormat.v give the rest: CFrame,
   OptionalCFrame, NumberRange, NumberSequence, ColorSequence (floats canonicalised, rotations snapped: [norm_cf]) and the three
   documented changes of TYPE at the value level: a BrickColor is read back as the Int32 of its number, Tags and MaterialColors
   as the BinaryString of their encoding.  For a property the database KNOWS the reader's conversion to the canonical type
   undoes them ([norm_known_tags], [norm_known_brickcolor]); for a property it does not know (kept by WriteUnknown /
   ReadUnknown) they stay: [unknown_brickcolor_back], [unknown_tags_back]. *)
From RbxVerif Require CrossFormat.
From RbxVerif Require Attr AttrFacts AttrSpecFacts BytesFacts.

(* ---- Attributes.  The blob `Attributes::to_writer` produces for a well-formed map ([wf_amap], the hypothesis of
   Proofs/AttrFacts.v attr_roundtrip) is a byte string, so the base64 text of the BinaryString element decodes to it *)
Lemma bytes_ok_flat_map {A} (f : A -> bytes) l : (forall x, In x l -> bytes_ok (f x) = true) -> bytes_ok (flat_map f l) = true.
Proof.
  induction l as [|x r IH]; intro H; [reflexivity|]. cbn [flat_map]. rewrite BytesFacts.bytes_ok_app, (H x (or_introl eq_refl)), IH; [reflexivity|].
  intros y Hy. apply H. now right.
Qed.
Lemma write_string_bytes s : bytes_ok s = true -> bytes_ok (Attr.write_string s) = true.
Proof. intro H. unfold Attr.write_string, Attr.write_u32. rewrite BytesFacts.bytes_ok_app, H. now rewrite BytesFacts.le_bytes_ok. Qed.
Lemma bytes_ok_app_intro (a b : bytes) : bytes_ok a = true -> bytes_ok b = true -> bytes_ok (a ++ b)%list = true.
Proof. intros H1 H2. now rewrite BytesFacts.bytes_ok_app, H1, H2. Qed.
Ltac bytes_solve :=
  unfold Attr.write_color3, Attr.write_udim, Attr.write_vector2, Attr.write_vector3, Attr.write_u32, Attr.write_u16, Attr.write_u8,
         Attr.write_i32, Attr.write_f32, Attr.write_f64;
  repeat first [ apply BytesFacts.le_bytes_ok | assumption | apply write_string_bytes; assumption | apply bytes_ok_app_intro ].
Lemma wf_bytes_ok s : AttrFacts.wf_bytes s = true -> bytes_ok s = true.
Proof. unfold AttrFacts.wf_bytes. intro H. apply andb_true_iff in H. exact (proj1 H). Qed.
Lemma wf_string_ok s : AttrFacts.wf_string s = true -> bytes_ok s = true.
Proof. intro H. exact (proj1 (AttrFacts.wf_string_parts s H)). Qed.
Lemma write_value_bytes v b : AttrFacts.wf_value v = true -> Attr.write_value v = Ok b -> bytes_ok b = true.
Proof.
  intros Hwf H. destruct v; cbn [Attr.write_value] in H; try discriminate H;
    apply (f_equal (fun r : res bytes => match r with Ok x => x | _ => [] end)) in H; cbv beta iota in H; subst b; cbn [AttrFacts.wf_value] in Hwf.
  - (* BinaryString *) apply write_string_bytes, wf_bytes_ok, Hwf.
  - (* Bool *) destruct b0; reflexivity.
  - bytes_solve.
  - (* CFrame *) destruct (Rotation.to_basic_rotation_id (cf_rot c)); bytes_solve.
  - bytes_solve.
  - (* ColorSequence *) bytes_solve. apply bytes_ok_flat_map. intros [t [[r g] b0]] _. bytes_solve.
  - bytes_solve.
  - bytes_solve.
  - bytes_solve.
  - bytes_solve.
  - (* NumberSequence *) bytes_solve. apply bytes_ok_flat_map. intros [[t x] e0] _. bytes_solve.
  - bytes_solve.
  - (* String *) apply write_string_bytes, wf_bytes_ok, Hwf.
  - bytes_solve.
  - bytes_solve.
  - bytes_solve.
  - bytes_solve.
  - (* Font *) apply andb_true_iff in Hwf. destruct Hwf as [Hwf Hcached]. apply andb_true_iff in Hwf. destruct Hwf as [Hwf _].
    apply andb_true_iff in Hwf. destruct Hwf as [Hfam _].
    assert (B1 : bytes_ok (fo_family f) = true) by (apply wf_string_ok; assumption).
    assert (B2 : bytes_ok (match fo_cached f with Some s => s | None => [] end) = true)
      by (destruct (fo_cached f); [apply wf_string_ok; assumption|reflexivity]).
    bytes_solve.
  - (* EnumItem *) apply andb_true_iff in Hwf. destruct Hwf as [Hwf _]. assert (B1 : bytes_ok ty = true) by (apply wf_string_ok; assumption). bytes_solve.
Qed.
Lemma write_entries_bytes m : forall b, forallb AttrFacts.wf_entry m = true -> Attr.write_entries m = Ok b -> bytes_ok b = true.
Proof.
  induction m as [|[k v] m IH]; intros b Hwf H; cbn [Attr.write_entries] in H; [inversion H; reflexivity|].
  cbn [forallb] in Hwf. apply andb_true_iff in Hwf. destruct Hwf as [He Hm]. unfold AttrFacts.wf_entry in He. cbn [fst snd] in He.
  apply andb_true_iff in He. destruct He as [Hk Hv].
  unfold Attr.write_entry in H. destruct (Attr.from_variant_type (vtype v)) as [id|] eqn:Eid; [|discriminate H].
  destruct (Attr.write_value v) as [body| | |] eqn:Ev; cbn [rbind] in H; try discriminate H.
  destruct (Attr.write_entries m) as [b'| | |] eqn:Em; cbn [rbind] in H; try discriminate H. apply XmlCompound2.ok_inj in H. subst b.
  pose proof (AttrSpecFacts.from_variant_type_lt _ _ Eid) as Hid. apply N.ltb_lt in Hid.
  apply bytes_ok_app_intro; [|exact (IH b' Hm eq_refl)]. apply bytes_ok_app_intro; [exact (write_string_bytes k (wf_string_ok k Hk))|].
  apply bytes_ok_app_intro; [cbn [bytes_ok forallb]; now rewrite Hid|exact (write_value_bytes v body Hv Ev)].
Qed.
Lemma attr_encode_bytes m b : AttrFacts.wf_amap m = true -> Attr.attr_encode m = Ok b -> bytes_ok b = true.
Proof.
  unfold AttrFacts.wf_amap. intros Hwf H. apply andb_true_iff in Hwf. destruct Hwf as [_ Hent].
  unfold Attr.attr_encode in H. destruct m as [|e m]; [inversion H; reflexivity|].
  destruct (Attr.write_entries (e :: m)) as [body| | |] eqn:Eb; cbn [rbind] in H; try discriminate H. apply XmlCompound2.ok_inj in H. subst b.
  apply bytes_ok_app_intro; [apply BytesFacts.le_bytes_ok|exact (write_entries_bytes _ _ Hent Eb)].
Qed.
(* the blob of a map (the empty blob where the writer fails: the law below is then vacuous, the writer having written nothing) *)
Definition attr_blob (m : list (bytes * value)) : bytes := match Attr.attr_encode m with Ok b => b | _ => [] end.
Lemma attr_blob_ok m b : Attr.attr_encode m = Ok b -> attr_blob m = b.
Proof. unfold attr_blob. now intros ->. Qed.

Definition ext_ok (v : value) : Prop :=
  match v with
  | VBrickColor n => (n <? 65536) = true
  | VTags ts => CrossFormat.tags_scope None ts = true
  | VMaterialColors m => CrossFormat.matcol_scope None m = true
  | VAttributes m => AttrFacts.wf_amap m = true
  | VCFrame _ | VOptionalCFrame _ | VNumberRange _ _ => True
  | VNumberSequence kps => CrossFormat.nseq_scope None kps = true
  | VColorSequence kps => CrossFormat.cseq_scope None kps = true
  | _ => simple_ok v
  end.
Definition ext_norm (v : value) : value :=
  match v with
  | VBrickColor n => VInt32 (Z.of_N n)
  | VTags ts => VBinaryString (Tags.tags_encode ts)
  | VMaterialColors m => VBinaryString (BinValues.matcol_encode m)
  | VAttributes m => VBinaryString (attr_blob m)
  | VCFrame cf => VCFrame (norm_cf cf)
  | VOptionalCFrame x => VOptionalCFrame (option_map norm_cf x)
  | VNumberRange lo hi => VNumberRange (norm_f32 lo) (norm_f32 hi)
  | VNumberSequence kps => VNumberSequence (List.map norm_kp3 kps)
  | VColorSequence kps => VColorSequence (List.map norm_kp4 kps)
  | _ => norm_simple v
  end.
Definition dc0 : BinValues.dec_ctx := BinValues.mkDC (fun _ => 0) [] None.
Lemma ext_law o : CrossFormat.xml_oracle_ok o -> forall w, ext_ok w -> nonspecial w -> vlaw o w (ext_norm w).
Proof.
  intros (dl & pl & hz & l64) w Hok Hns.
  assert (Hfl : float_laws o) by (split; [exact (CrossFormat.display_all_float_law o dl)|exact l64]).
  destruct w; cbn [ext_ok ext_norm] in *; try (apply simple_law; assumption).
  - intros tag evs Hw name. exact (CrossFormat.xml_brick o n tag evs Hok Hw name).
  - intros tag evs Hw name. exact (CrossFormat.xml_cframe o c tag evs dl Hw name).
  - intros tag evs Hw name. exact (CrossFormat.xml_cseq dc0 o kps tag evs dl pl hz Hok Hw name).
  - intros tag evs Hw name. exact (CrossFormat.xml_nrange o lo hi tag evs dl pl Hw name).
  - intros tag evs Hw name. exact (CrossFormat.xml_nseq dc0 o kps tag evs dl pl Hok Hw name).
  - intros tag evs Hw name. exact (CrossFormat.xml_ocf o c tag evs dl Hw name).
  - intros tag evs Hw name. exact (CrossFormat.xml_tags dc0 o ts tag evs Hok Hw name).
  - (* Attributes *)
    intros tag evs Hw name. cbn [write_xml] in Hw. destruct (Attr.attr_encode m) as [buf| | |] eqn:Ee; try discriminate Hw.
    inversion Hw; subst tag evs. rewrite (attr_blob_ok m buf Ee).
    apply (CrossFormat.xml_blob_rt o buf). apply Forall_forall. apply BytesFacts.bytes_ok_forall. exact (attr_encode_bytes m buf Hok Ee).
  - intros tag evs Hw name. exact (CrossFormat.xml_matcol dc0 o m tag evs Hok Hw name).
Qed.
Definition ext_codec (o : xoracle) (H : CrossFormat.xml_oracle_ok o) : vcodec o := mkVC o ext_ok ext_norm (ext_law o H).
Print Assumptions ext_law.

(* a known Tags property: the blob is decoded again (duplicates and order as Tags::decode leaves them: [tags_norm]) *)
Lemma norm_known_tags o ts : CrossFormat.tags_scope None ts = true ->
  norm_known o ext_norm 32 32 (VTags ts) = Ok (VTags (CrossFormat.tags_norm ts)).
Proof. intro H. unfold norm_known. cbn [try_convert rbind ext_norm]. exact (CrossFormat.tags_convert dc0 o ts H). Qed.
(* a known BrickColor property (BrickColor.BrickColor is not in the bundled database as a serialized property; migrating ones
   are excluded): back as the BrickColor when its number is a valid one *)
Lemma norm_known_brickcolor o n : n < 65536 -> BrickColor.brick_valid n = true ->
  norm_known o ext_norm 3 3 (VBrickColor n) = Ok (VBrickColor n).
Proof.
  intros Hn Hv. unfold norm_known. cbn [try_convert rbind ext_norm]. change (3 =? XT_Int64) with false. change (3 =? XT_BrickColor) with true.
  cbv iota. rewrite N2Z.id, Hv.
  replace ((0 <=? Z.of_N n)%Z) with true by (symmetry; apply Z.leb_le; lia).
  replace ((Z.of_N n <=? 65535)%Z) with true by (symmetry; apply Z.leb_le; lia). reflexivity.
Qed.
(* a known Attributes property (canonical type Attributes, serialized as the BinaryString `AttributesSerialize`): the blob is
   decoded again; what comes back is the map as Attributes::from_reader rebuilds it ([Attr.norm]: attr_roundtrip) *)
Lemma norm_known_attributes o m b : AttrFacts.wf_amap m = true -> Attr.attr_encode m = Ok b ->
  norm_known o ext_norm 1 33 (VAttributes m) = Ok (VAttributes (Attr.norm m)).
Proof.
  intros Hwf He. unfold norm_known. cbn [try_convert rbind ext_norm]. rewrite (attr_blob_ok m b He).
  change (33 =? XT_Tags) with false. change (33 =? XT_Attributes) with true. cbv iota.
  rewrite (AttrFacts.attr_roundtrip m b Hwf He). reflexivity.
Qed.
Lemma unknown_attributes_back W m b : Attr.attr_encode m = Ok b -> value_back W ext_norm (VAttributes m) = VBinaryString b.
Proof. intro He. cbn [value_back ext_norm]. now rewrite (attr_blob_ok m b He). Qed.
(* a property the database does not know, kept: the documented changes of type *)
Lemma unknown_brickcolor_back W n : value_back W ext_norm (VBrickColor n) = VInt32 (Z.of_N n).
Proof. reflexivity. Qed.
Lemma unknown_tags_back W ts : value_back W ext_norm (VTags ts) = VBinaryString (Tags.tags_encode ts).
Proof. reflexivity. Qed.
Lemma unknown_matcol_back W m : value_back W ext_norm (VMaterialColors m) = VBinaryString (BinValues.matcol_encode m).
Proof. reflexivity. Qed.

Definition db_x : db := mkDb
  [mkCD "Instance" None false
     [mkPD "Name" (DValue 24) (KCanon PSerializes); mkPD "Tags" (DValue 32) (KCanon PSerializes);
      mkPD "Attributes" (DValue 33) (KCanon (PSerAs "AttributesSerialize")); mkPD "AttributesSerialize" (DValue 1) (KAlias "Attributes")] [];
   mkCD "Part" (Some "Instance") false [mkPD "CFrame" (DValue 4) (KCanon PSerializes)] []] [].
Definition e_x : xenv := mkXE db_x [] [] CrossFormat.o2 hash_k.
Definition vc_x : vcodec (xe_o e_x) := ext_codec (xe_o e_x) CrossFormat.o2_ok.
Definition am_x : list (bytes * value) := [(B "a", VBool true); (B "s", VString (B "hi"))].
Definition d_x : cdom :=
  [mkInst 1 0 (B "Part") (B "p")
     [(B "Tags", VTags [B "b"; B "a"]); (B "Paint", VBrickColor 194); (B "CFrame", VCFrame CrossFormat.cf_basis);
      (B "Attributes", VAttributes am_x); (B "Extra", VAttributes am_x)]].
Lemma d_x_dom : db_dom e_x vc_x true [] d_x [1].
Proof.
  assert (HW : written d_x [1] = [1]) by reflexivity.
  intros id i Hid Hf. rewrite HW in Hid. cbn [In] in Hid.
  destruct Hid as [<-|[]]; vm_compute in Hf; inversion Hf; subst i; cbn [i_class i_props]; split.
  all: try (apply one_spelling_b_sound; vm_compute; reflexivity).
  all: intros k v Hkv; cbn [In] in Hkv;
       repeat (destruct Hkv as [Hkv|Hkv]; [inversion Hkv; subst k v; clear Hkv|]); try contradiction;
       (split; [vm_compute; discriminate|]); (split; [intros []|]); kdesc_compute.
  all: first [ split; [exact I|split; [exact I|val_ok_solve]] | intros _; vc_ok_solve ].
Qed.

(* the larger law is not vacuous: a known Tags property, a known CFrame property, a known Attributes property (back as the
   map, its String entry as the BinaryString Attributes::from_reader makes of it), an unknown BrickColor property (kept: back
   as Int32) and an unknown Attributes-valued property (kept: back as the BinaryString of the blob) *)
Example xml_roundtrip_known_ext_example :
  db_coherent db_x = true /\ db_keys_ok db_x [] = true /\ db_names_ok db_x = true /\
  input_ok d_x [1] /\ hash_ok e_x /\ db_dom e_x vc_x true [] d_x [1] /\
  AttrFacts.wf_amap am_x = true /\
  Attr.attr_encode am_x = Ok [2; 0; 0; 0; 1; 0; 0; 0; 97; 3; 1; 1; 0; 0; 0; 115; 2; 2; 0; 0; 0; 104; 105] /\
  thru e_x EWriteUnknown DReadUnknown d_x [1]
  = Ok [mkInst 1 0 (B "Part") (B "p")
          [(B "Tags", VTags [B "b"; B "a"]); (B "Paint", VInt32 194);
           (B "Extra", VBinaryString [2; 0; 0; 0; 1; 0; 0; 0; 97; 3; 1; 1; 0; 0; 0; 115; 2; 2; 0; 0; 0; 104; 105]);
           (B "CFrame", VCFrame (norm_cf CrossFormat.cf_basis));
           (B "Attributes", VAttributes [(B "a", VBool true); (B "s", VBinaryString (B "hi"))])]].
Proof.
  split; [vm_compute; reflexivity|]. split; [vm_compute; reflexivity|]. split; [vm_compute; reflexivity|].
  split; [apply input_okb_sound; vm_compute; reflexivity|]. split; [exact e_rt_hash_ok|]. split; [exact d_x_dom|].
  split; [vm_compute; reflexivity|]. split; [vm_compute; reflexivity|]. vm_compute. reflexivity.
Qed.

(* [mig_val_ok], the migration is defined: Enum.Font item 46 has no FontFace (Proofs/MigrateFacts.v font_unmigratable_refuted,
   Proofs/MigratePaths.v bundled_font_46_unmigratable, migrate_failure_paths_disagree_refuted).  Alone on a TextLabel of the
   bundled database, the file the serializer writes with the default options is REJECTED by the deserializer; next to an explicit
   FontFace it is harmless (the writer skips it before trying to migrate: [mig_val_ok] asks nothing of it then) *)
Example migration_undefined_refuted :
  migrate (xe_font e_b) (xe_brick e_b) MigFont (VEnum 46) = None /\
  thru e_b EIgnoreUnknown DIgnoreUnknown [mkInst 1 0 (B "TextLabel") (B "t") [(B "Font", VEnum 46)]] [1] = Err DE_MIGRATION /\
  thru e_b EIgnoreUnknown DIgnoreUnknown
    [mkInst 1 0 (B "TextLabel") (B "t") [(B "Font", VEnum 46); (B "FontFace", VFont (mkFont (B "x") 400 0 None))]] [1]
  = Ok [mkInst 1 0 (B "TextLabel") (B "t") [(B "FontFace", VFont (mkFont (B "x") 400 0 None))]].
Proof. repeat split; vm_compute; reflexivity. Qed.

(* ================================================================= (10) the SharedString clause of [val_ok] *)
(* [val_ok] asks, of a SharedString value, that the reader's conversion leaves the placeholder the first pass stores
   (an empty BinaryString) alone.  That is a condition on the canonical TYPE only: it holds for every type but Tags and
   Attributes (where the empty blob decodes to the empty Tags / Attributes) ... *)
Lemma val_ok_sharedstring_typed e vc sty cty c : cty <> 32 -> cty <> 33 -> val_ok e vc sty cty (VSharedString c).
Proof.
  intros H1 H2. cbn [val_ok try_convert]. unfold XT_Tags, XT_Attributes, XT_MaterialColors.
  destruct (N.eqb_spec cty 32); [contradiction|]. destruct (N.eqb_spec cty 33); [contradiction|].
  destruct (cty =? 36); reflexivity.
Qed.
(* ... and there the clause is a simplification of the PROOF (the decoded table is described through the value the first pass
   stores), not a restriction of the codec: a SharedString in a Tags-typed property fails the clause and still comes back *)
Example val_ok_sharedstring_clause_not_necessary :
  ~ val_ok e_x vc_x 32 32 (VSharedString (B "xyz")) /\
  thru e_x EWriteUnknown DReadUnknown [mkInst 1 0 (B "Part") (B "p") [(B "Tags", VSharedString (B "xyz"))]] [1]
  = Ok [mkInst 1 0 (B "Part") (B "p") [(B "Tags", VSharedString (B "xyz"))]].
Proof. split; [cbn [val_ok]; vm_compute; discriminate|vm_compute; reflexivity]. Qed.

(* EXPORT (for Properties/C02.v):
     known_write known_read known_prop_step                 H1: one known property through serialize_property / deserialize_property
     norm_known norm_known_typed norm_simple_fixed norm_known_identity norm_known_color3_quantised
                                                             the composed value function and its characterisation
     xml_roundtrip_known                                     H2: whole file, default options (keep = false) and WriteUnknown / ReadUnknown
     db_keys_ok_sound db_names_ok_sound db_dom_known xml_roundtrip_known_db
                                                             H3: the database hypotheses as two executable checks
     bundled_keys_ok bundled_names_ok bundled_keys_count xml_roundtrip_known_bundled
                                                             H3 on Gen/Database.v (22588 (class, key) pairs; two exceptions)
     two_spellings_listing_irrelevant two_spellings_last_wins one_spelling_b_sound two_spellings_refuted      H4
     vcodec simple_codec ext_codec ext_law attr_encode_bytes norm_known_tags norm_known_brickcolor norm_known_attributes
     unknown_brickcolor_back unknown_tags_back unknown_attributes_back
                                                             the per-value law as a parameter; the two instances
     xml_roundtrip_known_example known_prop_step_example xml_roundtrip_known_bundled_example xml_roundtrip_known_ext_example
                                                             non-vacuity
     migrated_back mig_val_ok explicit_key explicit_value_stays db_keys_ok_sound_mig                         legacy (migrating) properties
     val_ok_sharedstring_typed val_ok_sharedstring_clause_not_necessary                                        the SharedString clause of val_ok
     seras_not_back_refuted seras_clash_refuted unknown_property_dropped migration_undefined_refuted         necessity / findings *)
