(* ResaveFixedPointKnown.v — property C07, XML, for properties the reflection database KNOWS (the reflective pairings
   EIgnoreUnknown / DIgnoreUnknown and EWriteUnknown / DReadUnknown of Proofs/XmlKnownProps.v).
     W1  save (load (save d)) = save (normk_dom d)                          [xml_resave_known]
         where [normk_dom d] files every property of a written instance under the key it comes back under ([okey] of
         XmlKnownProps: the canonical name) with the value it comes back as ([nk_val]: [norm_known] of the value; a Ref that
         points to no written instance nulled; a legacy property migrated; an unknown property dropped or kept).
     W2  save (load (save d1)) = save d1  for d1 = load (save d)            [xml_resave_known_fixed_point]
     W3  the database hypothesis of W2 as an executable check, run over the bundled database.
   Standard library only. *)
From Coq Require Import List NArith ZArith Bool Lia String Permutation Sorted.
From RbxVerif Require Import Base Bytes Value Db DbCheck CodecDom XmlEvents XmlValues XmlFile XmlInt XmlText XmlBase64 XmlCompound XmlCompound2
  XmlFileFacts XmlDeterminism XmlStructure XmlRoundTrip MigratePaths XmlKnownProps ResaveFixedPoint.
Import ListNotations.
Open Scope list_scope.
Open Scope N_scope.

(* ================================================================= (A) a DOM rebuilt instance by instance *)
Section MapDom.
  Variable g : inst -> inst.
  Hypothesis g_ref : forall i, i_ref (g i) = i_ref i.
  Hypothesis g_parent : forall i, i_parent (g i) = i_parent i.
  Lemma find_inst_map d id : find_inst (List.map g d) id = option_map g (find_inst d id).
  Proof. induction d as [|i d IH]; [reflexivity|]. cbn [List.map find_inst]. rewrite g_ref. destruct (i_ref i =? id); [reflexivity|exact IH]. Qed.
  Lemma children_of_map d id : children_of (List.map g d) id = children_of d id.
  Proof.
    unfold children_of. induction d as [|i d IH]; [reflexivity|]. cbn [List.map filter]. rewrite g_parent.
    destruct (i_parent i =? id); cbn [List.map]; [rewrite g_ref; f_equal|]; exact IH.
  Qed.
  Lemma subtree_map d f : forall id, subtree (List.map g d) f id = subtree d f id.
  Proof.
    induction f as [|f IH]; intro id; [reflexivity|]. cbn [subtree]. rewrite children_of_map. f_equal.
    induction (children_of d id) as [|c cs IHc]; [reflexivity|]. cbn [flat_map]. now rewrite IH, IHc.
  Qed.
  Lemma flat_subtree_map d f rs : flat_map (subtree (List.map g d) f) rs = flat_map (subtree d f) rs.
  Proof. induction rs as [|r rs IH]; [reflexivity|]. cbn [flat_map]. now rewrite subtree_map, IH. Qed.
  Lemma written_map d roots : written (List.map g d) roots = written d roots.
  Proof. unfold written. rewrite map_length. apply flat_subtree_map. Qed.
End MapDom.

(* ================================================================= (B) the normal form *)
(* the per-value law delivers neither a Ref nor a Content object (the reader delivers those by other routes) *)
Definition vc_plain {o} (vc : vcodec o) : Prop := forall w, vc_ok vc w -> nonspecial w -> plain (vc_norm vc w) = true.
Lemma simple_codec_plain o H : vc_plain (simple_codec o H).
Proof. intros w Hok Hns. exact (plain_norm_simple w Hok Hns). Qed.

Section Normk.
  Variables (e : xenv) (vc : vcodec (xe_o e)) (keep : bool).
  Let o := xe_o e.

  (* what the value of the property spelled [k] comes back as (Refs not yet relabelled) *)
  Definition nk_val (W : list N) (c k : bytes) (v : value) : option value :=
    match kdesc e c k with
    | Ok (Some (canon, ser)) =>
        match mig_of ser with
        | Some (q, op) =>
            match find_desc_xml (xe_db e) (S_ c) q with
            | Ok (Some (qd, _)) =>
                match try_convert o v (dtype_vt (pd_type ser)) with
                | Ok conv =>
                    match migrate (xe_font e) (xe_brick e) op conv with
                    | Some nv => match try_convert o (vc_norm vc nv) (dtype_vt (pd_type qd)) with Ok v' => Some v' | _ => None end
                    | None => None
                    end
                | _ => None
                end
            | _ => None
            end
        | None =>
            match v with
            | VRef _ | VSharedString _ => Some (nback W (vc_norm vc) v)
            | _ => match norm_known o (vc_norm vc) (dtype_vt (pd_type ser)) (dtype_vt (pd_type canon)) v with Ok v' => Some v' | _ => None end
            end
        end
    | Ok None => if keep then Some (nback W (vc_norm vc) v) else None
    | _ => None
    end.
  Definition nk_entry (W : list N) (c : bytes) (keys : list bytes) (kv : bytes * value) : option (bytes * value) :=
    match okey e keep c keys (fst kv), nk_val W c (fst kv) (snd kv) with
    | Some t, Some v' => Some (t, v')
    | _, _ => None
    end.
  Definition normk_props (W : list N) (c : bytes) (keys : list bytes) (ps : list (bytes * value)) : list (bytes * value) :=
    filter_map (nk_entry W c keys) ps.
  Definition normk_inst (W : list N) (i : inst) : inst :=
    mkInst (i_ref i) (i_parent i) (i_class i) (i_name i) (normk_props W (i_class i) (ikeys i) (i_props i)).
  Definition normk_dom (W : list N) (d : cdom) : cdom := List.map (normk_inst W) d.

  Lemma in_ikeys i k v : In (k, v) (i_props i) -> In k (ikeys i).
  Proof.
    intro H. unfold ikeys. eapply Permutation_in; [apply Permutation_sym, bsort_keys_perm|]. eapply keys_in; exact H.
  Qed.

  (* ---- one property: where it comes back and as what *)
  Lemma entry_back W c keys ps ps' k v t :
    vc_plain vc -> ~ In 0 W ->
    props_known_back e vc keep W c keys ps ps' -> known_prop_ok e vc keep c keys k v -> In (k, v) ps ->
    okey e keep c keys k = Some t ->
    exists nv, nk_val W c k v = Some nv /\ bfind t ps' = Some (rename_value (label W) nv) /\ Forall (Pw W) (value_refs nv) /\
               (nonspecial nv -> plain nv = true).
  Proof.
    intros Hpl H0 (_ & Hprops & _) Hkp Hkv Hok. specialize (Hprops k v Hkv).
    unfold known_prop_ok in Hkp. unfold okey, wname in Hok. unfold nk_val.
    destruct (kdesc e c k) as [[[canon ser]|]| |cc|] eqn:Ek; try contradiction.
    - destruct (mig_of ser) as [[q op]|] eqn:Em.
      + (* legacy *)
        destruct Hkp as (_ & _ & qd & qs & Hq & Hmq & Hnq & conv & Hcv & Hmig).
        destruct (explicit_b e c keys k q) eqn:Ex; [discriminate Hok|].
        unfold tkey, kdesc, B in Hok. rewrite S_bytes, Hq in Hok. inversion Hok; subst t. clear Hok. fold (B (pd_name qd)).
        destruct Hprops as [_ Hprops]. destruct (Hprops eq_refl) as (qd' & qs' & v' & Hq' & Hb & conv' & nv & Hcv' & Hnv & Hv').
        rewrite Hq in Hq'. inversion Hq'; subst qd' qs'. clear Hq'.
        rewrite Hq. fold o. unfold o. rewrite Hcv', Hnv, Hv'.
        destruct (Hmig eq_refl) as (nv0 & Hnv0 & Hoknv & _). rewrite Hcv in Hcv'. inversion Hcv'; subst conv'. rewrite Hnv in Hnv0. inversion Hnv0; subst nv0.
        pose proof (migrate_nonspecial _ _ _ _ _ Hnv) as Hnsnv.
        pose proof (try_convert_plain _ _ _ _ (Hpl nv Hoknv Hnsnv) Hv') as Hpv.
        destruct (rename_plain (label W) v' Hpv) as [R1 R2].
        exists v'. split; [reflexivity|]. split; [rewrite R1; exact Hb|]. split; [rewrite R2; constructor|intros _; exact Hpv].
      + destruct Hkp as (Hms & Hmc & (ser' & Hback) & Hnn & Hv).
        unfold tkey, kdesc, B in Hok. rewrite S_bytes, Hback in Hok. inversion Hok; subst t. clear Hok. fold (B (pd_name canon)).
        destruct Hprops as (v' & Hb & Hvk).
        destruct (value_cases v) as [(r & ->)|[(s & ->)|Hns]].
        * cbn [value_known_back] in Hvk. subst v'. eexists. split; [reflexivity|].
          split; [|split; [apply nback_refs; intros []|cbn [nback]; destruct (inW W r); intros []]].
          rewrite Hb. f_equal. change (VRef (label W r)) with (value_back W (vc_norm vc) (VRef r)). apply value_back_rename; [exact H0|intros []].
        * cbn [value_known_back] in Hvk. subst v'. eexists. split; [reflexivity|]. split; [exact Hb|]. split; [constructor|intros []].
        * apply (value_known_back_nonspecial e vc W _ _ v v' Hns) in Hvk.
          assert (Hv' : exists w', try_convert (xe_o e) v (dtype_vt (pd_type ser)) = Ok w' /\ vc_ok vc w' /\
                                   exists v'', try_convert (xe_o e) (vc_norm vc w') (dtype_vt (pd_type canon)) = Ok v'')
            by (destruct v; try contradiction Hns; exact Hv).
          destruct Hv' as (w & Hw & Hokw & _).
          pose proof (try_convert_nonspecial _ _ _ _ Hns Hw) as Hnsw.
          assert (Hpv : plain v' = true).
          { unfold norm_known in Hvk. rewrite Hw in Hvk. cbn [rbind] in Hvk.
            assert (Hc2 : try_convert (xe_o e) (vc_norm vc w) (dtype_vt (pd_type canon)) = Ok v') by (destruct w; try contradiction Hnsw; exact Hvk).
            exact (try_convert_plain _ _ _ _ (Hpl w Hokw Hnsw) Hc2). }
          destruct (rename_plain (label W) v' Hpv) as [R1 R2].
          exists v'. split; [fold o; unfold o; rewrite Hvk; destruct v; try contradiction Hns; reflexivity|].
          split; [rewrite R1; exact Hb|]. split; [rewrite R2; constructor|intros _; exact Hpv].
    - (* unknown, kept *)
      destruct keep eqn:Ekeep; [|discriminate Hok]. unfold tkey in Hok. rewrite Ek in Hok. inversion Hok; subst t. clear Hok.
      assert (Hp : nonspecial v -> plain (vc_norm vc v) = true) by (intro Hns; apply Hpl; [exact (Hkp Hns)|exact Hns]).
      eexists. split; [reflexivity|]. split; [|split; [apply nback_refs, Hp|]].
      + rewrite Hprops. f_equal. apply value_back_rename; assumption.
      + destruct (value_cases v) as [(r & ->)|[(s & ->)|Hns]]; [cbn [nback]; destruct (inW W r); intros []|intros []|].
        intros _. replace (nback W (vc_norm vc) v) with (vc_norm vc v) by (destruct v; try contradiction Hns; reflexivity). exact (Hp Hns).
  Qed.

  (* an entry of the normal form comes from a property that comes back *)
  Lemma nk_entry_inv W c keys ps t nv : In (t, nv) (normk_props W c keys ps) ->
    exists k v, In (k, v) ps /\ okey e keep c keys k = Some t /\ nk_val W c k v = Some nv.
  Proof.
    unfold normk_props. intro H. apply in_filter_map in H. destruct H as ([k v] & Hkv & E). unfold nk_entry in E. cbn [fst snd] in E.
    destruct (okey e keep c keys k) as [t'|] eqn:E1; [|discriminate]. destruct (nk_val W c k v) as [nv'|] eqn:E2; [|discriminate].
    inversion E; subst t' nv'. exists k, v. split; [exact Hkv|]. split; [exact E1|exact E2].
  Qed.

  (* ---- one instance *)
  Lemma normk_props_back W c ps ps' :
    let keys := List.map fst (bsort ps) in
    vc_plain vc -> ~ In 0 W -> NoDup (List.map fst ps) ->
    (forall k v, In (k, v) ps -> known_prop_ok e vc keep c keys k v) -> one_spelling e keep c keys ->
    props_known_back e vc keep W c keys ps ps' ->
    NoDup (List.map fst (normk_props W c keys ps)) /\
    (forall k', bfind k' ps' = option_map (rename_value (label W)) (bfind k' (normk_props W c keys ps))) /\
    Forall (Pw W) (props_refs (normk_props W c keys ps)).
  Proof.
    intros keys Hpl H0 Hnd Hp H1 Hkb.
    assert (Hkeys : forall k v, In (k, v) ps -> In k keys).
    { intros k v H. unfold keys. eapply Permutation_in; [apply Permutation_sym, bsort_keys_perm|]. eapply keys_in; exact H. }
    assert (Hndn : NoDup (List.map fst (normk_props W c keys ps))).
    { unfold normk_props. apply (nodup_filter_map fst _ fst); [exact Hnd|].
      intros [k1 v1] [k2 v2] y1 y2 Ha Hb E1 E2 Ey. cbn [fst]. unfold nk_entry in E1, E2. cbn [fst snd] in E1, E2.
      destruct (okey e keep c keys k1) as [t1|] eqn:O1; [|discriminate]. destruct (nk_val W c k1 v1); [|discriminate].
      destruct (okey e keep c keys k2) as [t2|] eqn:O2; [|discriminate]. destruct (nk_val W c k2 v2); [|discriminate].
      inversion E1; subst y1. inversion E2; subst y2. cbn [fst] in Ey. subst t2.
      exact (H1 k1 k2 t1 (Hkeys _ _ Ha) (Hkeys _ _ Hb) O1 O2). }
    split; [exact Hndn|]. split.
    - intro k'. destruct (bfind k' (normk_props W c keys ps)) as [nv|] eqn:En.
      + apply bfind_some_in in En. destruct (nk_entry_inv _ _ _ _ _ _ En) as (k & v & Hkv & Hok & Hnv).
        destruct (entry_back W c keys ps ps' k v k' Hpl H0 Hkb (Hp k v Hkv) Hkv Hok) as (nv' & Hnv' & Hb & _).
        rewrite Hnv in Hnv'. inversion Hnv'; subst nv'. exact Hb.
      + cbn [option_map]. destruct (bfind k' ps') as [v1|] eqn:Eb; [|reflexivity]. exfalso.
        destruct Hkb as (Hk1 & Hk2 & Hk3). destruct (Hk3 k' ltac:(rewrite Eb; discriminate)) as (k & v & Hkv & Hok).
        destruct (entry_back W c keys ps ps' k v k' Hpl H0 (conj Hk1 (conj Hk2 Hk3)) (Hp k v Hkv) Hkv Hok) as (nv & Hnv & _ & _).
        assert (Hin : In (k', nv) (normk_props W c keys ps)).
        { unfold normk_props. apply in_filter_map. exists (k, v). split; [exact Hkv|]. unfold nk_entry. cbn [fst snd]. rewrite Hok, Hnv. reflexivity. }
        rewrite (in_bfind _ _ _ Hndn Hin) in En. discriminate.
    - unfold props_refs. apply Forall_forall. intros r Hr. apply in_flat_map in Hr. destruct Hr as ([t nv] & Hin & Hr). cbn [snd] in Hr.
      destruct (nk_entry_inv _ _ _ _ _ _ Hin) as (k & v & Hkv & Hok & Hnv).
      destruct (entry_back W c keys ps ps' k v t Hpl H0 Hkb (Hp k v Hkv) Hkv Hok) as (nv' & Hnv' & _ & Hrefs & _).
      rewrite Hnv in Hnv'. inversion Hnv'; subst nv'. rewrite Forall_forall in Hrefs. exact (Hrefs r Hr).
  Qed.
End Normk.

(* ================================================================= (C) W1: the second save *)
Lemma known_in_dom e vc keep d W W' d1 : Forall2 (known_back e vc keep d W) W' d1 ->
  forall id, In id W' -> In id (List.map i_ref d).
Proof.
  intros H id Hid. destruct (rs_Forall2_in_l _ _ _ _ H Hid) as (i' & _ & i & Hf & _).
  destruct (rs_find_inst_some _ _ _ Hf) as [Hi <-]. now apply in_map.
Qed.

Theorem xml_resave_known e vc keep d roots evs revs :
  input_ok d roots -> hash_ok e -> known_dom e vc keep d roots -> vc_plain vc ->
  xml_encode e (ebeh_of keep) d roots = Ok evs -> channel evs = Ok revs ->
  exists d1, xml_decode e (dbeh_of keep) revs = Ok d1 /\ forest_rel d roots d1 /\
             Forall2 (known_back e vc keep d (written d roots)) (written d roots) d1 /\
             ordered (N.of_nat (length d1)) d1 /\
             xml_encode e (ebeh_of keep) d1 (children_of d1 0)
             = xml_encode e (ebeh_of keep) (normk_dom e vc keep (written d roots) d) roots.
Proof.
  intros Hin Hh Hk Hpl He Hc.
  destruct (xml_roundtrip_known e vc keep d roots evs revs Hin Hh Hk He Hc) as (d1 & Hd & Hfr & Hkb).
  destruct (xml_roundtrip_ordered_generic e (ebeh_of keep) (dbeh_of keep) (reflD e (dbeh_of keep)) d roots evs revs (input_ok_0 d roots Hin)
              (hash_ok_bytes e Hh) (known_readable e vc keep d roots Hk) (known_dec_law e vc keep d roots Hin Hk) He Hc) as (d1' & Hd' & Hord).
  rewrite Hd in Hd'. inversion Hd'; subst d1'. clear Hd'.
  exists d1. split; [exact Hd|]. split; [exact Hfr|]. split; [exact Hkb|]. split; [exact Hord|].
  set (W := written d roots) in *. set (ebeh := ebeh_of keep) in *.
  destruct Hin as (Hndd & HndW & H0 & Hprops).
  destruct Hfr as (_ & Hlab & Hroots & Hkids). fold W in Hlab, Hroots, Hkids.
  assert (Hlen1 : length d1 = length W) by (rewrite <- (map_length i_ref d1), Hlab, nseq_length; reflexivity).
  assert (HlenW : (length W <= length d)%nat).
  { rewrite <- (map_length i_ref d). apply NoDup_incl_length; [exact HndW|]. intros id Hid. eapply known_in_dom; eassumption. }
  assert (Hnd1 : NoDup (List.map i_ref d1)) by (rewrite Hlab; apply nodup_nseq).
  assert (g_ref : forall i, i_ref (normk_inst e vc keep W i) = i_ref i) by reflexivity.
  assert (g_parent : forall i, i_parent (normk_inst e vc keep W i) = i_parent i) by reflexivity.
  unfold xml_encode. rewrite !xml_encode_with_eq. unfold normk_dom at 1. rewrite map_length.
  rewrite (seq_with_ext_in (serialize_instance_with serialize_property (S (length d1)) e ebeh d1)
                           (serialize_instance_with serialize_property (S (length d)) e ebeh d1)).
  2:{ intros s c Hcin. destruct (children_ordered _ d1 0 c Hord Hcin) as [_ Hcle].
      apply (serialize_instance_fuel_ordered serialize_property e ebeh _ d1 Hord); lia. }
  rewrite Hroots.
  assert (Hsim : sim (label W) (Pw W)
                   (seq_with (serialize_instance_with serialize_property (S (length d)) e ebeh d1) (List.map (label W) roots) es0)
                   (seq_with (serialize_instance_with serialize_property (S (length d)) e ebeh (normk_dom e vc keep W d)) roots es0)).
  { apply (roots_sim (label W) (Pw W) (fun a b => label_inj W a b H0) serialize_property e ebeh (normk_dom e vc keep W d) d1 W).
    - apply serialize_property_rn; [now left|now apply label_notin|exact (fun a b => label_inj W a b H0)].
    - intros id Hid. now right.
    - intros id Hid.
      destruct (rs_Forall2_in_l _ _ _ _ Hkb Hid) as (i' & Hi' & i & Hf & Hr & Hcl & Hnm & Hpb).
      destruct (Hk id i Hid Hf) as (_ & Hp & H1). destruct (Hprops id i Hid Hf) as [Hndi _].
      destruct (normk_props_back e vc keep W (i_class i) (i_props i) (i_props i') Hpl H0 Hndi Hp H1 Hpb) as (Hndn & Hbf & Hrefs).
      fold (ikeys i) in Hndn, Hbf, Hrefs.
      exists (normk_inst e vc keep W i), i'. split; [unfold normk_dom; rewrite (find_inst_map _ g_ref), Hf; reflexivity|].
      split; [rewrite <- Hr; now apply find_inst_nodup|]. split; [exact Hcl|]. split; [exact Hnm|].
      cbn [normk_inst i_props]. split; [|split].
      + unfold rename_props. rewrite <- bsort_map_values. apply bsort_perm; [|exact (proj1 Hpb)].
        apply perm_of_bfind; [exact (proj1 Hpb)|rewrite map_fst_map_values; exact Hndn|].
        intro k. rewrite Hbf, bfind_map_values. reflexivity.
      + exact Hrefs.
      + unfold normk_dom. rewrite (children_of_map _ g_ref g_parent). apply Hkids, Hid.
    - intros y Hy. unfold W, written. unfold normk_dom in Hy. rewrite (flat_subtree_map _ g_ref g_parent) in Hy. exact Hy. }
  destruct Hsim as [-> _].
  destruct (seq_with (serialize_instance_with serialize_property (S (length d)) e ebeh (normk_dom e vc keep W d)) roots es0) as [[body st]| |c|];
    reflexivity.
Qed.
Print Assumptions xml_resave_known.

(* ================================================================= (D) W2: the decoded DOM is an input of W1 again, and is its own normal form *)
Lemma rename_nonspecial phi v : nonspecial (rename_value phi v) -> nonspecial v.
Proof. destruct (value_cases v) as [(r & ->)|[(s & ->)|Hns]]; [intros []|intros []|intros _; exact Hns]. Qed.
Lemma val_ok_rename e vc sty cty phi nv :
  val_ok e vc sty cty nv -> (nonspecial nv -> plain nv = true) -> val_ok e vc sty cty (rename_value phi nv).
Proof.
  intros H Hp. destruct (value_cases nv) as [(r & ->)|[(s & ->)|Hns]]; [exact I|exact H|].
  rewrite (proj1 (rename_plain phi nv (Hp Hns))). exact H.
Qed.
Lemma nback_label W nrm r : ~ In 0 W -> Pw W r -> nback (nseq 1 (length W)) nrm (VRef (label W r)) = VRef (label W r).
Proof.
  intros H0 [->|Hr]; cbn [nback].
  - rewrite (label_notin W 0 H0). destruct (inW (nseq 1 (length W)) 0); reflexivity.
  - replace (inW (nseq 1 (length W)) (label W r)) with true; [reflexivity|]. symmetry. apply inW_true, in_nseq.
    destruct (label_in W r Hr) as [Hl _]. lia.
Qed.
Lemma filter_map_id {A} (f : A -> option A) l : (forall x, In x l -> f x = Some x) -> filter_map f l = l.
Proof.
  induction l as [|x r IH]; intro H; [reflexivity|]. cbn [filter_map]. rewrite (H x (or_introl eq_refl)). f_equal. apply IH. intros y Hy. apply H. now right.
Qed.

Section Fix.
  Variables (e : xenv) (vc : vcodec (xe_o e)) (keep : bool).

  (* the key [t] a property came back under, holding [nv], is a key the round trip leaves where it is, and [nv] a value it
     leaves as it is: [t] resolves to a canonical descriptor of that very name, not migrating, whose serialized name leads back
     to it (the closed-under-write-read condition [key_ok_b] of XmlKnownProps, needed because of [seras_not_back_refuted] /
     [seras_clash_refuted]); [nv] meets the value conditions again and is a fixed point of [norm_known] *)
  Definition ret_ok (c t : bytes) (nv : value) : Prop :=
    match kdesc e c t with
    | Ok (Some (canon, ser)) =>
        t = B (pd_name canon) /\ nonmig ser /\ nonmig canon /\
        (exists ser', find_desc_xml (xe_db e) (S_ c) (pd_name ser) = Ok (Some (canon, ser'))) /\ pd_name canon <> "Name"%string /\
        val_ok e vc (dtype_vt (pd_type ser)) (dtype_vt (pd_type canon)) nv /\
        (nonspecial nv -> norm_known (xe_o e) (vc_norm vc) (dtype_vt (pd_type ser)) (dtype_vt (pd_type canon)) nv = Ok nv)
    | Ok None => keep = true /\ t <> B "Name" /\ (nonspecial nv -> vc_ok vc nv /\ vc_norm vc nv = nv)
    | _ => False
    end.
  (* idempotence of the normalisation, in the form needed: per property of a written instance *)
  Definition fix_dom (d : cdom) (roots : list N) : Prop :=
    forall id i k v t nv, In id (written d roots) -> find_inst d id = Some i -> In (k, v) (i_props i) ->
      okey e keep (i_class i) (ikeys i) k = Some t -> nk_val e vc keep (written d roots) (i_class i) k v = Some nv ->
      ret_ok (i_class i) t nv.

  Lemma ret_ok_facts W c t nv v1 keys1 :
    ~ In 0 W -> ret_ok c t nv -> v1 = rename_value (label W) nv -> Forall (Pw W) (value_refs nv) -> (nonspecial nv -> plain nv = true) ->
    known_prop_ok e vc keep c keys1 t v1 /\ okey e keep c keys1 t = Some t /\ nk_val e vc keep (nseq 1 (length W)) c t v1 = Some v1 /\ t <> B "Name".
  Proof.
    intro H0. unfold ret_ok, known_prop_ok, okey, wname, nk_val.
    destruct (kdesc e c t) as [[[canon ser]|]| |cc|] eqn:Ek; try contradiction.
    - intros (Et & Hms & Hmc & (ser' & Hback) & Hnn & Hv & Hnk) -> Hrefs Hpl. rewrite (proj2 (mig_of_none ser) Hms).
      split; [|split; [|split]].
      + split; [exact Hms|]. split; [exact Hmc|]. split; [exists ser'; exact Hback|]. split; [exact Hnn|]. now apply val_ok_rename.
      + unfold tkey, kdesc, B. rewrite S_bytes, Hback. rewrite Et. reflexivity.
      + destruct (value_cases nv) as [(r & ->)|[(s & ->)|Hns]].
        * cbn [rename_value]. f_equal. apply nback_label; [exact H0|]. inversion Hrefs; assumption.
        * reflexivity.
        * rewrite (proj1 (rename_plain (label W) nv (Hpl Hns))). pose proof (Hnk Hns) as E.
          destruct nv; try contradiction Hns; rewrite E; reflexivity.
      + rewrite Et. intro E. apply Hnn. exact (B_inj _ _ E).
    - intros (Ekeep & Hnn & Hu) -> Hrefs Hpl. rewrite Ekeep.
      split; [|split; [|split]].
      + intro Hns. apply rename_nonspecial in Hns. rewrite (proj1 (rename_plain (label W) nv (Hpl Hns))). exact (proj1 (Hu Hns)).
      + unfold tkey. rewrite Ek. reflexivity.
      + f_equal. destruct (value_cases nv) as [(r & ->)|[(s & ->)|Hns]].
        * cbn [rename_value]. apply nback_label; [exact H0|]. inversion Hrefs; assumption.
        * reflexivity.
        * rewrite (proj1 (rename_plain (label W) nv (Hpl Hns))).
          replace (nback (nseq 1 (length W)) (vc_norm vc) nv) with (vc_norm vc nv) by (destruct nv; try contradiction Hns; reflexivity).
          exact (proj2 (Hu Hns)).
      + exact Hnn.
  Qed.

  Section DecodedK.
    Variables (d : cdom) (roots : list N) (d1 : cdom).
    Let W := written d roots.
    Hypothesis Hin : input_ok d roots.
    Hypothesis Hk : known_dom e vc keep d roots.
    Hypothesis Hpl : vc_plain vc.
    Hypothesis Hfix : fix_dom d roots.
    Hypothesis Hfr : forest_rel d roots d1.
    Hypothesis Hkb : Forall2 (known_back e vc keep d W) W d1.
    Hypothesis Hord : ordered (N.of_nat (length d1)) d1.

    Lemma dk_0 : ~ In 0 W.
    Proof. destruct Hin as (_ & _ & H0 & _). exact H0. Qed.
    Lemma dk_len : length d1 = length W.
    Proof. destruct Hfr as (_ & Hlab & _). fold W in Hlab. rewrite <- (map_length i_ref d1), Hlab, nseq_length. reflexivity. Qed.
    Lemma dk_lenW : (length W <= length d)%nat.
    Proof.
      destruct Hin as (_ & HndW & _).
      rewrite <- (map_length i_ref d). apply NoDup_incl_length; [exact HndW|]. intros id Hidw. eapply known_in_dom; eassumption.
    Qed.
    Lemma dk_written : written d1 (children_of d1 0) = nseq 1 (length W).
    Proof.
      destruct Hin as (_ & HndW & _). destruct Hfr as (_ & _ & Hroots & Hkids). fold W in Hroots, Hkids.
      rewrite <- (map_label W HndW). unfold written at 1.
      assert (E : forall cs, (forall c, In c cs -> In c (children_of d1 0)) ->
                flat_map (subtree d1 (S (length d1))) cs = flat_map (subtree d1 (S (length d))) cs).
      { induction cs as [|c cs IH]; intro Hcs; [reflexivity|]. cbn [flat_map]. rewrite IH by (intros c' Hc'; apply Hcs; now right). f_equal.
        destruct (children_ordered _ d1 0 c Hord (Hcs c (or_introl eq_refl))) as [_ Hle].
        pose proof dk_len. pose proof dk_lenW. apply (subtree_fuel_ordered _ d1 Hord); lia. }
      rewrite E by (intros c Hc; exact Hc). rewrite Hroots.
      rewrite (flat_subtree_forest d d1 W (S (length d)) Hkids); [reflexivity|].
      intros r Hr y Hy. unfold W, written. apply in_flat_map. exists r. split; assumption.
    Qed.

    Lemma dk_inst i1 : In i1 d1 ->
      exists id i, In id W /\ find_inst d id = Some i /\ i_class i1 = i_class i /\
                   props_known_back e vc keep W (i_class i) (ikeys i) (i_props i) (i_props i1).
    Proof.
      intro Hi1. destruct (rs_Forall2_in_r _ _ _ _ Hkb Hi1) as (id & HidW & i & Hf & _ & Hcl & _ & Hpb).
      exists id, i. split; [exact HidW|]. split; [exact Hf|]. split; [exact Hcl|exact Hpb].
    Qed.

    Lemma dk_entry i1 t v1 : In i1 d1 -> In (t, v1) (i_props i1) ->
      exists id i nv, In id W /\ find_inst d id = Some i /\ i_class i1 = i_class i /\ ret_ok (i_class i) t nv /\
        v1 = rename_value (label W) nv /\ Forall (Pw W) (value_refs nv) /\ (nonspecial nv -> plain nv = true).
    Proof.
      intros Hi1 Hkv. destruct (dk_inst i1 Hi1) as (id & i & HidW & Hf & Hcl & Hpb).
      destruct (Hk id i HidW Hf) as (_ & Hp & H1). destruct Hin as (_ & _ & H0 & Hprops). destruct (Hprops id i HidW Hf) as [Hndi _].
      destruct (normk_props_back e vc keep W (i_class i) (i_props i) (i_props i1) Hpl H0 Hndi Hp H1 Hpb) as (Hndn & Hbf & _).
      fold (ikeys i) in Hndn, Hbf.
      pose proof (in_bfind _ _ _ (proj1 Hpb) Hkv) as Eb. rewrite Hbf in Eb.
      destruct (bfind t (normk_props e vc keep W (i_class i) (ikeys i) (i_props i))) as [nv|] eqn:En; [|discriminate]. cbn [option_map] in Eb.
      apply bfind_some_in in En. destruct (nk_entry_inv e vc keep _ _ _ _ _ _ En) as (k & v & Hkv0 & Hok & Hnv).
      destruct (entry_back e vc keep W (i_class i) (ikeys i) (i_props i) (i_props i1) k v t Hpl H0 Hpb (Hp k v Hkv0) Hkv0 Hok)
        as (nv' & Hnv' & _ & Hrefs & Hplain).
      rewrite Hnv in Hnv'. inversion Hnv'; subst nv'.
      exists id, i, nv. split; [exact HidW|]. split; [exact Hf|]. split; [exact Hcl|].
      split; [exact (Hfix id i k v t nv HidW Hf Hkv0 Hok Hnv)|]. split; [inversion Eb; reflexivity|]. split; assumption.
    Qed.

    Lemma dk_facts i1 t v1 keys1 : In i1 d1 -> In (t, v1) (i_props i1) ->
      known_prop_ok e vc keep (i_class i1) keys1 t v1 /\ okey e keep (i_class i1) keys1 t = Some t /\
      nk_val e vc keep (nseq 1 (length W)) (i_class i1) t v1 = Some v1 /\ t <> B "Name".
    Proof.
      intros Hi1 Hkv. destruct (dk_entry i1 t v1 Hi1 Hkv) as (id & i & nv & _ & _ & Hcl & Hr & Ev & Hrefs & Hplain).
      rewrite Hcl. exact (ret_ok_facts W (i_class i) t nv v1 keys1 dk_0 Hr Ev Hrefs Hplain).
    Qed.

    Lemma dk_input_ok : input_ok d1 (children_of d1 0).
    Proof.
      destruct Hfr as (_ & Hlab & _). fold W in Hlab. split; [rewrite Hlab; apply nodup_nseq|]. rewrite dk_written.
      split; [apply nodup_nseq|]. split; [rewrite in_nseq; lia|].
      intros id1 i1 _ Hf1. destruct (rs_find_inst_some _ _ _ Hf1) as [Hi1 _].
      destruct (dk_inst i1 Hi1) as (id & i & _ & _ & _ & Hpb). split; [exact (proj1 Hpb)|].
      intro Hc. apply in_map_iff in Hc. destruct Hc as ([t v1] & Et & Hkv). cbn [fst] in Et. subst t.
      destruct (dk_facts i1 _ v1 [] Hi1 Hkv) as (_ & _ & _ & Hnn). now apply Hnn.
    Qed.

    Lemma dk_known_dom : known_dom e vc keep d1 (children_of d1 0).
    Proof.
      intros id1 i1 _ Hf1. destruct (rs_find_inst_some _ _ _ Hf1) as [Hi1 _].
      destruct (dk_inst i1 Hi1) as (id & i & HidW & Hf & Hcl & Hpb). destruct (Hk id i HidW Hf) as (Hname & _ & _).
      split; [rewrite Hcl; exact Hname|]. split.
      - intros t v1 Hkv. exact (proj1 (dk_facts i1 t v1 (ikeys i1) Hi1 Hkv)).
      - assert (Hself : forall k, In k (ikeys i1) -> okey e keep (i_class i1) (ikeys i1) k = Some k).
        { intros k Hkin. unfold ikeys in Hkin. apply (Permutation_in _ (bsort_keys_perm (i_props i1))) in Hkin.
          apply in_map_iff in Hkin. destruct Hkin as ([t v1] & Et & Hkv). cbn [fst] in Et. subst t.
          exact (proj1 (proj2 (dk_facts i1 k v1 (ikeys i1) Hi1 Hkv))). }
        intros k1 k2 t Hk1 Hk2 O1 O2. rewrite (Hself k1 Hk1) in O1. rewrite (Hself k2 Hk2) in O2. congruence.
    Qed.

    Lemma dk_closed : normk_dom e vc keep (written d1 (children_of d1 0)) d1 = d1.
    Proof.
      rewrite dk_written. unfold normk_dom. rewrite <- (List.map_id d1) at 2. apply map_ext_in. intros i1 Hi1.
      destruct i1 as [r p c nm ps]. unfold normk_inst. cbn [i_ref i_parent i_class i_name i_props]. f_equal.
      unfold normk_props. apply filter_map_id. intros [t v1] Hkv. unfold nk_entry. cbn [fst snd].
      destruct (dk_facts (mkInst r p c nm ps) t v1 (ikeys (mkInst r p c nm ps)) Hi1 Hkv) as (_ & O & V & _).
      cbn [i_class] in O, V. rewrite O, V. reflexivity.
    Qed.
  End DecodedK.
End Fix.

(* [d1] is what is loaded from the first save of [d]; saving [d1], loading that and saving again gives the same document *)
Theorem xml_resave_known_fixed_point e vc keep d roots evs revs :
  input_ok d roots -> hash_ok e -> known_dom e vc keep d roots -> vc_plain vc -> fix_dom e vc keep d roots ->
  xml_encode e (ebeh_of keep) d roots = Ok evs -> channel evs = Ok revs ->
  exists d1, xml_decode e (dbeh_of keep) revs = Ok d1 /\
    xml_encode e (ebeh_of keep) d1 (children_of d1 0) = xml_encode e (ebeh_of keep) (normk_dom e vc keep (written d roots) d) roots /\
    forall evs2 revs2, xml_encode e (ebeh_of keep) d1 (children_of d1 0) = Ok evs2 -> channel evs2 = Ok revs2 ->
      exists d2, xml_decode e (dbeh_of keep) revs2 = Ok d2 /\ xml_encode e (ebeh_of keep) d2 (children_of d2 0) = Ok evs2.
Proof.
  intros Hin Hh Hk Hpl Hfix He Hc.
  destruct (xml_resave_known e vc keep d roots evs revs Hin Hh Hk Hpl He Hc) as (d1 & Hd & Hfr & Hkb & Hord & E).
  exists d1. split; [exact Hd|]. split; [exact E|]. intros evs2 revs2 He2 Hc2.
  pose proof (dk_input_ok e vc keep d roots d1 Hin Hk Hpl Hfix Hfr Hkb Hord) as Hin1.
  pose proof (dk_known_dom e vc keep d roots d1 Hin Hk Hpl Hfix Hkb) as Hk1.
  destruct (xml_resave_known e vc keep d1 (children_of d1 0) evs2 revs2 Hin1 Hh Hk1 Hpl He2 Hc2) as (d2 & Hd2 & _ & _ & _ & E2).
  exists d2. split; [exact Hd2|]. rewrite E2, (dk_closed e vc keep d roots d1 Hin Hk Hpl Hfix Hfr Hkb Hord). exact He2.
Qed.
Print Assumptions xml_resave_known_fixed_point.

(* ================================================================= (E) [fix_dom] from self-resolution of the canonical key and idempotence of [norm_known] *)
Lemma val_ok_intro e vc sty cty v : nonspecial v ->
  (exists w, try_convert (xe_o e) v sty = Ok w /\ vc_ok vc w /\ exists v', try_convert (xe_o e) (vc_norm vc w) cty = Ok v') ->
  val_ok e vc sty cty v.
Proof. intros Hns H. destruct v; try contradiction Hns; exact H. Qed.

Section Closed.
  Variables (e : xenv) (vc : vcodec (xe_o e)) (keep : bool).
  (* a value the round trip of a property of types (sty, cty) leaves as it is *)
  Definition nk_fixed (sty cty : N) (nv : value) : Prop :=
    nonspecial nv /\ val_ok e vc sty cty nv /\ norm_known (xe_o e) (vc_norm vc) sty cty nv = Ok nv.
  (* idempotence of the value normalisation, per property *)
  Definition val_fixed (c k : bytes) (v : value) : Prop :=
    match kdesc e c k with
    | Ok (Some (canon, ser)) =>
        mig_of ser = None /\
        (nonspecial v -> forall nv, norm_known (xe_o e) (vc_norm vc) (dtype_vt (pd_type ser)) (dtype_vt (pd_type canon)) v = Ok nv ->
                         nk_fixed (dtype_vt (pd_type ser)) (dtype_vt (pd_type canon)) nv)
    | Ok None => keep = true -> nonspecial v -> vc_ok vc (vc_norm vc v) /\ vc_norm vc (vc_norm vc v) = vc_norm vc v
    | _ => False
    end.
  (* ... and the canonical name, looked up from the same class, resolves to the same pair of descriptors *)
  Definition self_val_ok (c k : bytes) (v : value) : Prop :=
    val_fixed c k v /\
    forall canon ser, kdesc e c k = Ok (Some (canon, ser)) -> kdesc e c (B (pd_name canon)) = Ok (Some (canon, ser)).
  Definition self_dom (d : cdom) (roots : list N) : Prop :=
    forall id i k v, In id (written d roots) -> find_inst d id = Some i -> In (k, v) (i_props i) -> self_val_ok (i_class i) k v.
  Definition val_dom (d : cdom) (roots : list N) : Prop :=
    forall id i k v, In id (written d roots) -> find_inst d id = Some i -> In (k, v) (i_props i) -> val_fixed (i_class i) k v.

  Lemma fix_dom_of d roots : input_ok d roots -> known_dom e vc keep d roots -> self_dom d roots -> fix_dom e vc keep d roots.
  Proof.
    intros Hin Hk Hs id i k v t nv Hid Hf Hkv Hok Hnv.
    destruct (Hk id i Hid Hf) as (_ & Hp & _). pose proof (Hp k v Hkv) as Hkp. destruct (Hs id i k v Hid Hf Hkv) as [Hsv Hself].
    unfold known_prop_ok in Hkp. unfold val_fixed in Hsv. unfold okey, wname in Hok. unfold nk_val in Hnv.
    destruct (kdesc e (i_class i) k) as [[[canon ser]|]| |cc|] eqn:Ek; try contradiction.
    - destruct Hsv as (Em & Hval). specialize (Hself canon ser eq_refl). rewrite Em in Hkp, Hok, Hnv.
      destruct Hkp as (Hms & Hmc & (ser' & Hback) & Hnn & Hv).
      unfold tkey, kdesc, B in Hok. rewrite S_bytes, Hback in Hok. inversion Hok; subst t. fold (B (pd_name canon)).
      unfold ret_ok. rewrite Hself.
      split; [reflexivity|]. split; [exact Hms|]. split; [exact Hmc|]. split; [exists ser'; exact Hback|]. split; [exact Hnn|].
      destruct (value_cases v) as [(r & ->)|[(s & ->)|Hns]].
      + inversion Hnv; subst nv. cbn [nback]. destruct (inW (written d roots) r); (split; [exact I|intros []]).
      + inversion Hnv; subst nv. cbn [nback]. split; [exact Hv|intros []].
      + assert (Hnv' : match norm_known (xe_o e) (vc_norm vc) (dtype_vt (pd_type ser)) (dtype_vt (pd_type canon)) v with Ok v' => Some v' | _ => None end = Some nv)
          by (destruct v; try contradiction Hns; exact Hnv).
        destruct (norm_known (xe_o e) (vc_norm vc) (dtype_vt (pd_type ser)) (dtype_vt (pd_type canon)) v) as [v'| |cc|] eqn:E; try discriminate.
        inversion Hnv'; subst v'. destruct (Hval Hns nv eq_refl) as (_ & F2 & F3). split; [exact F2|intros _; exact F3].
    - destruct keep eqn:Ekeep; [|discriminate]. unfold tkey in Hok. rewrite Ek in Hok. inversion Hok; subst t. inversion Hnv; subst nv.
      unfold ret_ok. rewrite Ek. split; [reflexivity|]. split.
      + destruct Hin as (_ & _ & _ & Hprops). destruct (Hprops id i Hid Hf) as [_ Hnn]. intro E. apply Hnn. rewrite <- E. eapply keys_in; exact Hkv.
      + intro Hnsn. destruct (value_cases v) as [(r & ->)|[(s & ->)|Hns]].
        * cbn [nback] in Hnsn. destruct (inW (written d roots) r); contradiction Hnsn.
        * contradiction Hnsn.
        * replace (nback (written d roots) (vc_norm vc) v) with (vc_norm vc v) by (destruct v; try contradiction Hns; reflexivity).
          exact (Hsv eq_refl Hns).
  Qed.
End Closed.

(* ---- the value part for the simple types: a value of the declared type of a property serialized under its own type (NaN
   canonicalisation, Font clamping: [norm_simple] is idempotent), and a Color3 serialized as Color3uint8 (the quantised bytes stay) *)
Lemma nk_fixed_typed e H v : simple_ok v -> nonspecial v ->
  forall nv, norm_known (xe_o e) norm_simple (vtype v) (vtype v) v = Ok nv -> nk_fixed e (simple_codec (xe_o e) H) (vtype v) (vtype v) nv.
Proof.
  intros Hok Hns nv E. rewrite norm_known_typed in E. inversion E; subst nv. clear E.
  pose proof (nonspecial_norm_simple v Hns) as Hns'.
  assert (Hc : try_convert (xe_o e) (norm_simple v) (vtype v) = Ok (norm_simple v)) by (rewrite <- (vtype_norm_simple v); apply try_convert_own).
  split; [exact Hns'|]. split.
  - apply val_ok_intro; [exact Hns'|]. exists (norm_simple v). split; [exact Hc|]. split; [exact (simple_ok_norm v Hok)|].
    exists (norm_simple v). cbn [vc_norm simple_codec]. rewrite norm_simple_idem. exact Hc.
  - cbn [vc_norm simple_codec]. rewrite <- (vtype_norm_simple v). rewrite norm_known_typed, norm_simple_idem. reflexivity.
Qed.
Lemma nk_fixed_color e H cty r g b : (forall x y, xo_quant (xe_o e) x = Some y -> y < 256) ->
  forall nv, norm_known (xe_o e) norm_simple XT_Color3uint8 cty (VColor3 r g b) = Ok nv -> nk_fixed e (simple_codec (xe_o e) H) XT_Color3uint8 cty nv.
Proof.
  intros Hq nv E. unfold norm_known in E. cbn [try_convert] in E. change (XT_Color3uint8 =? XT_Color3uint8) with true in E. cbv iota in E.
  unfold ask in E.
  destruct (xo_quant (xe_o e) r) as [r'|] eqn:Er; cbn [rbind] in E; [|discriminate].
  destruct (xo_quant (xe_o e) g) as [g'|] eqn:Eg; cbn [rbind] in E; [|discriminate].
  destruct (xo_quant (xe_o e) b) as [b'|] eqn:Eb; cbn [rbind] in E; [|discriminate].
  cbn [norm_simple try_convert] in E. inversion E; subst nv. clear E.
  split; [exact I|]. split.
  - apply val_ok_intro; [exact I|]. exists (VColor3uint8 r' g' b'). split; [reflexivity|].
    split; [cbn; repeat split; eapply Hq; eassumption|]. exists (VColor3uint8 r' g' b'). reflexivity.
  - reflexivity.
Qed.

(* ================================================================= (F) W3: the database part as an executable check; the bundled database *)
From RbxVerif Require Import DbFacts.
From RbxVerif Require Database.
Open Scope string_scope.
(* the canonical name of the key [k], looked up from the same class, gives the same (canonical, serialized) pair *)
Definition self_b (d : db) (cn k : string) : bool :=
  match find_desc_xml d cn k with
  | Ok (Some (canon, ser)) =>
      match find_desc_xml d cn (pd_name canon) with
      | Ok (Some (canon', ser')) => pdesc_eqb canon canon' && pdesc_eqb ser ser'
      | _ => false
      end
  | _ => true
  end.
Definition db_self_ok (d : db) : bool :=
  forallb (fun c => forallb (fun p => self_b d (cd_name c) (pd_name p)) (visible_props d c)) (db_classes d).
Theorem db_self_ok_sound d : db_coherent d = true -> db_self_ok d = true ->
  forall cn k canon ser, find_desc_xml d cn k = Ok (Some (canon, ser)) -> find_desc_xml d cn (pd_name canon) = Ok (Some (canon, ser)).
Proof.
  intros Hco Hchk cn k canon ser Hl.
  destruct (lookup_visible d cn k _ Hco Hl) as (c & p & _ & Hc & <- & Hp & <-).
  unfold db_self_ok in Hchk. rewrite forallb_forall in Hchk. specialize (Hchk c Hc). rewrite forallb_forall in Hchk. specialize (Hchk p Hp).
  unfold self_b in Hchk. rewrite Hl in Hchk.
  destruct (find_desc_xml d (cd_name c) (pd_name canon)) as [[[canon' ser']|]| |cc|]; try discriminate.
  apply andb_true_iff in Hchk. destruct Hchk as [H1 H2]. apply pdesc_eqb_sound in H1. apply pdesc_eqb_sound in H2. subst. reflexivity.
Qed.
(* a CANONICAL key resolves to itself in any database *)
Lemma canonical_key_self d cn k canon ser : find_desc_xml d cn k = Ok (Some (canon, ser)) -> pd_name canon = k ->
  find_desc_xml d cn (pd_name canon) = Ok (Some (canon, ser)).
Proof. intros H ->. exact H. Qed.

(* the exhaustive run: every (class, key) pair of the bundled database, aliases included; no exception *)
Theorem bundled_self_ok : db_self_ok Database.database = true.
Proof. vm_cast_no_check (eq_refl true). Qed.

(* W3: on the bundled database, for every key (canonical or alias) other than the two recorded exceptions of
   [bundled_keys_ok] (seras_not_back_refuted, seras_clash_refuted), neither descriptor migrating: the database part of [ret_ok]
   holds of the canonical name *)
Theorem bundled_ret_db cn k canon ser :
  find_desc_xml Database.database cn k = Ok (Some (canon, ser)) -> k <> "Name" -> ~ In (cn, k) bundled_exceptions ->
  nonmig ser -> nonmig canon ->
  find_desc_xml Database.database cn (pd_name canon) = Ok (Some (canon, ser)) /\ pd_name canon <> "Name" /\
  exists ser', find_desc_xml Database.database cn (pd_name ser) = Ok (Some (canon, ser')).
Proof.
  intros Hl Hk Hexc Hms Hmc. split; [exact (db_self_ok_sound _ bundled_coherent bundled_self_ok cn k canon ser Hl)|].
  exact (db_keys_ok_sound _ _ bundled_coherent bundled_keys_ok cn k canon ser Hl Hk Hexc Hms Hmc).
Qed.

Lemma self_dom_db e vc keep d roots : db_coherent (xe_db e) = true -> db_self_ok (xe_db e) = true ->
  val_dom e vc keep d roots -> self_dom e vc keep d roots.
Proof.
  intros Hco Hs Hv id i k v Hid Hf Hkv. split; [exact (Hv id i k v Hid Hf Hkv)|].
  intros canon ser Hl. unfold kdesc, B in *. rewrite S_bytes. exact (db_self_ok_sound _ Hco Hs _ _ canon ser Hl).
Qed.

Theorem xml_resave_known_fixed_point_db e vc keep exc d roots evs revs :
  db_coherent (xe_db e) = true -> db_keys_ok (xe_db e) exc = true -> db_names_ok (xe_db e) = true -> db_self_ok (xe_db e) = true ->
  input_ok d roots -> hash_ok e -> db_dom e vc keep exc d roots -> vc_plain vc -> val_dom e vc keep d roots ->
  xml_encode e (ebeh_of keep) d roots = Ok evs -> channel evs = Ok revs ->
  exists d1, xml_decode e (dbeh_of keep) revs = Ok d1 /\
    xml_encode e (ebeh_of keep) d1 (children_of d1 0) = xml_encode e (ebeh_of keep) (normk_dom e vc keep (written d roots) d) roots /\
    forall evs2 revs2, xml_encode e (ebeh_of keep) d1 (children_of d1 0) = Ok evs2 -> channel evs2 = Ok revs2 ->
      exists d2, xml_decode e (dbeh_of keep) revs2 = Ok d2 /\ xml_encode e (ebeh_of keep) d2 (children_of d2 0) = Ok evs2.
Proof.
  intros Hco Hkeys Hnames Hself Hin Hh Hd Hpl Hv.
  pose proof (db_dom_known e vc keep exc d roots Hco Hkeys Hnames Hd) as Hk.
  apply xml_resave_known_fixed_point; try assumption.
  apply fix_dom_of; [exact Hin|exact Hk|]. now apply self_dom_db.
Qed.
Theorem xml_resave_known_fixed_point_bundled e vc keep d roots evs revs :
  xe_db e = Database.database ->
  input_ok d roots -> hash_ok e -> db_dom e vc keep bundled_exceptions d roots -> vc_plain vc -> val_dom e vc keep d roots ->
  xml_encode e (ebeh_of keep) d roots = Ok evs -> channel evs = Ok revs ->
  exists d1, xml_decode e (dbeh_of keep) revs = Ok d1 /\
    xml_encode e (ebeh_of keep) d1 (children_of d1 0) = xml_encode e (ebeh_of keep) (normk_dom e vc keep (written d roots) d) roots /\
    forall evs2 revs2, xml_encode e (ebeh_of keep) d1 (children_of d1 0) = Ok evs2 -> channel evs2 = Ok revs2 ->
      exists d2, xml_decode e (dbeh_of keep) revs2 = Ok d2 /\ xml_encode e (ebeh_of keep) d2 (children_of d2 0) = Ok evs2.
Proof.
  intro Edb. apply xml_resave_known_fixed_point_db; rewrite Edb;
    [exact bundled_coherent|exact bundled_keys_ok|exact bundled_names_ok|exact bundled_self_ok].
Qed.
Print Assumptions xml_resave_known_fixed_point_bundled.
Print Assumptions bundled_ret_db.

(* ================================================================= (G) non-vacuity: save, load, save, load, save on the bundled database *)
Open Scope N_scope.
Set Warnings "-unused-intro-pattern".
(* a Model with a Part and an ObjectValue: the alias spelling `size` (a Vector3 with a NaN payload), `Color` (a Color3, serialized
   as Color3uint8), a Float32 NaN with a payload, a Ref to a written instance, a dangling Ref, a property the database does not know *)
Definition d_w : cdom :=
  [mkInst 1 0 (B "Model") (B "m") [(B "PrimaryPart", VRef 2); (B "Mystery", VInt32 7)];
   mkInst 2 1 (B "Part") (B "p")
     [(B "size", VVector3 (mkV3 F32_ONE F32_NNAN F32_ZERO)); (B "Color", VColor3 F32_ONE F32_HALF F32_ZERO); (B "Anchored", VBool true);
      (B "Transparency", VFloat32 F32_NNAN)];
   mkInst 3 1 (B "ObjectValue") (B "o") [(B "Value", VRef 99)]].
(* its normal form: `size` is `Size`, the NaNs are the canonical NaN, the colour is the three bytes, the dangling Ref is null,
   the unknown property is gone *)
Definition d_w_norm : cdom :=
  [mkInst 1 0 (B "Model") (B "m") [(B "PrimaryPart", VRef 2)];
   mkInst 2 1 (B "Part") (B "p")
     [(B "Size", VVector3 (mkV3 F32_ONE F32_NAN F32_ZERO)); (B "Color", VColor3uint8 255 128 0); (B "Anchored", VBool true);
      (B "Transparency", VFloat32 F32_NAN)];
   mkInst 3 1 (B "ObjectValue") (B "o") [(B "Value", VRef 0)]].

Lemma o_k_quant_256 : forall x y, xo_quant (xe_o e_b) x = Some y -> y < 256.
Proof.
  intros x y H. change (Some (q_k x) = Some y) in H. inversion H. unfold q_k.
  destruct (x =? F32_ONE); [reflexivity|]. destruct (x =? F32_HALF); reflexivity.
Qed.

Lemma d_w_dom : db_dom e_b vc_b false bundled_exceptions d_w [1].
Proof.
  assert (HW : written d_w [1] = [1; 2; 3]) by reflexivity.
  intros id i Hid Hf. rewrite HW in Hid. cbn [In] in Hid.
  destruct Hid as [<-|[<-|[<-|[]]]]; vm_compute in Hf; inversion Hf; subst i; cbn [i_class i_props]; split.
  all: try (apply one_spelling_b_sound; vm_compute; reflexivity).
  all: intros k v Hkv; cbn [In] in Hkv;
       repeat (destruct Hkv as [Hkv|Hkv]; [inversion Hkv; subst k v; clear Hkv|]); try contradiction;
       (split; [vm_compute; discriminate|]);
       (split; [cbn [bundled_exceptions In]; intros [E|[E|[]]]; vm_compute in E; discriminate E|]); kdesc_compute.
  all: first [ split; [exact I|split; [exact I|val_ok_solve]] | mig_solve | exact I ].
Qed.

Lemma d_w_val : val_dom e_b vc_b false d_w [1].
Proof.
  assert (HW : written d_w [1] = [1; 2; 3]) by reflexivity.
  intros id i k v Hid Hf Hkv. rewrite HW in Hid. cbn [In] in Hid.
  destruct Hid as [<-|[<-|[<-|[]]]]; vm_compute in Hf; inversion Hf; subst i; cbn [i_class i_props] in *.
  all: cbn [In] in Hkv; repeat (destruct Hkv as [Hkv|Hkv]; [inversion Hkv; subst k v; clear Hkv|]); try contradiction;
       unfold val_fixed; kdesc_compute.
  all: first [ intro Hkeep; discriminate Hkeep
             | split; [reflexivity|]; intros Hns nv E; try contradiction Hns;
               match type of E with
               | norm_known _ _ _ _ ?v = Ok _ =>
                   first [ exact (nk_fixed_typed e_b o_k_float_laws v ltac:(vc_ok_solve) I nv E)
                         | exact (nk_fixed_color e_b o_k_float_laws _ _ _ _ o_k_quant_256 nv E) ]
               end ].
Qed.

Example xml_resave_known_example :
  input_ok d_w [1] /\ hash_ok e_b /\ db_dom e_b vc_b false bundled_exceptions d_w [1] /\ vc_plain vc_b /\ val_dom e_b vc_b false d_w [1] /\
  normk_dom e_b vc_b false (written d_w [1]) d_w = d_w_norm /\
  match xml_encode e_b EIgnoreUnknown d_w [1] with
  | Ok evs1 =>
      match (revs1 <- channel evs1 ;; xml_decode e_b DIgnoreUnknown revs1) with
      | Ok d1 =>
          match xml_encode e_b EIgnoreUnknown d1 (children_of d1 0) with
          | Ok evs2 =>
              match (revs2 <- channel evs2 ;; xml_decode e_b DIgnoreUnknown revs2) with
              | Ok d2 =>
                  xml_encode e_b EIgnoreUnknown d2 (children_of d2 0) = Ok evs2 /\ evs1 <> evs2 /\
                  xml_encode e_b EIgnoreUnknown d_w_norm [1] = Ok evs2 /\
                  xml_encode e_b EIgnoreUnknown d1 (children_of d1 0) = xml_encode e_b EIgnoreUnknown d2 (children_of d2 0)
              | _ => False
              end
          | _ => False
          end
      | _ => False
      end
  | _ => False
  end.
Proof.
  split; [apply input_okb_sound; vm_compute; reflexivity|]. split; [exact e_rt_hash_ok|]. split; [exact d_w_dom|].
  split; [exact (simple_codec_plain _ _)|]. split; [exact d_w_val|]. split; [vm_compute; reflexivity|].
  vm_compute. split; [reflexivity|]. split; [discriminate|]. split; reflexivity.
Qed.

(* ================================================================= (H) the hypotheses are needed *)
(* W1 needs the closed-under-write-read condition of [known_dom] (seras_clash_refuted): the Sound of the bundled database that
   carries both MaxDistance and RollOffMaxDistance; both come back under RollOffMaxDistance, the normal form lists two
   entries, the loaded DOM one, and the second save is NOT the save of the normal form *)
Definition d_s : cdom :=
  [mkInst 1 0 (B "Sound") (B "s") [(B "MaxDistance", VFloat32 F32_ONE); (B "RollOffMaxDistance", VFloat32 F32_HALF)]].
Example resave_known_clash_refuted :
  key_ok_b Database.database "Sound" "MaxDistance" = false /\
  one_spelling_b e_b false (B "Sound") (ikeys (mkInst 1 0 (B "Sound") (B "s") [(B "MaxDistance", VFloat32 F32_ONE); (B "RollOffMaxDistance", VFloat32 F32_HALF)])) = false /\
  normk_dom e_b vc_b false (written d_s [1]) d_s
  = [mkInst 1 0 (B "Sound") (B "s") [(B "RollOffMaxDistance", VFloat32 F32_ONE); (B "RollOffMaxDistance", VFloat32 F32_HALF)]] /\
  let d1 := [mkInst 1 0 (B "Sound") (B "s") [(B "RollOffMaxDistance", VFloat32 F32_HALF)]] in
  thru e_b EIgnoreUnknown DIgnoreUnknown d_s [1] = Ok d1 /\
  xml_encode e_b EIgnoreUnknown d1 (children_of d1 0) <> xml_encode e_b EIgnoreUnknown (normk_dom e_b vc_b false (written d_s [1]) d_s) [1].
Proof.
  split; [vm_compute; reflexivity|]. split; [vm_compute; reflexivity|]. split; [vm_compute; reflexivity|]. cbv zeta.
  split; [vm_compute; reflexivity|]. intro H.
  apply (f_equal (fun r : res (list wevent) => match r with Ok l => length l | _ => 0%nat end)) in H. vm_compute in H. discriminate H.
Qed.

(* W2 needs [fix_dom] (the closed-under-write-read condition for the key the property CAME BACK under).  A database in which a
   subclass shadows a canonical property: seen from `Sub`, the alias `a` leads to Base.A (serialized as `a_x`, which leads back
   to Base.A: [key_ok_b] holds of (Sub, a), all the hypotheses of W1 hold), but the canonical name `A` it comes back under
   resolves, from `Sub`, to Sub.A, whose serialized name `zz` is an alias of Q ([key_ok_b] fails of (Sub, A), as it does of
   (Sound, MaxDistance) in the bundled database: seras_not_back_refuted).  The first load holds `A`, the second `Q`; the second
   save writes `zz`, the third `Q`. *)
Definition db_r : db := mkDb
  [mkCD "Instance" None false [mkPD "Name" (DValue 24) (KCanon PSerializes)] [];
   mkCD "Base" (Some "Instance") false
     [mkPD "A" (DValue 2) (KCanon (PSerAs "a_x")); mkPD "a_x" (DValue 2) (KAlias "A"); mkPD "a" (DValue 2) (KAlias "A")] [];
   mkCD "Sub" (Some "Base") false
     [mkPD "A" (DValue 2) (KCanon (PSerAs "zz")); mkPD "zz" (DValue 2) (KAlias "Q"); mkPD "Q" (DValue 2) (KCanon PSerializes)] []] [].
Definition e_r : xenv := mkXE db_r [] [] o_k hash_k.
Definition vc_r : vcodec (xe_o e_r) := simple_codec (xe_o e_r) o_k_float_laws.
Definition d_r : cdom := [mkInst 1 0 (B "Sub") (B "s") [(B "a", VBool true)]].
Lemma d_r_dom : db_dom e_r vc_r false [("Sub", "A")] d_r [1].
Proof.
  assert (HW : written d_r [1] = [1]) by reflexivity.
  intros id i Hid Hf. rewrite HW in Hid. cbn [In] in Hid.
  destruct Hid as [<-|[]]; vm_compute in Hf; inversion Hf; subst i; cbn [i_class i_props]; split.
  all: try (apply one_spelling_b_sound; vm_compute; reflexivity).
  all: intros k v Hkv; cbn [In] in Hkv;
       repeat (destruct Hkv as [Hkv|Hkv]; [inversion Hkv; subst k v; clear Hkv|]); try contradiction;
       (split; [vm_compute; discriminate|]); (split; [cbn [In]; intros [E|[]]; vm_compute in E; discriminate E|]); kdesc_compute.
  all: first [ split; [exact I|split; [exact I|val_ok_solve]] | exact I ].
Qed.
Lemma d_r_known : input_ok d_r [1] /\ hash_ok e_r /\ known_dom e_r vc_r false d_r [1] /\ vc_plain vc_r.
Proof.
  split; [apply input_okb_sound; vm_compute; reflexivity|]. split; [exact e_rt_hash_ok|]. split; [|exact (simple_codec_plain _ _)].
  apply (db_dom_known e_r vc_r false [("Sub", "A")] d_r [1]); [vm_compute; reflexivity|vm_compute; reflexivity|vm_compute; reflexivity|exact d_r_dom].
Qed.
Definition r_d1 : cdom := [mkInst 1 0 (B "Sub") (B "s") [(B "A", VBool true)]].
Definition r_d2 : cdom := [mkInst 1 0 (B "Sub") (B "s") [(B "Q", VBool true)]].
Definition r_evs1 : list wevent := Eval vm_compute in match xml_encode e_r EIgnoreUnknown d_r [1] with Ok x => x | _ => [] end.
Definition r_revs1 : list revent := Eval vm_compute in match channel r_evs1 with Ok x => x | _ => [] end.
Definition r_evs2 : list wevent := Eval vm_compute in match xml_encode e_r EIgnoreUnknown r_d1 [1] with Ok x => x | _ => [] end.
Definition r_revs2 : list revent := Eval vm_compute in match channel r_evs2 with Ok x => x | _ => [] end.
Lemma r_steps :
  xml_encode e_r EIgnoreUnknown d_r [1] = Ok r_evs1 /\ channel r_evs1 = Ok r_revs1 /\ xml_decode e_r DIgnoreUnknown r_revs1 = Ok r_d1 /\
  children_of r_d1 0 = [1] /\ children_of r_d2 0 = [1] /\
  xml_encode e_r EIgnoreUnknown r_d1 [1] = Ok r_evs2 /\ channel r_evs2 = Ok r_revs2 /\ xml_decode e_r DIgnoreUnknown r_revs2 = Ok r_d2 /\
  xml_encode e_r EIgnoreUnknown r_d2 [1] <> Ok r_evs2.
Proof. repeat (split; [vm_compute; reflexivity|]). vm_compute. discriminate. Qed.

Example fix_dom_needed_refuted :
  key_ok_b db_r "Sub" "a" = true /\ key_ok_b db_r "Sub" "A" = false /\ self_b db_r "Sub" "a" = false /\
  input_ok d_r [1] /\ hash_ok e_r /\ known_dom e_r vc_r false d_r [1] /\ vc_plain vc_r /\
  ~ fix_dom e_r vc_r false d_r [1] /\
  thru e_r EIgnoreUnknown DIgnoreUnknown d_r [1] = Ok r_d1 /\ thru e_r EIgnoreUnknown DIgnoreUnknown r_d1 (children_of r_d1 0) = Ok r_d2 /\
  xml_encode e_r EIgnoreUnknown r_d2 (children_of r_d2 0) <> xml_encode e_r EIgnoreUnknown r_d1 (children_of r_d1 0).
Proof.
  destruct d_r_known as (Hin & Hh & Hk & Hpl).
  destruct r_steps as (He & Hc & Hd & K1 & K2 & He2 & Hc2 & Hd2 & Hne).
  split; [vm_compute; reflexivity|]. split; [vm_compute; reflexivity|]. split; [vm_compute; reflexivity|].
  split; [exact Hin|]. split; [exact Hh|]. split; [exact Hk|]. split; [exact Hpl|]. split; [|split; [|split]].
  - intro Hfix.
    destruct (xml_resave_known_fixed_point e_r vc_r false d_r [1] r_evs1 r_revs1 Hin Hh Hk Hpl Hfix He Hc) as (d1 & Hd' & _ & Hfp).
    cbn [dbeh_of ebeh_of] in Hd', Hfp. rewrite Hd in Hd'. inversion Hd'; subst d1. clear Hd'. rewrite K1 in Hfp.
    destruct (Hfp r_evs2 r_revs2 He2 Hc2) as (d2 & Hd2' & E3). rewrite Hd2 in Hd2'. inversion Hd2'; subst d2. rewrite K2 in E3. exact (Hne E3).
  - unfold thru. rewrite He. cbn [rbind]. rewrite Hc. cbn [rbind]. exact Hd.
  - unfold thru. rewrite K1, He2. cbn [rbind]. rewrite Hc2. cbn [rbind]. exact Hd2.
  - rewrite K1, K2, He2. exact Hne.
Qed.

(* W3, in the form W2 uses it: on the bundled database, for any key (canonical or alias) that is not one of the two recorded
   exceptions, neither descriptor migrating, [ret_ok] holds of the canonical name it comes back under for every value that is a
   fixed point of the value normalisation *)
Theorem bundled_ret_ok e vc keep c k canon ser nv :
  xe_db e = Database.database -> kdesc e c k = Ok (Some (canon, ser)) -> S_ k <> "Name"%string -> ~ In (S_ c, S_ k) bundled_exceptions ->
  nonmig ser -> nonmig canon ->
  val_ok e vc (dtype_vt (pd_type ser)) (dtype_vt (pd_type canon)) nv ->
  (nonspecial nv -> norm_known (xe_o e) (vc_norm vc) (dtype_vt (pd_type ser)) (dtype_vt (pd_type canon)) nv = Ok nv) ->
  ret_ok e vc keep c (B (pd_name canon)) nv.
Proof.
  intros Edb Hl Hk Hexc Hms Hmc Hv Hnk. unfold kdesc in Hl. rewrite Edb in Hl.
  destruct (bundled_ret_db (S_ c) (S_ k) canon ser Hl Hk Hexc Hms Hmc) as (H1 & H2 & ser' & H3).
  unfold ret_ok, kdesc, B. rewrite S_bytes, Edb, H1.
  split; [reflexivity|]. split; [exact Hms|]. split; [exact Hmc|]. split; [exists ser'; exact H3|]. split; [exact H2|]. split; [exact Hv|exact Hnk].
Qed.
Print Assumptions bundled_ret_ok.
Print Assumptions xml_resave_known_example.
Print Assumptions fix_dom_needed_refuted.
Print Assumptions resave_known_clash_refuted.

(* ---- the same with WriteUnknown / ReadUnknown ([keep] = true): the unknown property stays *)
Lemma d_w_dom_keep : db_dom e_b vc_b true bundled_exceptions d_w [1].
Proof.
  assert (HW : written d_w [1] = [1; 2; 3]) by reflexivity.
  intros id i Hid Hf. rewrite HW in Hid. cbn [In] in Hid.
  destruct Hid as [<-|[<-|[<-|[]]]]; vm_compute in Hf; inversion Hf; subst i; cbn [i_class i_props]; split.
  all: try (apply one_spelling_b_sound; vm_compute; reflexivity).
  all: intros k v Hkv; cbn [In] in Hkv;
       repeat (destruct Hkv as [Hkv|Hkv]; [inversion Hkv; subst k v; clear Hkv|]); try contradiction;
       (split; [vm_compute; discriminate|]);
       (split; [cbn [bundled_exceptions In]; intros [E|[E|[]]]; vm_compute in E; discriminate E|]); kdesc_compute.
  all: first [ split; [exact I|split; [exact I|val_ok_solve]] | mig_solve | intros _; vc_ok_solve | exact I ].
Qed.
Lemma d_w_val_keep : val_dom e_b vc_b true d_w [1].
Proof.
  assert (HW : written d_w [1] = [1; 2; 3]) by reflexivity.
  intros id i k v Hid Hf Hkv. rewrite HW in Hid. cbn [In] in Hid.
  destruct Hid as [<-|[<-|[<-|[]]]]; vm_compute in Hf; inversion Hf; subst i; cbn [i_class i_props] in *.
  all: cbn [In] in Hkv; repeat (destruct Hkv as [Hkv|Hkv]; [inversion Hkv; subst k v; clear Hkv|]); try contradiction;
       unfold val_fixed; kdesc_compute.
  all: first [ intros _ _; split; [vc_ok_solve|reflexivity]
             | split; [reflexivity|]; intros Hns nv E; try contradiction Hns;
               match type of E with
               | norm_known _ _ _ _ ?v = Ok _ =>
                   first [ exact (nk_fixed_typed e_b o_k_float_laws v ltac:(vc_ok_solve) I nv E)
                         | exact (nk_fixed_color e_b o_k_float_laws _ _ _ _ o_k_quant_256 nv E) ]
               end ].
Qed.
Definition d_w_norm_keep : cdom :=
  [mkInst 1 0 (B "Model") (B "m") [(B "PrimaryPart", VRef 2); (B "Mystery", VInt32 7)];
   mkInst 2 1 (B "Part") (B "p")
     [(B "Size", VVector3 (mkV3 F32_ONE F32_NAN F32_ZERO)); (B "Color", VColor3uint8 255 128 0); (B "Anchored", VBool true);
      (B "Transparency", VFloat32 F32_NAN)];
   mkInst 3 1 (B "ObjectValue") (B "o") [(B "Value", VRef 0)]].
Example xml_resave_known_keep_example :
  db_dom e_b vc_b true bundled_exceptions d_w [1] /\ val_dom e_b vc_b true d_w [1] /\
  normk_dom e_b vc_b true (written d_w [1]) d_w = d_w_norm_keep /\
  match xml_encode e_b EWriteUnknown d_w [1] with
  | Ok evs1 =>
      match (revs1 <- channel evs1 ;; xml_decode e_b DReadUnknown revs1) with
      | Ok d1 =>
          match xml_encode e_b EWriteUnknown d1 (children_of d1 0) with
          | Ok evs2 =>
              match (revs2 <- channel evs2 ;; xml_decode e_b DReadUnknown revs2) with
              | Ok d2 =>
                  xml_encode e_b EWriteUnknown d2 (children_of d2 0) = Ok evs2 /\ evs1 <> evs2 /\
                  xml_encode e_b EWriteUnknown d_w_norm_keep [1] = Ok evs2
              | _ => False
              end
          | _ => False
          end
      | _ => False
      end
  | _ => False
  end.
Proof.
  split; [exact d_w_dom_keep|]. split; [exact d_w_val_keep|]. split; [vm_compute; reflexivity|].
  vm_compute. split; [reflexivity|]. split; [discriminate|reflexivity].
Qed.

(* EXPORT (for Properties/C07.v):
     normk_dom nk_val xml_resave_known                                   W1
     ret_ok fix_dom xml_resave_known_fixed_point                         W2 (generic: any per-value codec, legacy properties included)
     val_fixed val_dom self_dom fix_dom_of nk_fixed_typed nk_fixed_color W2, closed: self-resolution + idempotence of norm_known per type
     self_b db_self_ok db_self_ok_sound bundled_self_ok bundled_ret_db bundled_ret_ok
     xml_resave_known_fixed_point_db xml_resave_known_fixed_point_bundled W3
     xml_resave_known_example xml_resave_known_keep_example              non-vacuity
     resave_known_clash_refuted fix_dom_needed_refuted                   necessity *)
