(* RefCloneFinal.v — the clone refinement theorems stated for Model/Tree.v's a_clone. *)
From RbxVerif Require Import Base Dom Tree BaseFacts TreeFacts Rep RepWF RefCloneAux RefClone.

Lemma a_clone_p_is_a_clone : a_clone_p = a_clone.
Proof. reflexivity. Qed.

Definition refines_clone_within_final : Prop := forall d a nu nr rs a' nu' nr' roots,
  Rep d a -> uids_below nu a -> refs_below nr a -> prefs_below nr a -> props_nodup a ->
  a_clone a a nu nr rs = Some (a', nu', nr', roots) ->
  exists d', dom_clone None d nu nr rs = Ok (d', nu', nr', roots) /\ Rep d' a' /\
             uids_below nu' a' /\ refs_below nr' a' /\ prefs_below nr' a' /\ props_nodup a' /\
             nu <= nu' /\ nr <= nr'.

Definition refines_clone_ext_final : Prop := forall s t sa ta nu nr rs ta' nu' nr' roots,
  Rep s sa -> Rep t ta -> uids_below nu sa -> uids_below nu ta -> refs_below nr sa -> refs_below nr ta ->
  prefs_below nr sa -> prefs_below nr ta -> props_nodup sa -> props_nodup ta ->
  a_clone sa ta nu nr rs = Some (ta', nu', nr', roots) ->
  exists t', dom_clone (Some s) t nu nr rs = Ok (t', nu', nr', roots) /\ Rep t' ta' /\
             uids_below nu' ta' /\ refs_below nr' ta' /\ prefs_below nr' ta' /\ props_nodup ta' /\
             nu <= nu' /\ nr <= nr'.

Lemma clone_within_refines : refines_clone_within_final.
Proof. unfold refines_clone_within_final. rewrite <- a_clone_p_is_a_clone. exact clone_within_refines'. Qed.

Lemma clone_ext_refines : refines_clone_ext_final.
Proof. unfold refines_clone_ext_final. rewrite <- a_clone_p_is_a_clone. exact clone_ext_refines'. Qed.
