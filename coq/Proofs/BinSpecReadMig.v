(* BinSpecReadMig.v — property C04, continued: what the model of the real binary reader stores for MIGRATING PROP chunks, and
   the whole table of keys of a decoded instance.

   BinSpecRead.v stops at [pstepD] (a PROP chunk with a migration is excluded by the hypothesis [prop_nonmig], which
   [phase2_step] needs: its migrating case is `discriminate`).  Here:
     1. [pstepM]: the step of ONE PROP chunk on the (name, property list) of the k-th instance of a class, migrations included
        (mirrors BinFile.add_property); [pstepM_nonmig]: it is [pstepD] on non-migrating chunks.
     2. the TRACE of one key: [fold_key_trace] — for every key, the value the decoded table holds under it is determined by the
        chunks of the class that TARGET this key (canonical name, or the new name of a migration), in chunk order ([tstep]).
        X1 [mig_prop_in_fold], X2 [explicit_wins_in_fold], X3 [every_key_in_fold] are corollaries.
     3. the lift to whole files WITHOUT [prop_nonmig]: [phase2_stepM], [phase2_runM], [reader_decodes_spec_file_domM]
        and the whole-file corollaries. *)
From Coq Require Import List NArith ZArith Bool Lia Permutation.
From RbxVerif Require Import Base Bytes Value Lz4 BinSpec BaseFacts BytesFacts Lz4Facts BinSpecFacts.
From RbxVerif Require Import Db CodecDom BinValues BinFile BinFileFacts.
From RbxVerif Require BinValuesFacts BinValuesFacts2 BinChunkFacts BinFinish BinFraming BinRoundTrip BinSpecAgree.
From RbxVerif Require Import BinSpecRead MigratePaths.
Import ListNotations.
Open Scope N_scope.

(* ================================================================ 1. the step with migrations *)
(* BinFile.add_property on the (name, property list) of an instance *)
Definition addp (p : dec_params) (acc : bytes * list (bytes * value)) (nm : bytes) (mg : option (bytes * migop)) (v : value)
  : bytes * list (bytes * value) :=
  match mg with
  | Some (nn, op) =>
    if existsb (fun kv => bytes_eqb (fst kv) nn) (snd acc) then acc
    else match migrate (dp_font p) (dp_brick p) op v with
         | Some nv => (fst acc, snd acc ++ [(nn, nv)])
         | None => acc
         end
  | None => (fst acc, snd acc ++ [(nm, v)])
  end.

Lemma rec_of_add_property p i nm mg v : rec_of (add_property p i nm mg v) = addp p (rec_of i) nm mg v.
Proof.
  unfold add_property, addp, rec_of. destruct mg as [[nn op]|]; [|reflexivity]. cbn [fst snd].
  destruct (existsb _ (di_props i)); [reflexivity|]. destruct (migrate _ _ _ _); reflexivity.
Qed.

Lemma add_property_label p i nm mg v : di_label (add_property p i nm mg v) = di_label i.
Proof.
  unfold add_property. destruct mg as [[nn op]|]; [|reflexivity].
  destruct (existsb _ (di_props i)); [reflexivity|]. destruct (migrate _ _ _ _); reflexivity.
Qed.

Definition pstepM (d : db) (p : dec_params) (sstr : list (bytes * bytes)) (lo : Z -> N) (cl : bs_class) (k : nat)
                  (acc : bytes * list (bytes * value)) (pr : bs_prop) : bytes * list (bytes * value) :=
  if negb (N.eqb (bp_class pr) (cls_id cl)) then acc else
  match bp_body pr with
  | BValues col =>
    match wire_of_id (bs_col_type col) with
    | None => acc
    | Some ty =>
      if bytes_eqb (bp_name pr) NAME then
        match col with
        | KString names => match nth_error names k with Some s0 => (BinValuesFacts2.str_norm s0, snd acc) | None => acc end
        | _ => acc
        end
      else match find_canonical_property d ty (cls_name cl) (bp_name pr) with
           | Ok (Some (nm, cty, mg)) =>
             match bs_col_values sstr lo col with
             | Ok vals => match nth_error vals k with Some v => addp p acc nm mg (retype cty v) | None => acc end
             | _ => acc
             end
           | _ => acc
           end
    end
  | _ => acc
  end.

Lemma pstepM_ext d p sstr lo lo' cl k acc pr : (forall z, lo z = lo' z) -> pstepM d p sstr lo cl k acc pr = pstepM d p sstr lo' cl k acc pr.
Proof. intros H. unfold pstepM. destruct (bp_body pr); try reflexivity. now rewrite (bs_col_values_ext sstr lo lo' c H). Qed.
Lemma fold_pstepM_ext d p sstr lo lo' cl k : (forall z, lo z = lo' z) -> forall l acc,
  fold_left (pstepM d p sstr lo cl k) l acc = fold_left (pstepM d p sstr lo' cl k) l acc.
Proof. intros H. induction l as [|pr l IH]; intros acc; [reflexivity|]. cbn [fold_left]. now rewrite (pstepM_ext d p sstr lo lo' cl k acc pr H), IH. Qed.

(* on chunks without migration it is the step of BinSpecRead *)
Lemma pstepM_nonmig d p cs sstr lo cl k acc pr : NoDup (List.map cls_id cs) -> In cl cs -> prop_nonmig d cs pr = true ->
  pstepM d p sstr lo cl k acc pr = pstepD d sstr lo cl k acc pr.
Proof.
  intros Hids Hcl Hu. unfold pstepM, pstepD. destruct (N.eqb (bp_class pr) (cls_id cl)) eqn:Ecl; cbn [negb]; [|reflexivity].
  apply N.eqb_eq in Ecl. unfold prop_nonmig in Hu.
  destruct (find (fun c => N.eqb (cls_id c) (bp_class pr)) cs) as [c|] eqn:Ef.
  2:{ exfalso. pose proof (find_none _ _ Ef cl Hcl) as Hn. cbv beta in Hn. rewrite Ecl, N.eqb_refl in Hn. discriminate. }
  destruct (find_class_in _ _ _ Ef) as [Hc Hid]. assert (c = cl) by (apply (class_id_inj cs c cl Hids Hc Hcl); congruence). subst c.
  destruct (bp_body pr) as [col| |]; try reflexivity. destruct (wire_of_id (bs_col_type col)) as [ty|]; [|reflexivity].
  destruct (bytes_eqb (bp_name pr) NAME); [reflexivity|]. cbn [orb] in Hu.
  destruct (find_canonical_property d ty (cls_name cl) (bp_name pr)) as [[[[nm cty] [mg|]]|]| | |]; try discriminate; reflexivity.
Qed.
Lemma fold_pstepM_nonmig d p cs sstr lo cl k : NoDup (List.map cls_id cs) -> In cl cs -> forall l acc,
  forallb (prop_nonmig d cs) l = true -> fold_left (pstepM d p sstr lo cl k) l acc = fold_left (pstepD d sstr lo cl k) l acc.
Proof.
  intros Hids Hcl. induction l as [|pr l IH]; intros acc H; [reflexivity|]. cbn [forallb] in H. apply andb_true_iff in H. destruct H as [H1 H2].
  cbn [fold_left]. now rewrite (pstepM_nonmig d p cs sstr lo cl k acc pr Hids Hcl H1), IH.
Qed.

(* ================================================================ 2. the trace of one key *)
(* the entries of a property list under one key, in order; the table [collect_props] holds the LAST one *)
Definition sel (key : bytes) (l : list (bytes * value)) : list (bytes * value) := filter (fun kv => bytes_eqb (fst kv) key) l.
Definition lastv (T : list (bytes * value)) : option value := match rev T with [] => None | kv :: _ => Some (snd kv) end.

Lemma sel_app key a b : sel key (a ++ b) = sel key a ++ sel key b.
Proof. apply filter_app. Qed.

Lemma bfind_collect_sel key l : bfind key (collect_props l) = lastv (sel key l).
Proof.
  induction l as [|[k1 v1] l IH] using rev_ind; [reflexivity|].
  rewrite collect_props_snoc', bfind_bupd', sel_app. unfold sel at 2. cbn [filter fst]. rewrite (mp_eqb_sym k1 key).
  destruct (bytes_eqb key k1).
  - unfold lastv. rewrite rev_app_distr. reflexivity.
  - now rewrite app_nil_r.
Qed.

Lemma existsb_sel key l : existsb (fun kv => bytes_eqb (fst kv) key) l = match sel key l with [] => false | _ => true end.
Proof.
  induction l as [|[k1 v1] l IH]; [reflexivity|]. cbn [existsb sel filter fst]. destruct (bytes_eqb k1 key); [reflexivity|exact IH].
Qed.

Section Trace.
Variable d : db.
Variable p : dec_params.
Variable cl : bs_class.
Variable k : nat.
Variable sstr : list (bytes * bytes).
Variable lo : Z -> N.

(* the key a PROP chunk of the class can write: its canonical name, or the NEW name of its migration *)
Definition targetM (pr : bs_prop) : option bytes :=
  match bp_body pr with
  | BValues col =>
    match wire_of_id (bs_col_type col) with
    | Some ty => if is_NAME pr then None else
                 match find_canonical_property d ty (cls_name cl) (bp_name pr) with
                 | Ok (Some (nm, _, None)) => Some nm
                 | Ok (Some (_, _, Some (nn, _))) => Some nn
                 | _ => None
                 end
    | None => None
    end
  | _ => None
  end.
Definition tgt (key : bytes) (pr : bs_prop) : bool :=
  psel cl pr && match targetM pr with Some n' => bytes_eqb n' key | None => false end.

(* what the chunk offers to the k-th instance *)
Inductive offer := OPlain (x : value) | OMig (op : migop) (v : value).
Definition offer_of (pr : bs_prop) : option (bytes * offer) :=
  if negb (psel cl pr) then None else
  match bp_body pr with
  | BValues col =>
    match wire_of_id (bs_col_type col) with
    | Some ty => if is_NAME pr then None else
                 match find_canonical_property d ty (cls_name cl) (bp_name pr) with
                 | Ok (Some (nm, cty, mg)) =>
                   match bs_col_values sstr lo col with
                   | Ok vals => match nth_error vals k with
                                | Some v => Some (match mg with
                                                  | None => (nm, OPlain (retype cty v))
                                                  | Some (nn, op) => (nn, OMig op (retype cty v)) end)
                                | None => None end
                   | _ => None end
                 | _ => None
                 end
    | None => None
    end
  | _ => None
  end.

Lemma offer_target pr tk o : offer_of pr = Some (tk, o) -> psel cl pr = true /\ targetM pr = Some tk.
Proof.
  unfold offer_of, targetM. destruct (psel cl pr); cbn [negb]; [|discriminate]. destruct (bp_body pr) as [col| |]; try discriminate.
  destruct (wire_of_id (bs_col_type col)) as [ty|]; [|discriminate]. destruct (is_NAME pr); [discriminate|].
  destruct (find_canonical_property d ty (cls_name cl) (bp_name pr)) as [[[[nm cty] mg]|]| | |]; try discriminate.
  destruct (bs_col_values sstr lo col) as [vals| | |]; try discriminate. destruct (nth_error vals k); [|discriminate].
  destruct mg as [[nn op]|]; intros [= <- _]; now split.
Qed.

Lemma pstepM_snd acc pr :
  snd (pstepM d p sstr lo cl k acc pr) =
  match offer_of pr with
  | Some (tk, OPlain x) => snd acc ++ [(tk, x)]
  | Some (tk, OMig op v) =>
    if existsb (fun kv => bytes_eqb (fst kv) tk) (snd acc) then snd acc
    else match migrate (dp_font p) (dp_brick p) op v with Some w => snd acc ++ [(tk, w)] | None => snd acc end
  | None => snd acc
  end.
Proof.
  unfold pstepM, offer_of, psel, is_NAME. destruct (negb (N.eqb (bp_class pr) (cls_id cl))); [reflexivity|].
  destruct (bp_body pr) as [col| |]; try reflexivity. destruct (wire_of_id (bs_col_type col)) as [ty|]; [|reflexivity].
  destruct (bytes_eqb (bp_name pr) NAME).
  - destruct col; try reflexivity. now destruct (nth_error l k).
  - destruct (find_canonical_property d ty (cls_name cl) (bp_name pr)) as [[[[nm cty] mg]|]| | |]; try reflexivity.
    destruct (bs_col_values sstr lo col) as [vals| | |]; try reflexivity. destruct (nth_error vals k) as [v|]; [|reflexivity].
    unfold addp. destruct mg as [[nn op]|]; [|reflexivity].
    destruct (existsb _ (snd acc)); [reflexivity|]. destruct (migrate _ _ _ _); reflexivity.
Qed.

(* the step on the trace of [key] *)
Definition tstep (key : bytes) (T : list (bytes * value)) (pr : bs_prop) : list (bytes * value) :=
  match offer_of pr with
  | Some (tk, o) =>
    if bytes_eqb tk key then
      match o with
      | OPlain x => T ++ [(tk, x)]
      | OMig op v => match T with
                     | [] => match migrate (dp_font p) (dp_brick p) op v with Some w => [(tk, w)] | None => [] end
                     | _ => T
                     end
      end
    else T
  | None => T
  end.

Lemma pstepM_sel key acc pr : sel key (snd (pstepM d p sstr lo cl k acc pr)) = tstep key (sel key (snd acc)) pr.
Proof.
  rewrite pstepM_snd. unfold tstep. destruct (offer_of pr) as [[tk [x|op v]]|]; [| |reflexivity].
  - rewrite sel_app. unfold sel at 2. cbn [filter fst]. destruct (bytes_eqb tk key); [reflexivity|apply app_nil_r].
  - destruct (bytes_eqb tk key) eqn:E.
    + apply mp_eqb_eq in E. subst tk. rewrite existsb_sel. destruct (sel key (snd acc)) as [|x T] eqn:ES; [|exact ES].
      destruct (migrate _ _ _ _) as [w|]; [|exact ES]. rewrite sel_app, ES. unfold sel. cbn [filter fst app]. now rewrite mp_eqb_refl.
    + destruct (existsb _ (snd acc)); [reflexivity|]. destruct (migrate _ _ _ _) as [w|]; [|reflexivity].
      rewrite sel_app. unfold sel at 2. cbn [filter fst]. rewrite E. apply app_nil_r.
Qed.

Lemma fold_pstepM_sel key : forall l acc,
  sel key (snd (fold_left (pstepM d p sstr lo cl k) l acc)) = fold_left (tstep key) l (sel key (snd acc)).
Proof. induction l as [|pr l IH]; intros acc; [reflexivity|]. cbn [fold_left]. now rewrite IH, pstepM_sel. Qed.

Lemma tstep_other key T pr : tgt key pr = false -> tstep key T pr = T.
Proof.
  unfold tstep, tgt. intros H. destruct (offer_of pr) as [[tk o]|] eqn:E; [|reflexivity].
  destruct (offer_target pr tk o E) as [H1 H2]. rewrite H1, H2 in H. cbn [andb] in H. now rewrite H.
Qed.

Lemma fold_tstep_filter key : forall l T, fold_left (tstep key) l T = fold_left (tstep key) (filter (tgt key) l) T.
Proof.
  induction l as [|pr l IH]; intros T; [reflexivity|]. cbn [fold_left filter]. destruct (tgt key pr) eqn:E.
  - cbn [fold_left]. apply IH.
  - rewrite (tstep_other key T pr E). apply IH.
Qed.

(* ---- X3, general form: EVERY key of the decoded table, migrations or not: the value under [key] is the last entry of the trace
   of the chunks of the class that target [key], in chunk order *)
Theorem fold_key_trace props key :
  bfind key (collect_props (snd (fold_left (pstepM d p sstr lo cl k) props (cls_name cl, [])))) =
  lastv (fold_left (tstep key) (filter (tgt key) props) []).
Proof. rewrite bfind_collect_sel, fold_pstepM_sel, <- fold_tstep_filter. reflexivity. Qed.

(* a key no chunk of the class targets is not a key of the table *)
Corollary untargeted_not_a_key props key : filter (tgt key) props = [] ->
  bfind key (collect_props (snd (fold_left (pstepM d p sstr lo cl k) props (cls_name cl, [])))) = None.
Proof. intros H. rewrite fold_key_trace, H. reflexivity. Qed.

(* exactly the chunk [pr] of the class targets [nm] *)
Definition only_propM (props : list bs_prop) (nm : bytes) (pr : bs_prop) : Prop := filter (tgt nm) props = [pr].

Lemma offer_plain pr col ty nm cty vals v : tgt nm pr = true ->
  bp_body pr = BValues col -> wire_of_id (bs_col_type col) = Some ty ->
  find_canonical_property d ty (cls_name cl) (bp_name pr) = Ok (Some (nm, cty, None)) ->
  bs_col_values sstr lo col = Ok vals -> nth_error vals k = Some v ->
  offer_of pr = Some (nm, OPlain (retype cty v)).
Proof.
  unfold tgt, targetM, offer_of. intros Ht Hb Hw Hcp Hv Hk. apply andb_true_iff in Ht. destruct Ht as [Hs Ht]. rewrite Hs, Hb, Hw in *.
  cbn [negb]. destruct (is_NAME pr); [discriminate|]. now rewrite Hcp, Hv, Hk.
Qed.
Lemma offer_mig pr col ty nm cty nn op vals v : tgt nn pr = true ->
  bp_body pr = BValues col -> wire_of_id (bs_col_type col) = Some ty ->
  find_canonical_property d ty (cls_name cl) (bp_name pr) = Ok (Some (nm, cty, Some (nn, op))) ->
  bs_col_values sstr lo col = Ok vals -> nth_error vals k = Some v ->
  offer_of pr = Some (nn, OMig op (retype cty v)).
Proof.
  unfold tgt, targetM, offer_of. intros Ht Hb Hw Hcp Hv Hk. apply andb_true_iff in Ht. destruct Ht as [Hs Ht]. rewrite Hs, Hb, Hw in *.
  cbn [negb]. destruct (is_NAME pr); [discriminate|]. now rewrite Hcp, Hv, Hk.
Qed.
Lemma in_filter_tgt props key l pr : filter (tgt key) props = l -> In pr l -> tgt key pr = true.
Proof. intros <- H. apply filter_In in H. now destruct H. Qed.

(* ---- X1: a MIGRATING chunk alone: the table holds the MIGRATED value under the NEW name; a failing migration stores nothing;
   the legacy name is a key only if some (other) chunk targets it *)
Theorem mig_prop_in_fold props pr col ty nm cty nn op vals v :
  only_propM props nn pr -> bp_body pr = BValues col -> wire_of_id (bs_col_type col) = Some ty ->
  find_canonical_property d ty (cls_name cl) (bp_name pr) = Ok (Some (nm, cty, Some (nn, op))) ->
  bs_col_values sstr lo col = Ok vals -> nth_error vals k = Some v ->
  let tbl := collect_props (snd (fold_left (pstepM d p sstr lo cl k) props (cls_name cl, []))) in
  bfind nn tbl = migrate (dp_font p) (dp_brick p) op (retype cty v) /\
  (filter (tgt (bp_name pr)) props = [] -> bfind (bp_name pr) tbl = None).
Proof.
  intros Ho Hb Hw Hcp Hv Hk tbl. subst tbl. split; [|apply untargeted_not_a_key].
  rewrite fold_key_trace, Ho. cbn [fold_left]. unfold tstep.
  rewrite (offer_mig pr col ty nm cty nn op vals v (in_filter_tgt props nn [pr] pr Ho (or_introl eq_refl)) Hb Hw Hcp Hv Hk).
  rewrite mp_eqb_refl. now destruct (migrate _ _ _ _).
Qed.

(* ---- X2: explicit wins, in EITHER chunk order: a plain chunk [pe] (the new property itself, or an alias of it) and a migrating
   chunk [pm] are the two chunks of the class that target [nn]: the table holds the plain chunk's value *)
Theorem explicit_wins_in_fold props pe cole tye ctye valse ve pm colm tym nmm ctym op valsm vm nn :
  (filter (tgt nn) props = [pe; pm] \/ filter (tgt nn) props = [pm; pe]) ->
  bp_body pe = BValues cole -> wire_of_id (bs_col_type cole) = Some tye ->
  find_canonical_property d tye (cls_name cl) (bp_name pe) = Ok (Some (nn, ctye, None)) ->
  bs_col_values sstr lo cole = Ok valse -> nth_error valse k = Some ve ->
  bp_body pm = BValues colm -> wire_of_id (bs_col_type colm) = Some tym ->
  find_canonical_property d tym (cls_name cl) (bp_name pm) = Ok (Some (nmm, ctym, Some (nn, op))) ->
  bs_col_values sstr lo colm = Ok valsm -> nth_error valsm k = Some vm ->
  bfind nn (collect_props (snd (fold_left (pstepM d p sstr lo cl k) props (cls_name cl, [])))) = Some (retype ctye ve).
Proof.
  intros Ho Hbe Hwe Hcpe Hve Hke Hbm Hwm Hcpm Hvm Hkm. rewrite fold_key_trace.
  assert (He : offer_of pe = Some (nn, OPlain (retype ctye ve))).
  { apply (offer_plain pe cole tye nn ctye valse ve); auto. destruct Ho as [Ho|Ho]; eapply in_filter_tgt; try exact Ho; cbn; auto. }
  assert (Hm : offer_of pm = Some (nn, OMig op (retype ctym vm))).
  { apply (offer_mig pm colm tym nmm ctym nn op valsm vm); auto. destruct Ho as [Ho|Ho]; eapply in_filter_tgt; try exact Ho; cbn; auto. }
  destruct Ho as [-> | ->]; cbn [fold_left]; unfold tstep; rewrite He, Hm, mp_eqb_refl; cbn [app].
  - reflexivity.
  - destruct (migrate _ _ _ _); reflexivity.
Qed.

(* ---- X3: every key: when the chunks of the class that target [key] are none, the key is absent; when it is one plain chunk,
   its retyped k-th value *)
Theorem every_key_in_fold props key :
  let tbl := collect_props (snd (fold_left (pstepM d p sstr lo cl k) props (cls_name cl, []))) in
  (filter (tgt key) props = [] -> bfind key tbl = None) /\
  (forall pr col ty cty vals v, filter (tgt key) props = [pr] ->
     bp_body pr = BValues col -> wire_of_id (bs_col_type col) = Some ty ->
     find_canonical_property d ty (cls_name cl) (bp_name pr) = Ok (Some (key, cty, None)) ->
     bs_col_values sstr lo col = Ok vals -> nth_error vals k = Some v ->
     bfind key tbl = Some (retype cty v)).
Proof.
  intros tbl. subst tbl. split; [apply untargeted_not_a_key|].
  intros pr col ty cty vals v Ho Hb Hw Hcp Hv Hk. rewrite fold_key_trace, Ho. cbn [fold_left]. unfold tstep.
  rewrite (offer_plain pr col ty key cty vals v (in_filter_tgt props key [pr] pr Ho (or_introl eq_refl)) Hb Hw Hcp Hv Hk).
  now rewrite mp_eqb_refl.
Qed.
End Trace.

(* ================================================================ 3. the lift to whole files, without [prop_nonmig] *)
(* reader_prop_step_pointwise for ANY migration field: the k-th instance becomes [add_property p i name mg (retype cty v)] *)
Lemma reader_prop_step_pointwise_gen d p st pr st' ti col ty name cty mg vals :
  rstep d p st (IProp pr) = Some st' ->
  lookup (bp_class pr) (ds_types st) = Some ti -> bp_body pr = BValues col ->
  wire_of_id (bs_col_type col) = Some ty -> bytes_eqb (bp_name pr) NAME = false ->
  find_canonical_property d ty (dt_name ti) (bp_name pr) = Ok (Some (name, cty, mg)) ->
  bs_col_values (st_sstr st) (st_label st) col = Ok vals ->
  NoDup (dt_referents ti) -> (forall r, In r (dt_referents ti) -> zfind r (ds_insts st) <> None) ->
  (forall k r v, nth_error (dt_referents ti) k = Some r -> nth_error vals k = Some v ->
     exists i, zfind r (ds_insts st) = Some i /\ zfind r (ds_insts st') = Some (add_property p i name mg (retype cty v))) /\
  (forall z, ~ In z (dt_referents ti) -> zfind z (ds_insts st') = zfind z (ds_insts st)) /\
  ds_types st' = ds_types st /\ ds_sstr st' = ds_sstr st /\ ds_roots st' = ds_roots st /\ ds_next st' = ds_next st.
Proof.
  intros Hs Hty Hbody Hw Hname Hcp Hv Hnd Hreg. cbn [rstep] in Hs.
  destruct (utf8_valid (bp_name pr)); [|discriminate]. cbn [negb] in Hs. rewrite Hty, Hbody in Hs.
  unfold rstep_values in Hs. rewrite Hw in Hs.
  destruct (Nat.eqb (bs_col_len col) (length (dt_referents ti))); [|discriminate]. cbn [negb] in Hs.
  rewrite Hname, Hcp in Hs. destruct (reader_col_ok cty col); [|discriminate]. cbn [negb] in Hs. rewrite Hv in Hs.
  destruct (BinChunkFacts.apply_values_spec (fun i v => add_property p i name mg v) (dt_referents ti) (ds_insts st)
              (List.map (retype cty) vals) Hnd Hreg) as (insts' & Hap & H1 & H2 & _).
  rewrite Hap in Hs. injection Hs as <-. cbn [with_insts BinChunkFacts.with_insts ds_insts ds_types ds_sstr ds_roots ds_next].
  split; [|split; [exact H2|repeat split]].
  intros k r v Hr Hvk. destruct (H1 k r (retype cty v) Hr) as (i & Hi & Hi'); [now rewrite nth_error_map, Hvk|].
  exists i. split; [exact Hi|exact Hi'].
Qed.

(* one step of the PROP phase, migrations included: the record of every instance moves by [pstepM] *)
Lemma phase2_stepM d p st it st1 cs : dp_lim p = None -> ritem_ok it = true -> is_reg it = false ->
  rstep d p st it = Some st1 -> types_inv st cs -> reg_inv st cs -> NoDup (all_refs cs) -> NoDup (List.map cls_id cs) ->
  scan d cs (length (ds_sstr st)) [it] = true ->
  types_inv st1 cs /\ reg_inv st1 cs /\ ds_sstr st1 = ds_sstr st /\ (forall z, st_label st1 z = st_label st z) /\
  forall cl k r, In cl cs -> nth_error (cls_refs cl) k = Some r ->
    rec_of (D_of st1 r) = match it with IProp pr => pstepM d p (st_sstr st) (st_label st) cl k (rec_of (D_of st r)) pr | _ => rec_of (D_of st r) end.
Proof.
  intros Hl Hok Hreg Hs Hty Hri Hnd Hids Hscan.
  destruct it as [l|l|c|pr|rows| |n dta]; try discriminate; cbn [rstep] in Hs.
  - destruct (forallb _ l); [|discriminate]. injection Hs as <-. repeat split; auto.
  - (* PROP *)
    cbn [scan] in Hscan. rewrite andb_true_r in Hscan. unfold scan_prop in Hscan. apply andb_true_iff in Hscan. destruct Hscan as [Hu Hscan].
    destruct (find (fun c => N.eqb (cls_id c) (bp_class pr)) cs) as [c|] eqn:Ef; [|discriminate].
    destruct (find_class_in _ _ _ Ef) as [Hc Hid]. pose proof (Hty c Hc) as Hlk. rewrite Hid in Hlk.
    assert (Hndc : NoDup (cls_refs c)) by exact (BinSpecAgree.NoDup_flat_map_each cls_refs cs c Hnd Hc).
    assert (Hregc : forall r, In r (dt_referents (mkDT (cls_name c) (cls_refs c))) -> zfind r (ds_insts st) <> None)
      by (intros r Hr; exact (Hri c r Hc Hr)).
    assert (Hother : forall cl r, In cl cs -> In r (cls_refs cl) -> N.eqb (bp_class pr) (cls_id cl) = false -> ~ In r (cls_refs c)).
    { intros cl r Hcl Hr Hne Hin. apply N.eqb_neq in Hne. apply Hne. rewrite <- Hid.
      destruct (In_nth_error _ _ Hcl) as [a Ha]. destruct (In_nth_error _ _ Hc) as [b Hb].
      clear - Hnd Hr Hin Hcl Hc. unfold all_refs in Hnd. induction cs as [|x cs IH]; [destruct Hc|]. cbn [flat_map] in Hnd.
      destruct Hcl as [->|Hcl], Hc as [->|Hc]; [reflexivity| | |apply IH; auto; eapply BinFinish.NoDup_app_right; eauto].
      - exfalso. eapply BinFinish.NoDup_app_not; [exact Hnd|exact Hr|]. apply in_flat_map. exists c. now split.
      - exfalso. eapply BinFinish.NoDup_app_not; [exact Hnd|exact Hin|]. apply in_flat_map. exists cl. now split. }
    assert (Hskip : st1 = st -> types_inv st1 cs /\ reg_inv st1 cs /\ ds_sstr st1 = ds_sstr st /\ (forall z, st_label st1 z = st_label st z) /\
              forall cl k r, In cl cs -> nth_error (cls_refs cl) k = Some r -> rec_of (D_of st1 r) = rec_of (D_of st r)).
    { intros ->. repeat split; auto. }
    rewrite Hu in Hs. cbn [negb] in Hs. rewrite Hlk in Hs.
    destruct (bp_body pr) as [col| |ty raw] eqn:Hbody.
    + destruct (wire_of_id (bs_col_type col)) as [ty|] eqn:Hw.
      2:{ unfold rstep_values in Hs. rewrite Hw in Hs. injection Hs as <-. destruct (Hskip eq_refl) as (A & B & C & E & F).
          repeat split; auto. intros cl k r Hcl Hr. unfold pstepM. rewrite Hbody, Hw. now destruct (negb _). }
      apply andb_true_iff in Hscan. destruct Hscan as [Hlen Hscan]. apply Nat.eqb_eq in Hlen.
      destruct (bytes_eqb (bp_name pr) NAME) eqn:Hname.
      * destruct col; try discriminate.
        assert (Hs' : rstep d p st (IProp pr) = Some st1) by (cbn [rstep]; rewrite Hu, Hlk, Hbody; exact Hs).
        destruct (reader_name_step_pointwise d p st pr st1 _ l Hs' Hlk Hbody Hname Hndc Hregc) as (P1 & P2 & T1 & T2 & _ & _).
        cbn [dt_referents] in P1, P2.
        assert (Hfind : forall z, exists same : bool, match zfind z (ds_insts st) with Some i => exists i', zfind z (ds_insts st1) = Some i' /\ di_label i' = di_label i | None => zfind z (ds_insts st1) = None end).
        { intros z. exists true. destruct (in_dec Z.eq_dec z (cls_refs c)) as [Hz|Hz].
          - destruct (In_nth_error _ _ Hz) as [k Hk]. cbn [bs_col_len] in Hlen.
            destruct (nth_error l k) as [s0|] eqn:Es; [|exfalso; exact (nth_error_Some_lt _ _ _ _ Hk Hlen Es)].
            destruct (P1 k z s0 Hk Es) as (i & Hi & Hi'). rewrite Hi. eexists. split; [exact Hi'|reflexivity].
          - rewrite (P2 z Hz). destruct (zfind z (ds_insts st)) as [i|]; [|reflexivity]. eexists. split; reflexivity. }
        split; [intros c0 Hc0; rewrite T1; now apply Hty|]. split.
        { intros cl r Hcl Hr. destruct (Hfind r) as [_ Hf]. specialize (Hri cl r Hcl Hr). destruct (zfind r (ds_insts st)); [|contradiction].
          destruct Hf as (i' & -> & _). discriminate. }
        split; [exact T2|]. split.
        { intros z. unfold st_label. destruct (Hfind z) as [_ Hf]. destruct (zfind z (ds_insts st)) as [i|]; [destruct Hf as (i' & -> & E); exact E|now rewrite Hf]. }
        intros cl k r Hcl Hr. unfold pstepM. rewrite Hbody. cbn [bs_col_type]. change (wire_of_id 1) with (Some WString). cbv iota. rewrite Hname.
        destruct (N.eqb (bp_class pr) (cls_id cl)) eqn:Ecl; cbn [negb].
        -- apply N.eqb_eq in Ecl. assert (cl = c).
           { apply (class_id_inj cs cl c Hids Hcl Hc). congruence. }
           subst cl. cbn [bs_col_len] in Hlen.
           destruct (nth_error l k) as [s0|] eqn:Es; [|exfalso; exact (nth_error_Some_lt _ _ _ _ Hr Hlen Es)].
           destruct (P1 k r s0 Hr Es) as (i & Hi & Hi'). now rewrite (D_of_find st1 r _ Hi'), (D_of_find st r i Hi).
        -- unfold D_of, BinFinish.dinst_of. now rewrite (P2 r (Hother cl r Hcl (nth_error_In _ _ Hr) Ecl)).
      * destruct (find_canonical_property d ty (cls_name c) (bp_name pr)) as [[[[nm cty] mg]|]| | |] eqn:Hcp; try discriminate.
        2:{ (* the database says: does not serialize — skipped *)
            unfold rstep_values in Hs. cbn [dt_referents dt_name] in Hs. rewrite Hw, Hlen, Nat.eqb_refl, Hname, Hcp in Hs. cbn [negb] in Hs.
            injection Hs as <-. destruct (Hskip eq_refl) as (A & B & C & E & F). repeat split; auto.
            intros cl k r Hcl Hr. unfold pstepM. destruct (N.eqb (bp_class pr) (cls_id cl)) eqn:Ecl; cbn [negb]; [|reflexivity].
            apply N.eqb_eq in Ecl. assert (cl = c) by (apply (class_id_inj cs cl c Hids Hcl Hc); congruence). subst cl.
            now rewrite Hbody, Hw, Hname, Hcp. }
        apply andb_true_iff in Hscan. destruct Hscan as [Hrc Hcv].
        destruct (col_values_defined (st_sstr st) (st_label st) col) as (vals & Hv); [unfold st_sstr; now rewrite map_length|].
        assert (Hs' : rstep d p st (IProp pr) = Some st1) by (cbn [rstep]; rewrite Hu, Hlk, Hbody; exact Hs).
        destruct (reader_prop_step_pointwise_gen d p st pr st1 _ col ty _ _ mg vals Hs' Hlk Hbody Hw Hname Hcp Hv Hndc Hregc) as (P1 & P2 & T1 & T2 & _ & _).
        cbn [dt_referents] in P1, P2.
        assert (Hvl : length vals = length (cls_refs c)) by (rewrite (BinSpecAgree.bs_col_values_length _ _ _ _ Hv); exact Hlen).
        assert (Hfind : forall z, match zfind z (ds_insts st) with Some i => exists i', zfind z (ds_insts st1) = Some i' /\ di_label i' = di_label i | None => zfind z (ds_insts st1) = None end).
        { intros z. destruct (in_dec Z.eq_dec z (cls_refs c)) as [Hz|Hz].
          - destruct (In_nth_error _ _ Hz) as [k Hk].
            destruct (nth_error vals k) as [v|] eqn:Es; [|exfalso; exact (nth_error_Some_lt _ _ _ _ Hk Hvl Es)].
            destruct (P1 k z v Hk Es) as (i & Hi & Hi'). rewrite Hi. eexists. split; [exact Hi'|apply add_property_label].
          - rewrite (P2 z Hz). destruct (zfind z (ds_insts st)) as [i|]; [|reflexivity]. eexists. split; reflexivity. }
        split; [intros c0 Hc0; rewrite T1; now apply Hty|]. split.
        { intros cl r Hcl Hr. pose proof (Hfind r) as Hf. specialize (Hri cl r Hcl Hr). destruct (zfind r (ds_insts st)); [|contradiction].
          destruct Hf as (i' & -> & _). discriminate. }
        split; [exact T2|]. split.
        { intros z. unfold st_label. pose proof (Hfind z) as Hf. destruct (zfind z (ds_insts st)) as [i|]; [destruct Hf as (i' & -> & E); exact E|now rewrite Hf]. }
        intros cl k r Hcl Hr. unfold pstepM.
        destruct (N.eqb (bp_class pr) (cls_id cl)) eqn:Ecl; cbn [negb].
        -- apply N.eqb_eq in Ecl. assert (cl = c).
           { apply (class_id_inj cs cl c Hids Hcl Hc). congruence. }
           subst cl. rewrite Hbody, Hw, Hname, Hcp, Hv.
           destruct (nth_error vals k) as [v|] eqn:Es; [|exfalso; exact (nth_error_Some_lt _ _ _ _ Hr Hvl Es)].
           destruct (P1 k r v Hr Es) as (i & Hi & Hi'). rewrite (D_of_find st1 r _ Hi'), (D_of_find st r i Hi). apply rec_of_add_property.
        -- unfold D_of, BinFinish.dinst_of. now rewrite (P2 r (Hother cl r Hcl (nth_error_In _ _ Hr) Ecl)).
    + injection Hs as <-. destruct (Hskip eq_refl) as (A & B & C & E & F). repeat split; auto.
      intros cl k r Hcl Hr. unfold pstepM. rewrite Hbody. now destruct (negb _).
    + destruct (wire_of_id ty); [discriminate|]. injection Hs as <-. destruct (Hskip eq_refl) as (A & B & C & E & F). repeat split; auto.
      intros cl k r Hcl Hr. unfold pstepM. rewrite Hbody. now destruct (negb _).
  - (* PRNT *)
    destruct (prnt_links (ds_insts st) (ds_roots st) rows) as [[i2 r2]| | |] eqn:E; try discriminate. injection Hs as <-.
    destruct (prnt_links_ok_spec _ _ _ _ _ E) as [_ Hf]. cbn [ds_types ds_insts ds_sstr fst]. split; [exact Hty|]. split.
    { intros cl r Hcl Hr. rewrite Hf. specialize (Hri cl r Hcl Hr). now destruct (zfind r (ds_insts st)). }
    split; [reflexivity|]. split.
    { intros z. unfold st_label. cbn [ds_insts fst]. rewrite Hf. now destruct (zfind z (ds_insts st)). }
    intros cl k r Hcl Hr. unfold D_of, BinFinish.dinst_of. cbn [ds_insts fst]. rewrite Hf. now destruct (zfind r (ds_insts st)).
  - injection Hs as <-. repeat split; auto.
Qed.

(* the PROP phase, migrations included *)
Lemma phase2_runM d p cs : dp_lim p = None -> NoDup (all_refs cs) -> NoDup (List.map cls_id cs) ->
  forall items st st', forallb ritem_ok items = true -> forallb (fun it => negb (is_reg it)) items = true ->
  run_steps d p st items = Some st' -> types_inv st cs -> reg_inv st cs -> scan d cs (length (ds_sstr st)) items = true ->
  (forall z, st_label st' z = st_label st z) /\ ds_sstr st' = ds_sstr st /\
  forall cl k r, In cl cs -> nth_error (cls_refs cl) k = Some r ->
    rec_of (D_of st' r) = fold_left (pstepM d p (st_sstr st) (st_label st) cl k) (bs_props items) (rec_of (D_of st r)).
Proof.
  intros Hl Hnd Hids. induction items as [|it r IH]; intros st st' Hok Hnr Hrun Hty Hri Hscan.
  - injection Hrun as <-. repeat split; auto.
  - cbn [forallb] in Hok, Hnr. apply andb_true_iff in Hok, Hnr. destruct Hok as [Hit Hok], Hnr as [Hn Hnr]. apply negb_true_iff in Hn.
    cbn [run_steps] in Hrun. destruct (rstep d p st it) as [st1|] eqn:Hs; [|discriminate].
    destruct (scan_nonreg d cs _ it r Hn Hscan) as [Hsc1 Hscr].
    destruct (phase2_stepM d p st it st1 cs Hl Hit Hn Hs Hty Hri Hnd Hids Hsc1) as (T1 & R1 & S1 & L1 & P1).
    assert (Hss : st_sstr st1 = st_sstr st) by (unfold st_sstr; now rewrite S1).
    rewrite <- S1 in Hscr. destruct (IH st1 st' Hok Hnr Hrun T1 R1 Hscr) as (L2 & S2 & P2).
    split; [intros z; now rewrite L2, L1|]. split; [now rewrite S2|].
    intros cl k r0 Hcl Hr0. rewrite (P2 cl k r0 Hcl Hr0), (P1 cl k r0 Hcl Hr0), Hss, (fold_pstepM_ext d p _ _ _ cl k L1).
    destruct it; unfold bs_props; cbn [flat_map app fold_left]; reflexivity.
Qed.

(* name and properties of the decoded instance that corresponds to a node: the fold of [pstepM] over the PROP chunks in chunk order *)
Definition node_recM (d : db) (f : bs_file) (p : dec_params) (st : dstate) (props : list bs_prop) (n : bs_node) (i : inst) : Prop :=
  exists cl k c pp, In (c, pp) (bf_prnt f) /\ n = mk_node (f_kids f) (f_ai f) (c, pp) /\ In cl (bf_classes f) /\
    nth_error (cls_refs cl) k = Some c /\
    let R := fold_left (pstepM d p (st_sstr st) (st_label st) cl k) props (cls_name cl, []) in
    i_name i = fst R /\ BinRoundTrip.uid_norm p (collect_props (snd R)) (i_props i).

(* reader_decodes_spec_file_dom WITHOUT the hypothesis [forallb (prop_nonmig …)]: any database, any PROP chunks [scan] accepts *)
Theorem reader_decodes_spec_file_domM d p u order cmps f P1 P2 :
  dp_lim p = None -> file_dom_ok f = true ->
  gframes_rt p cmps (List.map (bs_enc_item rdA u) (bs_items_of order f)) ->
  flat_map (item_of_key f) order = P1 ++ P2 ->
  forallb (fun it => negb (is_prop it)) P1 = true -> forallb (fun it => negb (is_reg it)) P2 = true ->
  Permutation (bs_insts P1) (bf_classes f) -> bs_prnts (P1 ++ P2) = [bf_prnt f] ->
  scan d [] 0 (P1 ++ P2) = true -> inst_prnt_ok false (P1 ++ P2) = true ->
  scan d (bs_insts P1) (sstr_total P1) P2 = true ->
  exists st out nodes,
    run_items d p dstate0 (bs_items_of order f) = Some st /\
    decode_file d p (bs_enc_header (bs_header_of f) ++ gframe_all cmps (List.map (bs_enc_item rdA u) (bs_items_of order f))) = Ok out /\
    bspec_to_dom f = Ok nodes /\
    same_dom (phi_of (f_kids f) (D_of st)) (node_recM d f p st (bs_props P2)) nodes out.
Proof.
  intros Hl Hfok Hrt Hitems Hnp Hnr Hperm Hprnt Hscan Hipo Hscan2.
  pose proof (file_dom_ok_sound f Hfok) as HF. destruct HF as [Hwf Hids Hrefs Hkids Hpk Hpar Hcf Htot].
  assert (Hi2 : bs_insts P2 = []).
  { clear - Hnr. induction P2 as [|x l IH]; [reflexivity|]. cbn [forallb] in Hnr. apply andb_true_iff in Hnr. destruct Hnr as [Hx Hl].
    unfold bs_insts. cbn [flat_map]. fold (bs_insts l). rewrite (IH Hl). now destruct x. }
  assert (Hins : bs_insts (P1 ++ P2) = bs_insts P1) by (unfold bs_insts; rewrite flat_map_app; fold (bs_insts P1) (bs_insts P2); now rewrite Hi2, app_nil_r).
  assert (Hpr : Permutation (all_refs (bs_insts P1)) (all_refs (bf_classes f))) by (unfold all_refs; now apply Permutation_flat_map).
  assert (Hnd1 : NoDup (all_refs (bs_insts P1))) by (eapply Permutation_NoDup; [symmetry; exact Hpr|exact Hrefs]).
  assert (Hid1 : NoDup (List.map cls_id (bs_insts P1))) by (eapply Permutation_NoDup; [symmetry; apply Permutation_map; exact Hperm|exact Hids]).
  destruct (forest_of_describes (bf_prnt f) Hkids Hcf) as (Hdesc & HndF & HpermF).
  assert (Hincl : incl (BinFinish.zfrefs (forest_of (bf_prnt f))) (all_refs (bs_insts (flat_map (item_of_key f) order)))).
  { rewrite Hitems, Hins. intros z Hz. eapply Permutation_in; [symmetry; exact Hpr|]. eapply Permutation_in; [exact Hpk|].
    eapply Permutation_in; [exact HpermF|exact Hz]. }
  destruct (reader_accepts_spec_file d p u order cmps f Hl Hwf Hrt) as (st & Hrun & _);
    [now rewrite Hitems|now rewrite Hitems|now rewrite Hitems, Hins|].
  destruct (reader_rebuilds_spec_forest d p u order cmps f st (forest_of (bf_prnt f)) Hl Hwf Hrt Hrun) as (out & Hdec & Hrec & HD);
    [now rewrite Hitems|now rewrite Hitems|now rewrite Hitems, Hins|exact Hdesc|exact HndF|exact Hincl|].
  rewrite Hitems, Hins in HD.
  pose proof Hrun as Hrs. unfold bs_items_of in Hrs. rewrite (run_items_steps d p _ dstate0 (items_no_end f order)), Hitems, run_steps_app in Hrs.
  destruct (run_steps d p dstate0 P1) as [st1|] eqn:Hr1; [|discriminate].
  pose proof (items_ok_of_wf f Hwf order) as Hok. unfold bs_items_of in Hok. rewrite forallb_app, Hitems, forallb_app in Hok.
  apply andb_true_iff in Hok. destruct Hok as [Hok _]. apply andb_true_iff in Hok. destruct Hok as [Hok1 Hok2].
  assert (Hne1 : forallb (fun it => negb (is_end it)) P1 = true).
  { pose proof (items_no_end f order) as H. rewrite Hitems, forallb_app in H. apply andb_true_iff in H. now destruct H. }
  destruct (phase1_run d p P1 dstate0 st1 [] Hnp Hne1 Hr1) as [Hfr Hty]; [intros cl r []|intros c []|exact Hnd1|exact Hid1|]. cbn [app] in Hfr, Hty.
  assert (Hreg1 : reg_inv st1 (bs_insts P1)) by (intros cl r Hcl Hr; destruct (Hfr cl r Hcl Hr) as (i & -> & _); discriminate).
  assert (Hlen1 : length (ds_sstr st1) = sstr_total P1) by (rewrite (run_sstr_len d p P1 dstate0 st1 Hnp Hr1); reflexivity).
  rewrite <- Hlen1 in Hscan2.
  destruct (phase2_runM d p (bs_insts P1) Hl Hnd1 Hid1 P2 st1 st Hok2 Hnr Hrs Hty Hreg1 Hscan2) as (L2 & S2 & P2f).
  assert (Hlab : BinFinish.lab_inv st).
  { apply (run_steps_lab_inv d p Hl (P1 ++ P2) dstate0 st); [rewrite forallb_app; now rewrite Hok1, Hok2| |exact BinFinish.lab_inv0].
    rewrite run_steps_app, Hr1. exact Hrs. }
  assert (Hkreg : forall c, In c (f_kids f) -> exists cl k, In cl (bs_insts P1) /\ In cl (bf_classes f) /\ nth_error (cls_refs cl) k = Some c).
  { intros c Hc. assert (Hc' : In c (all_refs (bs_insts P1))) by (eapply Permutation_in; [symmetry; exact Hpr|]; eapply Permutation_in; [exact Hpk|exact Hc]).
    unfold all_refs in Hc'. apply in_flat_map in Hc'. destruct Hc' as (cl & Hcl & Hr). destruct (In_nth_error _ _ Hr) as [k Hk].
    exists cl, k. split; [exact Hcl|]. split; [eapply Permutation_in; [exact Hperm|exact Hcl]|exact Hk]. }
  destruct (BinFinish.labels_ok_hyp _ _ (f_kids f) Hlab Hkids) as [_ Hnz].
  { intros c Hc. destruct (Hkreg c Hc) as (cl & k & Hcl & _ & Hk). exact (proj1 (HD cl c Hcl (nth_error_In _ _ Hk))). }
  exists st, out, (List.map (mk_node (f_kids f) (f_ai f)) (bf_prnt f)).
  split; [exact Hrun|]. split; [exact Hdec|]. split; [apply spec_dom_closed; now constructor|].
  apply (dom_relation (f_kids f) (D_of st) Hkids (f_ai f) (bf_prnt f) eq_refl) with (p := p); try assumption.
  - intros c pp Hin. destruct (Hkreg c (in_map fst _ _ Hin)) as (cl & k & _ & Hcl & Hk). unfold f_ai. now rewrite (ai_find _ _ _ _ cl k c Hrefs Hcl Hk).
  - intros c pp Hin. destruct (Hkreg c (in_map fst _ _ Hin)) as (cl & k & Hcl1 & Hcl & Hk). unfold mk_node, f_ai. cbn [fst snd].
    rewrite (ai_find _ _ _ _ cl k c Hrefs Hcl Hk). cbn [bn_class]. symmetry. exact (proj1 (proj2 (HD cl c Hcl1 (nth_error_In _ _ Hk)))).
  - intros c pp i Hin Hio Hir Hnm Hun. destruct (Hkreg c (in_map fst _ _ Hin)) as (cl & k & Hcl1 & Hcl & Hk).
    exists cl, k, c, pp. split; [exact Hin|]. split; [reflexivity|]. split; [exact Hcl|]. split; [exact Hk|]. cbv zeta.
    pose proof (P2f cl k c Hcl1 Hk) as Hrecd. destruct (Hfr cl c Hcl1 (nth_error_In _ _ Hk)) as (i0 & Hi0 & Hn0 & Hp0).
    rewrite (D_of_find st1 c i0 Hi0) in Hrecd. unfold rec_of at 2 in Hrecd. rewrite Hn0, Hp0 in Hrecd.
    assert (Hss : st_sstr st = st_sstr st1) by (unfold st_sstr; now rewrite S2).
    rewrite Hss, (fold_pstepM_ext d p _ _ _ cl k L2), <- Hrecd. unfold rec_of. cbn [fst snd]. split; [exact Hnm|exact Hun].
Qed.

(* ---- X3, closed form: when at most ONE chunk of the class targets each key (pairwise different canonical / new names), the table is,
   key by key: absent if no chunk targets the key; the retyped value of the plain chunk; the migrated value of the migrating chunk
   (absent if the migration fails) *)
Definition key_value (d : db) (p : dec_params) (cl : bs_class) (k : nat) (sstr : list (bytes * bytes)) (lo : Z -> N)
                     (props : list bs_prop) (key : bytes) : option value :=
  match filter (tgt d cl key) props with
  | [] => None
  | pr :: _ => match offer_of d cl k sstr lo pr with
               | Some (_, OPlain x) => Some x
               | Some (_, OMig op v) => migrate (dp_font p) (dp_brick p) op v
               | None => None
               end
  end.
Theorem every_key_distinct d p cl k sstr lo props :
  (forall key, (length (filter (tgt d cl key) props) <= 1)%nat) ->
  forall key, bfind key (collect_props (snd (fold_left (pstepM d p sstr lo cl k) props (cls_name cl, [])))) = key_value d p cl k sstr lo props key.
Proof.
  intros Hd key. rewrite fold_key_trace. unfold key_value. specialize (Hd key).
  destruct (filter (tgt d cl key) props) as [|pr [|pr' r]] eqn:Ef; [reflexivity| |cbn [length] in Hd; lia].
  assert (Ht : tgt d cl key pr = true) by (eapply in_filter_tgt; [exact Ef|now left]).
  cbn [fold_left]. unfold tstep. destruct (offer_of d cl k sstr lo pr) as [[tk o]|] eqn:E; [|reflexivity].
  destruct (offer_target d cl k sstr lo pr tk o E) as [H1 H2]. unfold tgt in Ht. rewrite H1, H2 in Ht. cbn [andb] in Ht. rewrite Ht.
  destruct o as [x|op v]; [reflexivity|]. now destruct (migrate _ _ _ _).
Qed.

(* ---- the whole-file statements *)
(* the decoded table, up to the UniqueId collision rule, key by key *)
Lemma uid_norm_bfind p tbl props' key : BinRoundTrip.uid_norm p tbl props' -> key <> UNIQUE_ID -> bfind key props' = bfind key tbl.
Proof. intros [->|(a & b & c & _ & ->)] Hne; [reflexivity|]. rewrite bfind_bupd'. now rewrite (beq_neq key UNIQUE_ID Hne). Qed.

(* X1 for a table *)
Definition tbl_mig_alone (d : db) (p : dec_params) (cl : bs_class) (k : nat) (sstr : list (bytes * bytes)) (lo : Z -> N)
                         (props : list bs_prop) (tbl : list (bytes * value)) : Prop :=
  forall pr col ty nm cty nn op vals v,
    only_propM d cl props nn pr -> bp_body pr = BValues col -> wire_of_id (bs_col_type col) = Some ty ->
    find_canonical_property d ty (cls_name cl) (bp_name pr) = Ok (Some (nm, cty, Some (nn, op))) ->
    bs_col_values sstr lo col = Ok vals -> nth_error vals k = Some v ->
    bfind nn tbl = migrate (dp_font p) (dp_brick p) op (retype cty v) /\
    (filter (tgt d cl (bp_name pr)) props = [] -> bfind (bp_name pr) tbl = None).
(* X2 for a table *)
Definition tbl_explicit_wins (d : db) (cl : bs_class) (k : nat) (sstr : list (bytes * bytes)) (lo : Z -> N)
                             (props : list bs_prop) (tbl : list (bytes * value)) : Prop :=
  forall pe cole tye ctye valse ve pm colm tym nmm ctym op valsm vm nn,
    (filter (tgt d cl nn) props = [pe; pm] \/ filter (tgt d cl nn) props = [pm; pe]) ->
    bp_body pe = BValues cole -> wire_of_id (bs_col_type cole) = Some tye ->
    find_canonical_property d tye (cls_name cl) (bp_name pe) = Ok (Some (nn, ctye, None)) ->
    bs_col_values sstr lo cole = Ok valse -> nth_error valse k = Some ve ->
    bp_body pm = BValues colm -> wire_of_id (bs_col_type colm) = Some tym ->
    find_canonical_property d tym (cls_name cl) (bp_name pm) = Ok (Some (nmm, ctym, Some (nn, op))) ->
    bs_col_values sstr lo colm = Ok valsm -> nth_error valsm k = Some vm ->
    bfind nn tbl = Some (retype ctye ve).
(* X3 for a table: every key, as the trace of the chunks that target it; in particular absent / the value of the one plain chunk *)
Definition tbl_every_key (d : db) (p : dec_params) (cl : bs_class) (k : nat) (sstr : list (bytes * bytes)) (lo : Z -> N)
                         (props : list bs_prop) (tbl : list (bytes * value)) : Prop :=
  forall key,
    bfind key tbl = lastv (fold_left (tstep d p cl k sstr lo key) (filter (tgt d cl key) props) []) /\
    (filter (tgt d cl key) props = [] -> bfind key tbl = None) /\
    (forall pr col ty cty vals v, filter (tgt d cl key) props = [pr] ->
       bp_body pr = BValues col -> wire_of_id (bs_col_type col) = Some ty ->
       find_canonical_property d ty (cls_name cl) (bp_name pr) = Ok (Some (key, cty, None)) ->
       bs_col_values sstr lo col = Ok vals -> nth_error vals k = Some v ->
       bfind key tbl = Some (retype cty v)).

Definition node_mig (d : db) (f : bs_file) (p : dec_params) (st : dstate) (props : list bs_prop) (n : bs_node) (i : inst) : Prop :=
  exists cl k c pp, In (c, pp) (bf_prnt f) /\ n = mk_node (f_kids f) (f_ai f) (c, pp) /\ In cl (bf_classes f) /\
    nth_error (cls_refs cl) k = Some c /\
    exists tbl, BinRoundTrip.uid_norm p tbl (i_props i) /\
      tbl_mig_alone d p cl k (st_sstr st) (st_label st) props tbl /\
      tbl_explicit_wins d cl k (st_sstr st) (st_label st) props tbl /\
      tbl_every_key d p cl k (st_sstr st) (st_label st) props tbl /\
      ((forall key, (length (filter (tgt d cl key) props) <= 1)%nat) ->
       forall key, bfind key tbl = key_value d p cl k (st_sstr st) (st_label st) props key).

Lemma node_recM_mig d f p st props n i : node_recM d f p st props n i -> node_mig d f p st props n i.
Proof.
  intros (cl & k & c & pp & Hin & Heq & Hcl & Hk & HR). cbv zeta in HR. destruct HR as [_ Hun].
  exists cl, k, c, pp. repeat (split; [assumption|]). eexists. split; [exact Hun|]. split; [|split; [|split]].
  - intros pr col ty nm cty nn op vals v Ho Hb Hw Hcp Hv Hvk.
    exact (mig_prop_in_fold d p cl k (st_sstr st) (st_label st) props pr col ty nm cty nn op vals v Ho Hb Hw Hcp Hv Hvk).
  - intros pe cole tye ctye valse ve pm colm tym nmm ctym op valsm vm nn Ho A1 A2 A3 A4 A5 B1 B2 B3 B4 B5.
    exact (explicit_wins_in_fold d p cl k (st_sstr st) (st_label st) props pe cole tye ctye valse ve pm colm tym nmm ctym op valsm vm nn
             Ho A1 A2 A3 A4 A5 B1 B2 B3 B4 B5).
  - intros key. split; [apply fold_key_trace|]. exact (every_key_in_fold d p cl k (st_sstr st) (st_label st) props key).
  - apply every_key_distinct.
Qed.

(* C04 for the WHOLE FILE, any database, MIGRATING chunks included (no [prop_nonmig] hypothesis): accepted, the structure of
   bspec_to_dom f, and for every node: X1 (a migrating chunk alone: the migrated value under the new name, nothing when the migration
   fails, the legacy name not a key), X2 (explicit wins in either chunk order), X3 (every key of the table) *)
Theorem mig_property_whole_file d p u order cmps f P1 P2 :
  dp_lim p = None -> file_dom_ok f = true ->
  gframes_rt p cmps (List.map (bs_enc_item rdA u) (bs_items_of order f)) ->
  flat_map (item_of_key f) order = P1 ++ P2 ->
  forallb (fun it => negb (is_prop it)) P1 = true -> forallb (fun it => negb (is_reg it)) P2 = true ->
  Permutation (bs_insts P1) (bf_classes f) -> bs_prnts (P1 ++ P2) = [bf_prnt f] ->
  scan d [] 0 (P1 ++ P2) = true -> inst_prnt_ok false (P1 ++ P2) = true ->
  scan d (bs_insts P1) (sstr_total P1) P2 = true ->
  exists st out nodes,
    decode_file d p (bs_enc_header (bs_header_of f) ++ gframe_all cmps (List.map (bs_enc_item rdA u) (bs_items_of order f))) = Ok out /\
    bspec_to_dom f = Ok nodes /\
    same_dom (phi_of (f_kids f) (D_of st)) (node_mig d f p st (bs_props P2)) nodes out.
Proof.
  intros Hl Hfok Hrt Hitems Hnp Hnr Hperm Hprnt Hscan Hipo Hscan2.
  destruct (reader_decodes_spec_file_domM d p u order cmps f P1 P2 Hl Hfok Hrt Hitems Hnp Hnr Hperm Hprnt Hscan Hipo Hscan2)
    as (st & out & nodes & _ & Hdec & Hnodes & Hsame).
  exists st, out, nodes. split; [exact Hdec|]. split; [exact Hnodes|].
  apply (same_dom_weaken _ (node_recM d f p st (bs_props P2))); [|exact Hsame].
  intros n i _ _ H. now apply node_recM_mig.
Qed.

(* the earlier headline is the special case: with [prop_nonmig] the new fold is the old one *)
Lemma node_recM_nonmig d f p st P1 props n i : NoDup (List.map cls_id (bs_insts P1)) -> Permutation (bs_insts P1) (bf_classes f) ->
  forallb (prop_nonmig d (bs_insts P1)) props = true -> node_recM d f p st props n i -> node_rec d f p st props n i.
Proof.
  intros Hid Hperm Hnm (cl & k & c & pp & Hin & Heq & Hcl & Hk & HR). exists cl, k, c, pp. repeat (split; [assumption|]).
  cbv zeta in HR |- *. assert (Hcl1 : In cl (bs_insts P1)) by (eapply Permutation_in; [symmetry; exact Hperm|exact Hcl]).
  now rewrite <- (fold_pstepM_nonmig d p (bs_insts P1) _ _ cl k Hid Hcl1 props _ Hnm).
Qed.

(* ================================================================ 4. non-vacuity: a database with one Migrate entry *)
Module BinSpecReadMigExamples.
Import BinSpecReadExamples.
(* MigratePaths.Sample: class Part; BrickColor (legacy) migrates to Color (MigBrick); Color3uint8 is an alias of Color;
   the migration table knows BrickColor 194 only *)
Definition mdb : db := Sample.sdb.
Definition mp : dec_params := mkDP [] Sample.sbt (dp_inflate ex_p) (VUniqueId 9 9 9%Z) None.
Definition clP : bs_class := mkClass 0 (S "Part") false [0%Z; 1%Z] [].
Definition prB : bs_prop := mkProp 0 (S "BrickColor") (BValues (KBrickColor [194; 5])).       (* legacy; 5 is not in the table *)
Definition prC : bs_prop := mkProp 0 (S "Color3uint8") (BValues (KColor3uint8 [(10, 20, 30); (40, 50, 60)])).
Definition f_leg : bs_file := mkFile None None [clP] [prB] [(0%Z, (-1)%Z); (1%Z, (-1)%Z)] [].
Definition f_two : bs_file := mkFile None None [clP] [prB; prC] [(0%Z, (-1)%Z); (1%Z, (-1)%Z)] [].
Definition o_leg : list bs_okey := [OInst 0; OProp 0; OPrnt]%nat.
Definition o_lc : list bs_okey := [OInst 0; OProp 0; OProp 1; OPrnt]%nat.      (* legacy chunk first *)
Definition o_cl : list bs_okey := [OInst 0; OProp 1; OProp 0; OPrnt]%nat.      (* explicit chunk first *)
Definition props_of (r : res cdom) : option (list (list (bytes * value))) := match r with Ok o => Some (List.map i_props o) | _ => None end.

Example mig_resolution :
  find_canonical_property mdb WBrickColor (S "Part") (S "BrickColor") = Ok (Some (S "BrickColor", VT_BrickColor, Some (S "Color", MigBrick))) /\
  find_canonical_property mdb WColor3uint8 (S "Part") (S "Color3uint8") = Ok (Some (S "Color", 5, None)).
Proof. vm_compute. auto. Qed.

(* the computed outcomes: legacy alone (instance 0 migrated, instance 1: failing migration, NOTHING stored); both orders: explicit wins *)
Example mig_computed :
  props_of (decode_file mdb mp (bspec_encode rdA (mkChoices o_leg [] true) f_leg))
    = Some [[(S "Color", VColor3uint8 163 162 165)]; []] /\
  props_of (decode_file mdb mp (bspec_encode rdA (mkChoices o_lc [] true) f_two))
    = Some [[(S "Color", VColor3uint8 10 20 30)]; [(S "Color", VColor3uint8 40 50 60)]] /\
  props_of (decode_file mdb mp (bspec_encode rdA (mkChoices o_cl [] true) f_two))
    = Some [[(S "Color", VColor3uint8 10 20 30)]; [(S "Color", VColor3uint8 40 50 60)]].
Proof. vm_compute. auto. Qed.

(* the hypotheses of X1 hold of the legacy chunk (k = 0: success; k = 1: failure), and those of X2 in both orders *)
Example mig_alone_hyps :
  only_propM mdb clP [prB] (S "Color") prB /\ filter (tgt mdb clP (S "BrickColor")) [prB] = [] /\
  bs_col_values [] (fun _ => 0) (KBrickColor [194; 5]) = Ok [VBrickColor 194; VBrickColor 5] /\
  migrate (dp_font mp) (dp_brick mp) MigBrick (retype VT_BrickColor (VBrickColor 194)) = Some (VColor3uint8 163 162 165) /\
  migrate (dp_font mp) (dp_brick mp) MigBrick (retype VT_BrickColor (VBrickColor 5)) = None.
Proof. vm_compute. auto. Qed.
Example mig_alone_in_fold :
  let tbl k := collect_props (snd (fold_left (pstepM mdb mp [] (fun _ => 0) clP k) [prB] (cls_name clP, []))) in
  bfind (S "Color") (tbl 0%nat) = Some (VColor3uint8 163 162 165) /\ bfind (S "BrickColor") (tbl 0%nat) = None /\
  bfind (S "Color") (tbl 1%nat) = None /\ bfind (S "BrickColor") (tbl 1%nat) = None.
Proof.
  destruct mig_alone_hyps as (H1 & H2 & H3 & H4 & H5). destruct mig_resolution as [R1 _]. cbv zeta.
  destruct (mig_prop_in_fold mdb mp clP 0 [] (fun _ => 0) [prB] prB _ WBrickColor _ _ _ _ _ (VBrickColor 194) H1 eq_refl eq_refl R1 H3 eq_refl) as [A1 A2].
  destruct (mig_prop_in_fold mdb mp clP 1 [] (fun _ => 0) [prB] prB _ WBrickColor _ _ _ _ _ (VBrickColor 5) H1 eq_refl eq_refl R1 H3 eq_refl) as [B1 B2].
  cbv zeta in A1, A2, B1, B2. rewrite A1, B1, H4, H5. split; [reflexivity|]. split; [exact (A2 H2)|]. split; [reflexivity|exact (B2 H2)].
Qed.
(* X3 on the legacy-alone file: EVERY key of the table (here: Color, from the migration, and nothing else) *)
Example every_key_legacy_alone : forall key,
  bfind key (collect_props (snd (fold_left (pstepM mdb mp [] (fun _ => 0) clP 0) [prB] (cls_name clP, [])))) =
  key_value mdb mp clP 0 [] (fun _ => 0) [prB] key.
Proof. apply every_key_distinct. intros key. cbn [filter]. destruct (tgt mdb clP key prB); cbn; lia. Qed.
Example key_value_computed :
  key_value mdb mp clP 0 [] (fun _ => 0) [prB] (S "Color") = Some (VColor3uint8 163 162 165) /\
  key_value mdb mp clP 1 [] (fun _ => 0) [prB] (S "Color") = None /\
  key_value mdb mp clP 0 [] (fun _ => 0) [prB] (S "BrickColor") = None.
Proof. vm_compute. auto. Qed.
Example explicit_wins_hyps :
  filter (tgt mdb clP (S "Color")) [prB; prC] = [prB; prC] /\ filter (tgt mdb clP (S "Color")) [prC; prB] = [prC; prB] /\
  bs_col_values [] (fun _ => 0) (KColor3uint8 [(10, 20, 30); (40, 50, 60)]) = Ok [VColor3uint8 10 20 30; VColor3uint8 40 50 60].
Proof. vm_compute. auto. Qed.
Example explicit_wins_both_orders_in_fold :
  bfind (S "Color") (collect_props (snd (fold_left (pstepM mdb mp [] (fun _ => 0) clP 0) [prB; prC] (cls_name clP, [])))) = Some (VColor3uint8 10 20 30) /\
  bfind (S "Color") (collect_props (snd (fold_left (pstepM mdb mp [] (fun _ => 0) clP 0) [prC; prB] (cls_name clP, [])))) = Some (VColor3uint8 10 20 30).
Proof.
  destruct explicit_wins_hyps as (H1 & H2 & H3). destruct mig_alone_hyps as (_ & _ & H4 & _). destruct mig_resolution as [R1 R2]. split.
  - exact (explicit_wins_in_fold mdb mp clP 0 [] (fun _ => 0) [prB; prC] prC _ WColor3uint8 _ _ (VColor3uint8 10 20 30) prB _ WBrickColor _ _ _ _ (VBrickColor 194) _
             (or_intror H1) eq_refl eq_refl R2 H3 eq_refl eq_refl eq_refl R1 H4 eq_refl).
  - exact (explicit_wins_in_fold mdb mp clP 0 [] (fun _ => 0) [prC; prB] prC _ WColor3uint8 _ _ (VColor3uint8 10 20 30) prB _ WBrickColor _ _ _ _ (VBrickColor 194) _
             (or_introl H2) eq_refl eq_refl R2 H3 eq_refl eq_refl eq_refl R1 H4 eq_refl).
Qed.
(* the whole-file theorem applied to the three encodings (INST chunk, then the PROP chunks in the given order, then PRNT) *)
Definition mig_hyps_b (f : bs_file) (order : list bs_okey) : bool :=
  let items := flat_map (item_of_key f) order in
  let P1 := firstn 1 items in let P2 := skipn 1 items in
  file_dom_ok f && bs_sizes_ok rdA (mkChoices order [] true) f &&
  forallb (fun it => negb (is_prop it)) P1 && forallb (fun it => negb (is_reg it)) P2 &&
  scan mdb [] 0 (P1 ++ P2) && inst_prnt_ok false (P1 ++ P2) && scan mdb (bs_insts P1) (sstr_total P1) P2.
Lemma mig_whole_by_theorem f order :
  mig_hyps_b f order = true ->
  bs_insts (firstn 1 (flat_map (item_of_key f) order)) = bf_classes f ->
  bs_prnts (firstn 1 (flat_map (item_of_key f) order) ++ skipn 1 (flat_map (item_of_key f) order)) = [bf_prnt f] ->
  exists st out nodes, decode_file mdb mp (bspec_encode rdA (mkChoices order [] true) f) = Ok out /\ bspec_to_dom f = Ok nodes /\
    same_dom (phi_of (f_kids f) (D_of st)) (node_mig mdb f mp st (bs_props (skipn 1 (flat_map (item_of_key f) order)))) nodes out.
Proof.
  unfold mig_hyps_b. cbv zeta. intros H Hi Hp. do 6 (apply andb_true_iff in H; destruct H as [H ?]).
  assert (Hrt : gframes_rt mp (List.map cmp_of_bool (ch_comp (mkChoices order [] true)))
                  (List.map (bs_enc_item rdA (ch_rot_ids (mkChoices order [] true))) (bs_items_of order f))).
  { apply literal_frames_rt; [exact ex_inflater|assumption]. }
  destruct (mig_property_whole_file mdb mp (ch_rot_ids (mkChoices order [] true)) order (List.map cmp_of_bool (ch_comp (mkChoices order [] true))) f
              (firstn 1 (flat_map (item_of_key f) order)) (skipn 1 (flat_map (item_of_key f) order)) eq_refl H Hrt)
    as (st & out & nodes & Hd & Hn & Hsd); try assumption.
  - symmetry. apply firstn_skipn.
  - rewrite Hi. apply Permutation_refl.
  - exists st, out, nodes. split; [|split; [exact Hn|exact Hsd]]. unfold bspec_encode, bspec_encode_chunks. rewrite bs_frame_all_gframe. exact Hd.
Qed.
Example mig_whole_legacy_alone :
  exists st out nodes, decode_file mdb mp (bspec_encode rdA (mkChoices o_leg [] true) f_leg) = Ok out /\ bspec_to_dom f_leg = Ok nodes /\
    same_dom (phi_of (f_kids f_leg) (D_of st)) (node_mig mdb f_leg mp st [prB]) nodes out.
Proof. apply (mig_whole_by_theorem f_leg o_leg); vm_compute; reflexivity. Qed.
Example mig_whole_legacy_then_explicit :
  exists st out nodes, decode_file mdb mp (bspec_encode rdA (mkChoices o_lc [] true) f_two) = Ok out /\ bspec_to_dom f_two = Ok nodes /\
    same_dom (phi_of (f_kids f_two) (D_of st)) (node_mig mdb f_two mp st [prB; prC]) nodes out.
Proof. apply (mig_whole_by_theorem f_two o_lc); vm_compute; reflexivity. Qed.
Example mig_whole_explicit_then_legacy :
  exists st out nodes, decode_file mdb mp (bspec_encode rdA (mkChoices o_cl [] true) f_two) = Ok out /\ bspec_to_dom f_two = Ok nodes /\
    same_dom (phi_of (f_kids f_two) (D_of st)) (node_mig mdb f_two mp st [prC; prB]) nodes out.
Proof. apply (mig_whole_by_theorem f_two o_cl); vm_compute; reflexivity. Qed.
(* the hypothesis [prop_nonmig] of BinSpecRead.known_property_whole_file fails on these files: they were outside the earlier theorems *)
Example mig_files_were_excluded : forallb (prop_nonmig mdb [clP]) [prB] = false.
Proof. vm_compute. reflexivity. Qed.
(* the hypothesis `no chunk targets the legacy name` of X1's last clause is NECESSARY for an arbitrary database: with a CHAIN of
   migrations (Older -> Old -> New; such a database is conceivable for the model, whether the generator can emit it is a separate
   question) the chunk "Old" is alone in targeting "New", yet its legacy name "Old" IS a key of the table — written by the
   migration of the chunk "Older" *)
Definition db_chain : db := mkDb [mkCD "Part" None false
  [mkPD "Older" (DValue 2) (KCanon (PMigrate "Old" MigInset)); mkPD "Old" (DValue 2) (KCanon (PMigrate "New" MigInset));
   mkPD "New" (DEnum "E") (KCanon PSerializes)] []] [].
Definition prOlder : bs_prop := mkProp 0 (S "Older") (BValues (KBool [true; true])).
Definition prOld : bs_prop := mkProp 0 (S "Old") (BValues (KBool [false; false])).
Definition f_chain : bs_file := mkFile None None [clP] [prOlder; prOld] [(0%Z, (-1)%Z); (1%Z, (-1)%Z)] [].
Example legacy_name_is_a_key_refuted :
  only_propM db_chain clP [prOlder; prOld] (S "New") prOld /\
  find_canonical_property db_chain WBool (S "Part") (S "Old") = Ok (Some (S "Old", VT_Bool, Some (S "New", MigInset))) /\
  filter (tgt db_chain clP (S "Old")) [prOlder; prOld] = [prOlder] /\
  bfind (S "Old") (collect_props (snd (fold_left (pstepM db_chain mp [] (fun _ => 0) clP 0) [prOlder; prOld] (cls_name clP, [])))) = Some (VEnum 1) /\
  props_of (decode_file db_chain mp (bspec_encode rdA (mkChoices o_lc [] true) f_chain))
    = Some [[(S "New", VEnum 2); (S "Old", VEnum 1)]; [(S "New", VEnum 2); (S "Old", VEnum 1)]].
Proof. vm_compute. repeat split; reflexivity. Qed.
End BinSpecReadMigExamples.

Print Assumptions fold_key_trace.
Print Assumptions mig_prop_in_fold.
Print Assumptions explicit_wins_in_fold.
Print Assumptions every_key_in_fold.
Print Assumptions every_key_distinct.
Print Assumptions reader_decodes_spec_file_domM.
Print Assumptions mig_property_whole_file.
Print Assumptions BinSpecReadMigExamples.mig_whole_explicit_then_legacy.
