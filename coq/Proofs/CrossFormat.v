(* CrossFormat.v — the VALUE-LEVEL core of C06: the binary and the XML codec normalise a value the same way.
   The two families of per-type round-trip theorems (binary: Proofs/BinValuesFacts*.v, pinned in Properties/C01.v; XML:
   Proofs/XmlText.v, XmlCompound.v, XmlCompound2.v, pinned in Properties/C02.v) are put side by side:
     1. [nan_equiv]: structural equality of values except that two float components that are both NaN are related; an
        equivalence (nan_equiv_refl / _sym / _trans, instance nan_equiv_Equivalence);
     2. the two read-back relations [bin_back] (one-value column through enc_col / dec_col) and [xml_back] (write_xml, event
        channel, read_value_xml), both functional; [xml_oracle_ok]: the premises of the XML theorems on the float-text oracle;
     3. per value type T: [bin_T] / [xml_T] (the existing round-trip theorems in this vocabulary; new small ones only for ContentId
        on the binary side and for the Tags / MaterialColors blobs, which had none) and [cross_T] (what the binary
        reader returns and what the XML reader returns are nan_equiv); [cross_T_differs] for the classes on which the two formats
        genuinely differ (CFrame / OptionalCFrame with a rotation that norm_rot moves — including an exact basis with a -0.0
        entry —, Font with cached face id Some "", BrickColor before the reader's conversion, Content with an object reference,
        sequences with fewer than two keypoints); [one_format_only] for the variants only one codec implements;
     4. [cross_scope] (executable) and the summary theorems [cross_format_values_agree] / [cross_format_values_exist], and the
        same after the XML reader's conversion to the declared type ([cross_scope_typed], [..._typed]);
     5. the lift to property lists and maps: [cross_names] (name / declared type / migration agree, from desc_lookup_agree),
        [cross_props] / [cross_collect_props] (related items give related maps and related lookups), [cross_props_binfile]
        (composition with BinRoundTrip.file_values_roundtrip), [deserialize_property_described] (the XML step is the model's),
        [cross_dom_props] (sections 4 and 5 together), [cross_migration_failure_differs] (a failing migration: dropped by the
        binary reader, an error for the XML reader);
     6. a value under a descriptor of another type (Color3 in a Color3uint8 column, Int32 / Float32 widened);
     7. non-vacuity: a concrete oracle satisfying every premise, one value or more of every constructor in scope, a witness of
        every differing class;
     8. Print Assumptions.
   Standard library only; no axioms. *)
From Coq Require Import List NArith ZArith Bool Lia String.
From RbxVerif Require Import Base Bytes Value Utf8 Db DbCheck DbFacts Rotation BrickColor Attr Tags BinValues BinFile BytesFacts
  BinValuesFacts BinValuesFacts2 BinValuesFacts3 RotationFacts
  XmlEvents XmlValues XmlFile XmlInt XmlBase64 XmlText XmlCompound XmlCompound2.
Import ListNotations.
Open Scope list_scope.
Open Scope N_scope.

(* ================================================================ 1. nan_equiv *)
(* two floats (bit patterns) are the same up to the NaN class *)
Definition feq32 (x y : f32) : Prop := x = y \/ (f32_is_nan x = true /\ f32_is_nan y = true).
Definition feq64 (x y : f64) : Prop := x = y \/ (f64_is_nan x = true /\ f64_is_nan y = true).

Definition v2eq (a b : vec2) : Prop := feq32 (v2x a) (v2x b) /\ feq32 (v2y a) (v2y b).
Definition v3eq (a b : vec3) : Prop := feq32 (vx a) (vx b) /\ feq32 (vy a) (vy b) /\ feq32 (vz a) (vz b).
Definition m3eq (a b : mat3) : Prop := v3eq (mx a) (mx b) /\ v3eq (my a) (my b) /\ v3eq (mz a) (mz b).
Definition cfeq (a b : cframe) : Prop := v3eq (cf_pos a) (cf_pos b) /\ m3eq (cf_rot a) (cf_rot b).
Definition udeq (a b : udim) : Prop := feq32 (ud_scale a) (ud_scale b) /\ ud_offset a = ud_offset b.
Definition physeq (a b : physprops) : Prop :=
  feq32 (ph_density a) (ph_density b) /\ feq32 (ph_friction a) (ph_friction b) /\ feq32 (ph_elasticity a) (ph_elasticity b) /\
  feq32 (ph_friction_weight a) (ph_friction_weight b) /\ feq32 (ph_elasticity_weight a) (ph_elasticity_weight b).
Definition kp3eq (a b : f32 * f32 * f32) : Prop :=
  let '(t, x, e) := a in let '(t', x', e') := b in feq32 t t' /\ feq32 x x' /\ feq32 e e'.
Definition kp4eq (a b : f32 * (f32 * f32 * f32)) : Prop :=
  let '(t, (r, g, bl)) := a in let '(t', (r', g', bl')) := b in feq32 t t' /\ feq32 r r' /\ feq32 g g' /\ feq32 bl bl'.
Definition opt_rel {A} (R : A -> A -> Prop) (a b : option A) : Prop :=
  match a, b with Some x, Some y => R x y | None, None => True | _, _ => False end.

Section All2.
  Context {A B : Type}.
  Variable R : A -> B -> Prop.
  (* Forall2 as a structural fixpoint (so that it can carry the nested recursion of [nan_equiv]) *)
  Fixpoint all2 (l : list A) (l' : list B) {struct l} : Prop :=
    match l, l' with
    | [], [] => True
    | x :: r, y :: r' => R x y /\ all2 r r'
    | _, _ => False
    end.
  Lemma all2_Forall2 l l' : all2 l l' <-> Forall2 R l l'.
  Proof.
    revert l'. induction l as [|x r IH]; intros [|y r']; cbn [all2]; split; intro H;
      try contradiction; try (now inversion H); try (now constructor).
    - destruct H as [H1 H2]. constructor; [exact H1|]. now apply IH.
    - inversion H; subst. split; [assumption|]. now apply IH.
  Qed.
End All2.

(* structural equality except that float components that are both NaN are related *)
Fixpoint nan_equiv (a b : value) {struct a} : Prop :=
  match a with
  | VAxes x => match b with VAxes y => x = y | _ => False end
  | VBinaryString x => match b with VBinaryString y => x = y | _ => False end
  | VBool x => match b with VBool y => x = y | _ => False end
  | VBrickColor x => match b with VBrickColor y => x = y | _ => False end
  | VCFrame x => match b with VCFrame y => cfeq x y | _ => False end
  | VColor3 r g bl => match b with VColor3 r' g' bl' => feq32 r r' /\ feq32 g g' /\ feq32 bl bl' | _ => False end
  | VColor3uint8 r g bl => match b with VColor3uint8 r' g' bl' => r = r' /\ g = g' /\ bl = bl' | _ => False end
  | VColorSequence k => match b with VColorSequence k' => all2 kp4eq k k' | _ => False end
  | VContentId x => match b with VContentId y => x = y | _ => False end
  | VEnum x => match b with VEnum y => x = y | _ => False end
  | VFaces x => match b with VFaces y => x = y | _ => False end
  | VFloat32 x => match b with VFloat32 y => feq32 x y | _ => False end
  | VFloat64 x => match b with VFloat64 y => feq64 x y | _ => False end
  | VInt32 x => match b with VInt32 y => x = y | _ => False end
  | VInt64 x => match b with VInt64 y => x = y | _ => False end
  | VNumberRange lo hi => match b with VNumberRange lo' hi' => feq32 lo lo' /\ feq32 hi hi' | _ => False end
  | VNumberSequence k => match b with VNumberSequence k' => all2 kp3eq k k' | _ => False end
  | VPhysicalProperties p => match b with VPhysicalProperties p' => opt_rel physeq p p' | _ => False end
  | VRay o d => match b with VRay o' d' => v3eq o o' /\ v3eq d d' | _ => False end
  | VRect lo hi => match b with VRect lo' hi' => v2eq lo lo' /\ v2eq hi hi' | _ => False end
  | VRef x => match b with VRef y => x = y | _ => False end
  | VRegion3 lo hi => match b with VRegion3 lo' hi' => v3eq lo lo' /\ v3eq hi hi' | _ => False end
  | VRegion3int16 lo hi => match b with VRegion3int16 lo' hi' => lo = lo' /\ hi = hi' | _ => False end
  | VSharedString x => match b with VSharedString y => x = y | _ => False end
  | VString x => match b with VString y => x = y | _ => False end
  | VUDim u => match b with VUDim u' => udeq u u' | _ => False end
  | VUDim2 x y => match b with VUDim2 x' y' => udeq x x' /\ udeq y y' | _ => False end
  | VVector2 v => match b with VVector2 v' => v2eq v v' | _ => False end
  | VVector2int16 x y => match b with VVector2int16 x' y' => x = x' /\ y = y' | _ => False end
  | VVector3 v => match b with VVector3 v' => v3eq v v' | _ => False end
  | VVector3int16 x y z => match b with VVector3int16 x' y' z' => x = x' /\ y = y' /\ z = z' | _ => False end
  | VOptionalCFrame c => match b with VOptionalCFrame c' => opt_rel cfeq c c' | _ => False end
  | VTags x => match b with VTags y => x = y | _ => False end
  | VAttributes m =>
      match b with
      | VAttributes m' => all2 (fun kv kv' : bytes * value => fst kv = fst kv' /\ nan_equiv (snd kv) (snd kv')) m m'
      | _ => False
      end
  | VFont f => match b with VFont f' => f = f' | _ => False end
  | VUniqueId i t r => match b with VUniqueId i' t' r' => i = i' /\ t = t' /\ r = r' | _ => False end
  | VMaterialColors x => match b with VMaterialColors y => x = y | _ => False end
  | VSecurityCapabilities x => match b with VSecurityCapabilities y => x = y | _ => False end
  | VEnumItem ty n => match b with VEnumItem ty' n' => ty = ty' /\ n = n' | _ => False end
  | VContent c => match b with VContent c' => c = c' | _ => False end
  end.

(* ---------------------------------------------------------------- the component relations are equivalences *)
Lemma feq32_refl x : feq32 x x. Proof. now left. Qed.
Lemma feq32_sym x y : feq32 x y -> feq32 y x.
Proof. intros [->|[A B]]; [now left|right; now split]. Qed.
Lemma feq32_trans x y z : feq32 x y -> feq32 y z -> feq32 x z.
Proof. intros [->|[A B]] [->|[C D]]; [now left|right; now split|right; now split|right; now split]. Qed.
Lemma feq64_refl x : feq64 x x. Proof. now left. Qed.
Lemma feq64_sym x y : feq64 x y -> feq64 y x.
Proof. intros [->|[A B]]; [now left|right; now split]. Qed.
Lemma feq64_trans x y z : feq64 x y -> feq64 y z -> feq64 x z.
Proof. intros [->|[A B]] [->|[C D]]; [now left|right; now split|right; now split|right; now split]. Qed.

Create HintDb feq discriminated.
#[local] Hint Resolve feq32_refl feq32_sym feq32_trans feq64_refl feq64_sym feq64_trans : feq.

Ltac feq_solve := intuition (try congruence; eauto with feq).

Lemma v2eq_refl a : v2eq a a. Proof. unfold v2eq. feq_solve. Qed.
Lemma v2eq_sym a b : v2eq a b -> v2eq b a. Proof. unfold v2eq. feq_solve. Qed.
Lemma v2eq_trans a b c : v2eq a b -> v2eq b c -> v2eq a c. Proof. unfold v2eq. feq_solve. Qed.
Lemma v3eq_refl a : v3eq a a. Proof. unfold v3eq. feq_solve. Qed.
Lemma v3eq_sym a b : v3eq a b -> v3eq b a. Proof. unfold v3eq. feq_solve. Qed.
Lemma v3eq_trans a b c : v3eq a b -> v3eq b c -> v3eq a c. Proof. unfold v3eq. feq_solve. Qed.
#[local] Hint Resolve v2eq_refl v2eq_sym v2eq_trans v3eq_refl v3eq_sym v3eq_trans : feq.
Lemma m3eq_refl a : m3eq a a. Proof. unfold m3eq. feq_solve. Qed.
Lemma m3eq_sym a b : m3eq a b -> m3eq b a. Proof. unfold m3eq. feq_solve. Qed.
Lemma m3eq_trans a b c : m3eq a b -> m3eq b c -> m3eq a c. Proof. unfold m3eq. feq_solve. Qed.
#[local] Hint Resolve m3eq_refl m3eq_sym m3eq_trans : feq.
Lemma cfeq_refl a : cfeq a a. Proof. unfold cfeq. feq_solve. Qed.
Lemma cfeq_sym a b : cfeq a b -> cfeq b a. Proof. unfold cfeq. feq_solve. Qed.
Lemma cfeq_trans a b c : cfeq a b -> cfeq b c -> cfeq a c. Proof. unfold cfeq. feq_solve. Qed.
Lemma udeq_refl a : udeq a a. Proof. unfold udeq. feq_solve. Qed.
Lemma udeq_sym a b : udeq a b -> udeq b a. Proof. unfold udeq. feq_solve. Qed.
Lemma udeq_trans a b c : udeq a b -> udeq b c -> udeq a c. Proof. unfold udeq. feq_solve. Qed.
Lemma physeq_refl a : physeq a a. Proof. unfold physeq. feq_solve. Qed.
Lemma physeq_sym a b : physeq a b -> physeq b a. Proof. unfold physeq. feq_solve. Qed.
Lemma physeq_trans a b c : physeq a b -> physeq b c -> physeq a c. Proof. unfold physeq. feq_solve. Qed.
Lemma kp3eq_refl a : kp3eq a a. Proof. destruct a as [[t x] e]. cbn. feq_solve. Qed.
Lemma kp3eq_sym a b : kp3eq a b -> kp3eq b a.
Proof. destruct a as [[t x] e], b as [[t' x'] e']. cbn. feq_solve. Qed.
Lemma kp3eq_trans a b c : kp3eq a b -> kp3eq b c -> kp3eq a c.
Proof. destruct a as [[t x] e], b as [[t' x'] e'], c as [[t'' x''] e'']. cbn. feq_solve. Qed.
Lemma kp4eq_refl a : kp4eq a a. Proof. destruct a as [t [[r g] b]]. cbn. feq_solve. Qed.
Lemma kp4eq_sym a b : kp4eq a b -> kp4eq b a.
Proof. destruct a as [t [[r g] bl]], b as [t' [[r' g'] bl']]. cbn. feq_solve. Qed.
Lemma kp4eq_trans a b c : kp4eq a b -> kp4eq b c -> kp4eq a c.
Proof. destruct a as [t [[r g] bl]], b as [t' [[r' g'] bl']], c as [t'' [[r'' g''] bl'']]. cbn. feq_solve. Qed.
#[local] Hint Resolve cfeq_refl cfeq_sym cfeq_trans udeq_refl udeq_sym udeq_trans physeq_refl physeq_sym physeq_trans
  kp3eq_refl kp3eq_sym kp3eq_trans kp4eq_refl kp4eq_sym kp4eq_trans : feq.

Lemma opt_rel_refl {A} (R : A -> A -> Prop) : (forall x, R x x) -> forall a, opt_rel R a a.
Proof. intros H [x|]; cbn; auto. Qed.
Lemma opt_rel_sym {A} (R : A -> A -> Prop) : (forall x y, R x y -> R y x) -> forall a b, opt_rel R a b -> opt_rel R b a.
Proof. intros H [x|] [y|]; cbn; auto. Qed.
Lemma opt_rel_trans {A} (R : A -> A -> Prop) : (forall x y z, R x y -> R y z -> R x z) ->
  forall a b c, opt_rel R a b -> opt_rel R b c -> opt_rel R a c.
Proof. intros H [x|] [y|] [z|]; cbn; eauto; contradiction. Qed.

Lemma all2_refl_in {A} (R : A -> A -> Prop) l : (forall x, In x l -> R x x) -> all2 R l l.
Proof. induction l as [|x r IH]; intros H; cbn [all2]; [exact I|]. split; [apply H; now left|apply IH; intros y Hy; apply H; now right]. Qed.
Lemma all2_sym_in {A} (R : A -> A -> Prop) l : (forall x y, In x l -> R x y -> R y x) -> forall l', all2 R l l' -> all2 R l' l.
Proof.
  induction l as [|x r IH]; intros H [|y r'] H2; cbn [all2] in *; try contradiction; [exact I|].
  destruct H2 as [H1 H2]. split; [apply H; [now left|exact H1]|]. apply IH; [|exact H2]. intros a b Ha. apply H. now right.
Qed.
Lemma all2_trans_in {A} (R : A -> A -> Prop) l : (forall x y z, In x l -> R x y -> R y z -> R x z) ->
  forall l' l'', all2 R l l' -> all2 R l' l'' -> all2 R l l''.
Proof.
  induction l as [|x r IH]; intros H [|y r'] [|z r''] H1 H2; cbn [all2] in *; try contradiction; [exact I|].
  destruct H1 as [A1 A2], H2 as [B1 B2]. split; [apply (H x y z); [now left|exact A1|exact B1]|].
  apply (IH (fun a b c Ha => H a b c (or_intror Ha)) r' r'' A2 B2).
Qed.

(* ---------------------------------------------------------------- induction on values through the Attributes map *)
Definition is_attr (v : value) : bool := match v with VAttributes _ => true | _ => false end.

Section ValueInd.
  Variable P : value -> Prop.
  Hypothesis Hbase : forall v, is_attr v = false -> P v.
  Hypothesis Hattr : forall m, (forall kv, In kv m -> P (snd kv)) -> P (VAttributes m).
  Fixpoint value_nested_ind (v : value) : P v :=
    match v with
    | VAttributes m =>
        Hattr m ((fix go (l : list (bytes * value)) : forall kv, In kv l -> P (snd kv) :=
                    match l with
                    | [] => fun kv H => match H with end
                    | (k, v0) :: r => fun kv H =>
                        match H with
                        | or_introl E => match E in _ = kv' return P (snd kv') with eq_refl => value_nested_ind v0 end
                        | or_intror H' => go r kv H'
                        end
                    end) m)
    | v' => Hbase v' eq_refl
    end.
End ValueInd.

(* ---------------------------------------------------------------- C1: nan_equiv is an equivalence *)
Theorem nan_equiv_refl a : nan_equiv a a.
Proof.
  induction a as [v Hv|m IH] using value_nested_ind.
  - destruct v; try discriminate Hv; cbn [nan_equiv]; try solve [feq_solve].
    + apply all2_refl_in. auto with feq.
    + apply all2_refl_in. auto with feq.
    + apply opt_rel_refl. auto with feq.
    + apply opt_rel_refl. auto with feq.
  - cbn [nan_equiv]. apply all2_refl_in. intros kv Hkv. split; [reflexivity|now apply IH].
Qed.

Theorem nan_equiv_sym a : forall b, nan_equiv a b -> nan_equiv b a.
Proof.
  induction a as [v Hv|m IH] using value_nested_ind.
  - intros b H. destruct v; try discriminate Hv; destruct b; try (exfalso; exact H); cbn [nan_equiv] in H |- *; try solve [feq_solve].
    + revert H. apply all2_sym_in. auto with feq.
    + revert H. apply all2_sym_in. auto with feq.
    + revert H. apply opt_rel_sym. auto with feq.
    + revert H. apply opt_rel_sym. auto with feq.
  - intros b H. destruct b; try (exfalso; exact H). cbn [nan_equiv] in H |- *.
    revert H. apply all2_sym_in. intros kv kv' Hin [E Hn]. split; [now symmetry|]. now apply IH.
Qed.

Theorem nan_equiv_trans a : forall b c, nan_equiv a b -> nan_equiv b c -> nan_equiv a c.
Proof.
  induction a as [v Hv|m IH] using value_nested_ind.
  - intros b c H1 H2. destruct v; try discriminate Hv; destruct b; try (exfalso; exact H1); destruct c; try (exfalso; exact H2);
      cbn [nan_equiv] in H1, H2 |- *; try solve [feq_solve].
    + revert H1 H2. apply all2_trans_in. eauto with feq.
    + revert H1 H2. apply all2_trans_in. eauto with feq.
    + revert H1 H2. apply opt_rel_trans. eauto with feq.
    + revert H1 H2. apply opt_rel_trans. eauto with feq.
  - intros b c H1 H2. destruct b; try (exfalso; exact H1). destruct c; try (exfalso; exact H2). cbn [nan_equiv] in H1, H2 |- *.
    revert H1 H2. apply all2_trans_in. intros x y z Hin [E1 N1] [E2 N2]. split; [congruence|]. exact (IH x Hin _ _ N1 N2).
Qed.

From Coq Require Import RelationClasses.
#[export] Instance nan_equiv_Equivalence : Equivalence nan_equiv.
Proof.
  split; [exact nan_equiv_refl|exact (fun a b => nan_equiv_sym a b)|exact (fun a b c => nan_equiv_trans a b c)].
Qed.

(* equal values are related; on values without float components the relation IS equality (used for the exact types) *)
Lemma nan_equiv_eq a b : a = b -> nan_equiv a b.
Proof. intros ->. apply nan_equiv_refl. Qed.

(* a NaN and a non-NaN are never related, nor two different non-NaNs: the relation is not trivial *)
Example nan_equiv_nontrivial :
  nan_equiv (VFloat32 F32_NAN) (VFloat32 4290772992) /\ ~ nan_equiv (VFloat32 F32_NAN) (VFloat32 F32_ONE) /\
  ~ nan_equiv (VFloat32 F32_ZERO) (VFloat32 2147483648) /\ ~ nan_equiv (VInt32 1) (VInt64 1).
Proof.
  split; [right; split; reflexivity|]. split; [|split].
  - intros [H|[_ H]]; discriminate H.
  - intros [H|[H _]]; discriminate H.
  - intros H. exact H.
Qed.

(* ================================================================ 2. the two read-back relations *)
(* Binary: the value travels as a one-value column of wire type [ty]; the reader's database declares the property with
   VariantType [cty].  This is the shape of every col_roundtrip_* theorem (Properties/C01.v) at a one-element list. *)
Definition bin_back_at (ty : wire_type) (cty : N) (c : enc_ctx) (dc : dec_ctx) (v vb : value) : Prop :=
  exists b, enc_col ty c [v] = Ok b /\ dec_col ty cty dc 1 (b ++ []) = Ok ([vb], []).
(* the plain case: the wire type of the value's own VariantType (Type::from_rbx_type), declared with that same VariantType *)
Definition bin_back (c : enc_ctx) (dc : dec_ctx) (v vb : value) : Prop :=
  exists ty, from_rbx_type (vtype v) = Some ty /\ bin_back_at ty (vtype v) c dc v vb.

(* XML: what write_xml produced, sent through the event channel inside <tag name="..">, read by read_value_xml: the shape of
   every theorem of Properties/C02.v ([xml_value_roundtrip] of XmlCompound2 with the tag as bytes) *)
Definition xml_rt (o : xoracle) (tag : bytes) (evs : list wevent) (v' : value) : Prop :=
  forall name : bytes, exists revs : list revent,
    chan_go [] t0 (WStart tag [(B "name", name)] :: evs ++ [WEnd]) = Ok revs /\ read_value_xml o tag revs = Ok (RVal v', []).
Definition xml_back (o : xoracle) (v vx : value) : Prop :=
  exists tag evs, write_xml o v = Some (tag, Ok evs) /\ xml_rt o tag evs vx.
(* the XML writer accepts the value (depends on the float-text oracle having the texts of the value's floats) *)
Definition xml_writes (o : xoracle) (v : value) : Prop := exists tag evs, write_xml o v = Some (tag, Ok evs).

Lemma xml_rt_of_roundtrip o (tag : string) evs v' : xml_value_roundtrip o tag evs v' -> xml_rt o (B tag) evs v'.
Proof. intro H. exact H. Qed.

Lemma bin_back_at_fun ty cty c dc v vb vb' : bin_back_at ty cty c dc v vb -> bin_back_at ty cty c dc v vb' -> vb = vb'.
Proof. intros (b & E1 & D1) (b' & E2 & D2). rewrite E1 in E2. injection E2 as <-. rewrite D1 in D2. now injection D2. Qed.
Lemma bin_back_fun c dc v vb vb' : bin_back c dc v vb -> bin_back c dc v vb' -> vb = vb'.
Proof. intros (ty & T1 & H1) (ty' & T2 & H2). rewrite T1 in T2. injection T2 as <-. exact (bin_back_at_fun _ _ _ _ _ _ _ H1 H2). Qed.
Lemma xml_back_fun o v vx vx' : xml_back o v vx -> xml_back o v vx' -> vx = vx'.
Proof.
  intros (tag & evs & W1 & R1) (tag' & evs' & W2 & R2). rewrite W1 in W2. injection W2 as <- <-.
  destruct (R1 []) as (revs & C1 & V1). destruct (R2 []) as (revs' & C2 & V2). rewrite C1 in C2. injection C2 as <-.
  rewrite V1 in V2. now injection V2.
Qed.

(* the element name does not depend on the oracle *)
Definition xml_tag (v : value) : bytes :=
  match v with
  | VAxes _ => B "Axes" | VBinaryString _ | VTags _ | VAttributes _ | VMaterialColors _ => B "BinaryString" | VBool _ => B "bool"
  | VBrickColor _ | VInt32 _ => B "int" | VCFrame _ => B "CoordinateFrame" | VColor3 _ _ _ => B "Color3"
  | VColor3uint8 _ _ _ => B "Color3uint8" | VColorSequence _ => B "ColorSequence" | VContent _ => B "Content"
  | VContentId _ => B "ContentId" | VEnum _ => B "token" | VFaces _ => B "Faces" | VFloat32 _ => B "float" | VFloat64 _ => B "double"
  | VFont _ => B "Font" | VInt64 _ => B "int64" | VNumberRange _ _ => B "NumberRange" | VNumberSequence _ => B "NumberSequence"
  | VOptionalCFrame _ => B "OptionalCoordinateFrame" | VPhysicalProperties _ => B "PhysicalProperties" | VRay _ _ => B "Ray"
  | VRect _ _ => B "Rect2D" | VSecurityCapabilities _ => B "SecurityCapabilities" | VString _ => B "string" | VUDim _ => B "UDim"
  | VUDim2 _ _ => B "UDim2" | VUniqueId _ _ _ => B "UniqueId" | VVector2 _ => B "Vector2" | VVector2int16 _ _ => B "Vector2int16"
  | VVector3 _ => B "Vector3" | VVector3int16 _ _ _ => B "Vector3int16"
  | VRef _ | VSharedString _ | VRegion3 _ _ | VRegion3int16 _ _ | VEnumItem _ _ => []
  end.
Lemma write_xml_tag o v t r : write_xml o v = Some (t, r) -> t = xml_tag v.
Proof. destruct v; try (destruct c); cbn [write_xml xml_tag]; intro H; try discriminate H; injection H as <- _; reflexivity. Qed.

(* the generic step: from the two per-format theorems for one value to the cross-format statement *)
Lemma cross_from c dc o v nb nx :
  bin_back c dc v nb ->
  (forall tag evs, write_xml o v = Some (tag, Ok evs) -> xml_rt o tag evs nx) ->
  nan_equiv nb nx ->
  forall vb vx, bin_back c dc v vb -> xml_back o v vx -> nan_equiv vb vx.
Proof.
  intros Hb Hx Hn vb vx Hb' (tag & evs & W & R).
  rewrite (bin_back_fun _ _ _ _ _ Hb' Hb). rewrite (xml_back_fun o v vx nx); [exact Hn| |].
  - exists tag, evs. now split.
  - exists tag, evs. split; [exact W|]. now apply Hx.
Qed.
Lemma cross_exists c dc o v nb nx :
  bin_back c dc v nb ->
  (forall tag evs, write_xml o v = Some (tag, Ok evs) -> xml_rt o tag evs nx) ->
  nan_equiv nb nx -> xml_writes o v ->
  exists vb vx, bin_back c dc v vb /\ xml_back o v vx /\ nan_equiv vb vx.
Proof. intros Hb Hx Hn (tag & evs & W). exists nb, nx. split; [exact Hb|]. split; [|exact Hn]. exists tag, evs. split; [exact W|]. now apply Hx. Qed.

(* one-value column from a col_roundtrip_* instance *)
Ltac bin_single H := destruct H as (?b & ?He & ?Hd); eexists; split; [reflexivity|]; eexists; split; [exact He|exact Hd].
(* identify the element name of a successful write *)
Ltac xml_tag_of H := let E := fresh "E" in pose proof (write_xml_tag _ _ _ _ H) as E; cbn [xml_tag] in E; subst.

(* ---------------------------------------------------------------- the laws of the float-text oracle *)
Definition float64_text_law (o : xoracle) : Prop :=
  forall (x : f64) (t : bytes),
    f64_is_nan x = false -> x <> F64_INF -> x <> F64_NINF -> xo_show64 o x = Some t ->
    xo_parse64 o t = Some (Some x) /\ t <> B "INF" /\ t <> B "-INF" /\ t <> B "NAN".
(* everything the XML theorems of Properties/C02.v ask of the oracle, together *)
Definition xml_oracle_ok (o : xoracle) : Prop :=
  display_law o all32 /\ show32_plain o /\ (exists z, xo_parse32 o (B "0") = Some (Some z)) /\ float64_text_law o.

Lemma display_all_float_law o : display_law o all32 -> float_text_law o.
Proof.
  intros dl x t Hn Hi Hni Hs. destruct (dl x t I Hs) as (Hp & Hrest). split; [|exact Hrest].
  rewrite Hp. unfold norm_f32. rewrite Hn. reflexivity.
Qed.

Lemma feq32_norm x : feq32 x (norm_f32 x).
Proof. unfold norm_f32. destruct (f32_is_nan x) eqn:E; [right; split; [exact E|reflexivity]|now left]. Qed.
Lemma feq64_norm x : feq64 x (norm_f64 x).
Proof. unfold norm_f64. destruct (f64_is_nan x) eqn:E; [right; split; [exact E|reflexivity]|now left]. Qed.
Lemma v2eq_norm v : v2eq v (norm_v2 v).
Proof. split; apply feq32_norm. Qed.
Lemma v3eq_norm v : v3eq v (norm_v3 v).
Proof. repeat split; apply feq32_norm. Qed.
#[local] Hint Resolve feq32_norm feq64_norm v2eq_norm v3eq_norm : feq.

(* ================================================================ 3. per value type *)
Section PerType.
  Variable c : enc_ctx.
  Variable dc : dec_ctx.
  Variable o : xoracle.

  (* ---------------- types both formats carry bit for bit *)
  (* Bool *)
  Lemma bin_bool b : bin_back c dc (VBool b) (VBool b).
  Proof. pose proof (col_roundtrip_bool c dc [b] []) as H. bin_single H. Qed.
  Lemma xml_bool b tag evs : write_xml o (VBool b) = Some (tag, Ok evs) -> xml_rt o tag evs (VBool b).
  Proof.
    intro H. xml_tag_of H. injection H as <-. intro name. eexists. exact (bool_roundtrip o b name).
  Qed.
  Theorem cross_bool b vb vx : bin_back c dc (VBool b) vb -> xml_back o (VBool b) vx -> nan_equiv vb vx.
  Proof. apply (cross_from c dc o _ _ _ (bin_bool b) (xml_bool b)). apply nan_equiv_refl. Qed.

  Lemma F1 {A} (P : A -> Prop) x : P x -> Forall P [x].
  Proof. intro H. constructor; [exact H|constructor]. Qed.

  (* Int32 *)
  Lemma bin_int32 z : in_i32 z = true -> bin_back c dc (VInt32 z) (VInt32 z).
  Proof. intro Hz. pose proof (col_roundtrip_int32 c dc [z] [] (F1 _ _ Hz)) as H. bin_single H. Qed.
  Lemma xml_int32 z tag evs : in_i32 z = true -> write_xml o (VInt32 z) = Some (tag, Ok evs) -> xml_rt o tag evs (VInt32 z).
  Proof.
    intros Hz H. apply in_i32_iff in Hz. xml_tag_of H. injection H as <-. intro name. eexists.
    exact (int32_roundtrip o z name ltac:(lia)).
  Qed.
  Theorem cross_int32 z vb vx : in_i32 z = true -> bin_back c dc (VInt32 z) vb -> xml_back o (VInt32 z) vx -> nan_equiv vb vx.
  Proof. intro Hz. apply (cross_from c dc o _ _ _ (bin_int32 z Hz) (fun t e => xml_int32 z t e Hz)). apply nan_equiv_refl. Qed.

  (* Int64 *)
  Lemma bin_int64 z : in_i64 z = true -> bin_back c dc (VInt64 z) (VInt64 z).
  Proof. intro Hz. pose proof (col_roundtrip_int64 c dc [z] [] (F1 _ _ Hz)) as H. bin_single H. Qed.
  Lemma xml_int64 z tag evs : in_i64 z = true -> write_xml o (VInt64 z) = Some (tag, Ok evs) -> xml_rt o tag evs (VInt64 z).
  Proof.
    intros Hz H. apply in_i64_iff in Hz. xml_tag_of H. injection H as <-. intro name. eexists.
    exact (int64_roundtrip o z name ltac:(lia)).
  Qed.
  Theorem cross_int64 z vb vx : in_i64 z = true -> bin_back c dc (VInt64 z) vb -> xml_back o (VInt64 z) vx -> nan_equiv vb vx.
  Proof. intro Hz. apply (cross_from c dc o _ _ _ (bin_int64 z Hz) (fun t e => xml_int64 z t e Hz)). apply nan_equiv_refl. Qed.

  (* Enum *)
  Lemma bin_enum n : n <? 4294967296 = true -> bin_back c dc (VEnum n) (VEnum n).
  Proof. intro Hn. apply N.ltb_lt in Hn. pose proof (col_roundtrip_enum c dc [n] [] (F1 (fun v => v < 2 ^ 32) n Hn)) as H. bin_single H. Qed.
  Lemma xml_enum n tag evs : n <? 4294967296 = true -> write_xml o (VEnum n) = Some (tag, Ok evs) -> xml_rt o tag evs (VEnum n).
  Proof.
    intros Hn H. apply N.ltb_lt in Hn. xml_tag_of H. injection H as <-. intro name. eexists. exact (enum_roundtrip o n name Hn).
  Qed.
  Theorem cross_enum n vb vx : n <? 4294967296 = true -> bin_back c dc (VEnum n) vb -> xml_back o (VEnum n) vx -> nan_equiv vb vx.
  Proof. intro Hn. apply (cross_from c dc o _ _ _ (bin_enum n Hn) (fun t e => xml_enum n t e Hn)). apply nan_equiv_refl. Qed.

  (* String (valid UTF-8, as every Rust String) *)
  Definition string_scope (lim : option N) (s : bytes) : bool := bstr_ok lim s && utf8_valid s.
  Lemma bin_string s : string_scope (dc_lim dc) s = true -> bin_back c dc (VString s) (VString s).
  Proof.
    intro Hs. apply andb_true_iff in Hs. pose proof (col_roundtrip_string c dc [s] [] (F1 _ _ Hs)) as H. bin_single H.
  Qed.
  Lemma xml_string s tag evs : write_xml o (VString s) = Some (tag, Ok evs) -> xml_rt o tag evs (VString s).
  Proof. intro H. xml_tag_of H. injection H as <-. intro name. eexists. exact (string_roundtrip o s name). Qed.
  Theorem cross_string s vb vx : string_scope (dc_lim dc) s = true ->
    bin_back c dc (VString s) vb -> xml_back o (VString s) vx -> nan_equiv vb vx.
  Proof. intro Hs. apply (cross_from c dc o _ _ _ (bin_string s Hs) (xml_string s)). apply nan_equiv_refl. Qed.

  (* BinaryString *)
  Definition bstring_scope (lim : option N) (s : bytes) : bool := bstr_ok lim s && bytes_ok s.
  Lemma bytes_ok_Forall s : bytes_ok s = true -> Forall (fun x => x < 256) s.
  Proof. unfold bytes_ok. rewrite forallb_forall, Forall_forall. intros H x Hx. apply N.ltb_lt. now apply H. Qed.
  Lemma bin_bstring s : bstring_scope (dc_lim dc) s = true -> bin_back c dc (VBinaryString s) (VBinaryString s).
  Proof.
    intro Hs. apply andb_true_iff in Hs. destruct Hs as [Hs _].
    pose proof (col_roundtrip_binarystring c dc [s] [] (F1 _ _ Hs)) as H. bin_single H.
  Qed.
  Lemma xml_bstring s tag evs : bstring_scope (dc_lim dc) s = true ->
    write_xml o (VBinaryString s) = Some (tag, Ok evs) -> xml_rt o tag evs (VBinaryString s).
  Proof.
    intros Hs H. apply andb_true_iff in Hs. destruct Hs as [_ Hs]. apply bytes_ok_Forall in Hs. intro name.
    destruct (binary_string_roundtrip o s name Hs) as (evs' & revs & W & C & R). rewrite H in W. injection W as -> ->.
    exists revs. now split.
  Qed.
  Theorem cross_bstring s vb vx : bstring_scope (dc_lim dc) s = true ->
    bin_back c dc (VBinaryString s) vb -> xml_back o (VBinaryString s) vx -> nan_equiv vb vx.
  Proof. intro Hs. apply (cross_from c dc o _ _ _ (bin_bstring s Hs) (fun t e => xml_bstring s t e Hs)). apply nan_equiv_refl. Qed.

  (* Axes, Faces *)
  Lemma bin_axes n : n <? 8 = true -> bin_back c dc (VAxes n) (VAxes n).
  Proof. intro Hn. apply N.ltb_lt in Hn. pose proof (col_roundtrip_axes c dc [n] [] (F1 (fun v => v < 8) n Hn)) as H. bin_single H. Qed.
  Lemma xml_axes n tag evs : n <? 8 = true -> write_xml o (VAxes n) = Some (tag, Ok evs) -> xml_rt o tag evs (VAxes n).
  Proof. intros Hn H. apply N.ltb_lt in Hn. xml_tag_of H. exact (axes_roundtrip o n evs Hn H). Qed.
  Theorem cross_axes n vb vx : n <? 8 = true -> bin_back c dc (VAxes n) vb -> xml_back o (VAxes n) vx -> nan_equiv vb vx.
  Proof. intro Hn. apply (cross_from c dc o _ _ _ (bin_axes n Hn) (fun t e => xml_axes n t e Hn)). apply nan_equiv_refl. Qed.

  Lemma bin_faces n : n <? 64 = true -> bin_back c dc (VFaces n) (VFaces n).
  Proof. intro Hn. apply N.ltb_lt in Hn. pose proof (col_roundtrip_faces c dc [n] [] (F1 (fun v => v < 64) n Hn)) as H. bin_single H. Qed.
  Lemma xml_faces n tag evs : n <? 64 = true -> write_xml o (VFaces n) = Some (tag, Ok evs) -> xml_rt o tag evs (VFaces n).
  Proof. intros Hn H. apply N.ltb_lt in Hn. xml_tag_of H. exact (faces_roundtrip o n evs Hn H). Qed.
  Theorem cross_faces n vb vx : n <? 64 = true -> bin_back c dc (VFaces n) vb -> xml_back o (VFaces n) vx -> nan_equiv vb vx.
  Proof. intro Hn. apply (cross_from c dc o _ _ _ (bin_faces n Hn) (fun t e => xml_faces n t e Hn)). apply nan_equiv_refl. Qed.

  (* SecurityCapabilities *)
  Lemma bin_seccap n : n <? 18446744073709551616 = true -> bin_back c dc (VSecurityCapabilities n) (VSecurityCapabilities n).
  Proof. intro Hn. apply N.ltb_lt in Hn. pose proof (col_roundtrip_seccap c dc [n] [] (F1 (fun v => v < 2 ^ 64) n Hn)) as H. bin_single H. Qed.
  Lemma xml_seccap n tag evs : n <? 18446744073709551616 = true ->
    write_xml o (VSecurityCapabilities n) = Some (tag, Ok evs) -> xml_rt o tag evs (VSecurityCapabilities n).
  Proof. intros Hn H. apply N.ltb_lt in Hn. xml_tag_of H. exact (security_capabilities_roundtrip2 o n evs Hn H). Qed.
  Theorem cross_seccap n vb vx : n <? 18446744073709551616 = true ->
    bin_back c dc (VSecurityCapabilities n) vb -> xml_back o (VSecurityCapabilities n) vx -> nan_equiv vb vx.
  Proof. intro Hn. apply (cross_from c dc o _ _ _ (bin_seccap n Hn) (fun t e => xml_seccap n t e Hn)). apply nan_equiv_refl. Qed.

  (* Color3uint8 *)
  Definition c3u8_scope (r g b : N) : bool := (r <? 256) && (g <? 256) && (b <? 256).
  Lemma bin_c3u8 r g b : bin_back c dc (VColor3uint8 r g b) (VColor3uint8 r g b).
  Proof. pose proof (col_roundtrip_color3uint8 c dc VT_Color3uint8 [(r, g, b)] [] (or_intror eq_refl)) as H. bin_single H. Qed.
  Lemma xml_c3u8 r g b tag evs : c3u8_scope r g b = true ->
    write_xml o (VColor3uint8 r g b) = Some (tag, Ok evs) -> xml_rt o tag evs (VColor3uint8 r g b).
  Proof.
    intros Hs H. unfold c3u8_scope in Hs. apply andb_true_iff in Hs. destruct Hs as [Hs Hb]. apply andb_true_iff in Hs. destruct Hs as [Hr Hg].
    apply N.ltb_lt in Hr, Hg, Hb. xml_tag_of H. exact (color3uint8_roundtrip o r g b evs Hr Hg Hb H).
  Qed.
  Theorem cross_c3u8 r g b vb vx : c3u8_scope r g b = true ->
    bin_back c dc (VColor3uint8 r g b) vb -> xml_back o (VColor3uint8 r g b) vx -> nan_equiv vb vx.
  Proof. intro Hs. apply (cross_from c dc o _ _ _ (bin_c3u8 r g b) (fun t e => xml_c3u8 r g b t e Hs)). apply nan_equiv_refl. Qed.

  (* Vector3int16 *)
  Definition v3i16_scope (x y z : Z) : bool := in_i16 x && in_i16 y && in_i16 z.
  Lemma bin_v3i16 x y z : v3i16_scope x y z = true -> bin_back c dc (VVector3int16 x y z) (VVector3int16 x y z).
  Proof. intro Hs. pose proof (col_roundtrip_vector3int16 c dc [(x, y, z)] [] (F1 (fun p => v3i16_ok p = true) (x, y, z) Hs)) as H. bin_single H. Qed.
  Lemma xml_v3i16 x y z tag evs : v3i16_scope x y z = true ->
    write_xml o (VVector3int16 x y z) = Some (tag, Ok evs) -> xml_rt o tag evs (VVector3int16 x y z).
  Proof.
    intros Hs H. unfold v3i16_scope in Hs. apply andb_true_iff in Hs. destruct Hs as [Hs Hz]. apply andb_true_iff in Hs. destruct Hs as [Hx Hy].
    apply in_i16_iff in Hx, Hy, Hz. xml_tag_of H.
    refine (vector3int16_roundtrip o x y z evs _ _ _ H); unfold i16_ok; lia.
  Qed.
  Theorem cross_v3i16 x y z vb vx : v3i16_scope x y z = true ->
    bin_back c dc (VVector3int16 x y z) vb -> xml_back o (VVector3int16 x y z) vx -> nan_equiv vb vx.
  Proof. intro Hs. apply (cross_from c dc o _ _ _ (bin_v3i16 x y z Hs) (fun t e => xml_v3i16 x y z t e Hs)). apply nan_equiv_refl. Qed.

  (* UniqueId: value by value both formats are exact, the nil id included (the regeneration of a duplicate or nil id is a
     whole-file pass of the binary reader, [uid_norm] in BinRoundTrip, not a property of the value codec) *)
  Lemma bin_uid i t r : uid_ok (i, t, r) = true -> bin_back c dc (VUniqueId i t r) (VUniqueId i t r).
  Proof. intro Hs. pose proof (col_roundtrip_uniqueid c dc [(i, t, r)] [] (F1 (fun p => uid_ok p = true) (i, t, r) Hs)) as H. bin_single H. Qed.
  Lemma xml_uid i t r tag evs : uid_ok (i, t, r) = true ->
    write_xml o (VUniqueId i t r) = Some (tag, Ok evs) -> xml_rt o tag evs (VUniqueId i t r).
  Proof.
    intros Hs H. unfold uid_ok in Hs. cbn [fst snd] in Hs. apply andb_true_iff in Hs. destruct Hs as [Hs Hr].
    apply andb_true_iff in Hs. destruct Hs as [Hi Ht]. apply N.ltb_lt in Hi, Ht. apply in_i64_iff in Hr. xml_tag_of H.
    refine (unique_id_roundtrip o i t r evs _ _ _ H); [exact Hi|exact Ht|]. change (2 ^ 63)%Z with 9223372036854775808%Z. lia.
  Qed.
  Theorem cross_uid i t r vb vx : uid_ok (i, t, r) = true ->
    bin_back c dc (VUniqueId i t r) vb -> xml_back o (VUniqueId i t r) vx -> nan_equiv vb vx.
  Proof. intro Hs. apply (cross_from c dc o _ _ _ (bin_uid i t r Hs) (fun t' e => xml_uid i t r t' e Hs)). apply nan_equiv_refl. Qed.
  (* ContentId: there is no column theorem for it in BinValuesFacts*; the one-value column is derived here from the string
     reader's law [read_str_app] *)
  Lemma bin_contentid s : str_ok (dc_lim dc) s = true -> bin_back c dc (VContentId s) (VContentId s).
  Proof.
    intro Hs. exists WString. split; [reflexivity|]. exists (w_bstr s ++ []). split; [reflexivity|].
    cbn [vtype dec_col]. change (N.eqb 8 VT_Str) with false. change (N.eqb 8 VT_ContentId) with true. cbv iota.
    cbn [prepeat]. rewrite <- app_assoc.
    erewrite pbind_ok_intro; [|erewrite pbind_ok_intro; [|apply read_str_app; exact Hs]; reflexivity].
    reflexivity.
  Qed.
  Lemma xml_contentid s tag evs : write_xml o (VContentId s) = Some (tag, Ok evs) -> xml_rt o tag evs (VContentId s).
  Proof. intro H. xml_tag_of H. exact (content_id_roundtrip o s evs H). Qed.
  Theorem cross_contentid s vb vx : str_ok (dc_lim dc) s = true ->
    bin_back c dc (VContentId s) vb -> xml_back o (VContentId s) vx -> nan_equiv vb vx.
  Proof. intro Hs. apply (cross_from c dc o _ _ _ (bin_contentid s Hs) (xml_contentid s)). apply nan_equiv_refl. Qed.

  (* Content: none and URIs (an object reference makes the XML writer panic: cross_content_object_differs below) *)
  Definition content_scope (lim : option N) (x : content) : bool :=
    match x with CNone => true | CUri u => str_ok lim u && lim_ok lim 24 | CObject _ => false end.
  Lemma bin_content x : content_scope (dc_lim dc) x = true -> bin_back c dc (VContent x) (VContent x).
  Proof.
    intro Hs.
    assert (Hok : content_ok c dc x = true).
    { destruct x; [reflexivity| |discriminate Hs]. cbn [content_scope] in Hs. apply andb_true_iff in Hs. exact (proj1 Hs). }
    assert (Hback : content_back c dc x = x) by (destruct x; [reflexivity|reflexivity|discriminate Hs]).
    assert (H : exists b, enc_col WContent c (List.map VContent [x]) = Ok b /\
                          dec_col WContent VT_Content dc (length [x]) (b ++ []) = Ok (List.map (fun x => VContent (content_back c dc x)) [x], [])).
    { apply col_roundtrip_content; [reflexivity| | |exact (F1 _ _ Hok)].
      - destruct x; try apply lim_ok_0. cbn [content_scope] in Hs. apply andb_true_iff in Hs. exact (proj2 Hs).
      - destruct x; try apply lim_ok_0. discriminate Hs. }
    cbn [List.map length] in H. rewrite Hback in H. bin_single H.
  Qed.
  Lemma xml_content x tag evs : write_xml o (VContent x) = Some (tag, Ok evs) -> xml_rt o tag evs (VContent x).
  Proof. intro H. xml_tag_of H. exact (proj2 (content_roundtrip o x evs H)). Qed.
  Theorem cross_content x vb vx : content_scope (dc_lim dc) x = true ->
    bin_back c dc (VContent x) vb -> xml_back o (VContent x) vx -> nan_equiv vb vx.
  Proof. intro Hs. apply (cross_from c dc o _ _ _ (bin_content x Hs) (xml_content x)). apply nan_equiv_refl. Qed.
  (* ---------------- types with float components: binary is bit-exact, XML canonicalises every NaN (norm_f32 / norm_f64) *)
  Lemma f32_ok_lt x : f32_ok x = true -> x < 4294967296.
  Proof. unfold f32_ok. apply N.ltb_lt. Qed.

  (* Float32 *)
  Lemma bin_float32 x : f32_ok x = true -> bin_back c dc (VFloat32 x) (VFloat32 x).
  Proof. intro Hx. pose proof (col_roundtrip_float32 c dc [x] [] (F1 (fun x => f32_ok x = true) x Hx)) as H. bin_single H. Qed.
  Lemma xml_float32 x tag evs : float_text_law o -> f32_ok x = true ->
    write_xml o (VFloat32 x) = Some (tag, Ok evs) -> xml_rt o tag evs (VFloat32 (norm_f32 x)).
  Proof.
    intros law Hx H. xml_tag_of H. cbn [write_xml] in H. apply some_pair_inv in H. unfold xw_f32 in H.
    destruct (text_f32 o x) as [t| | |] eqn:Et; cbn [rbind] in H; try discriminate H. injection H as <-.
    intro name. eexists. exact (float32_roundtrip o law x name t (f32_ok_lt x Hx) Et).
  Qed.
  Theorem cross_float32 x vb vx : float_text_law o -> f32_ok x = true ->
    bin_back c dc (VFloat32 x) vb -> xml_back o (VFloat32 x) vx -> nan_equiv vb vx.
  Proof.
    intros law Hx. apply (cross_from c dc o _ _ _ (bin_float32 x Hx) (fun t e => xml_float32 x t e law Hx)). apply feq32_norm.
  Qed.

  (* Float64 *)
  Lemma bin_float64 x : f64_ok x = true -> bin_back c dc (VFloat64 x) (VFloat64 x).
  Proof. intro Hx. pose proof (col_roundtrip_float64 c dc [x] [] (F1 (fun x => f64_ok x = true) x Hx)) as H. bin_single H. Qed.
  Lemma xml_float64 x tag evs : float64_text_law o ->
    write_xml o (VFloat64 x) = Some (tag, Ok evs) -> xml_rt o tag evs (VFloat64 (norm_f64 x)).
  Proof.
    intros law H. xml_tag_of H. cbn [write_xml] in H. apply some_pair_inv in H. unfold xw_f64 in H.
    destruct (text_f64 o x) as [t| | |] eqn:Et; cbn [rbind] in H; try discriminate H. injection H as <-.
    intro name. eexists. exact (float64_roundtrip o law x name t Et).
  Qed.
  Theorem cross_float64 x vb vx : float64_text_law o -> f64_ok x = true ->
    bin_back c dc (VFloat64 x) vb -> xml_back o (VFloat64 x) vx -> nan_equiv vb vx.
  Proof.
    intros law Hx. apply (cross_from c dc o _ _ _ (bin_float64 x Hx) (fun t e => xml_float64 x t e law)). apply feq64_norm.
  Qed.

  (* Vector3 *)
  Lemma bin_vector3 v : vec3_ok v = true -> bin_back c dc (VVector3 v) (VVector3 v).
  Proof. intro Hv. pose proof (col_roundtrip_vector3 c dc [v] [] (F1 (fun p => vec3_ok p = true) v Hv)) as H. bin_single H. Qed.
  Lemma xml_vector3 v tag evs : float_text_law o ->
    write_xml o (VVector3 v) = Some (tag, Ok evs) -> xml_rt o tag evs (VVector3 (norm_v3 v)).
  Proof.
    intros law H. xml_tag_of H. pose proof H as H'. cbn [write_xml] in H'. apply some_pair_inv in H'.
    destruct (w_vec3_inv o v evs H') as (tx & ty & tz & Hx & Hy & Hz & _). destruct v as [x y z]. cbn [vx vy vz] in *.
    intro name. destruct (vector3_roundtrip o law x y z tx ty tz name Hx Hy Hz) as [(evs' & W & C) R].
    rewrite H in W. injection W as <-. eexists. split; [exact C|exact R].
  Qed.
  Theorem cross_vector3 v vb vx : float_text_law o -> vec3_ok v = true ->
    bin_back c dc (VVector3 v) vb -> xml_back o (VVector3 v) vx -> nan_equiv vb vx.
  Proof.
    intros law Hv. apply (cross_from c dc o _ _ _ (bin_vector3 v Hv) (fun t e => xml_vector3 v t e law)). apply v3eq_norm.
  Qed.

  (* Vector2 *)
  Lemma bin_vector2 v : vec2_ok v = true -> bin_back c dc (VVector2 v) (VVector2 v).
  Proof. intro Hv. pose proof (col_roundtrip_vector2 c dc [v] [] (F1 (fun p => vec2_ok p = true) v Hv)) as H. bin_single H. Qed.
  Lemma xml_vector2 v tag evs : float_text_law o ->
    write_xml o (VVector2 v) = Some (tag, Ok evs) -> xml_rt o tag evs (VVector2 (norm_v2 v)).
  Proof. intros law H. xml_tag_of H. exact (vector2_roundtrip o law v evs H). Qed.
  Theorem cross_vector2 v vb vx : float_text_law o -> vec2_ok v = true ->
    bin_back c dc (VVector2 v) vb -> xml_back o (VVector2 v) vx -> nan_equiv vb vx.
  Proof.
    intros law Hv. apply (cross_from c dc o _ _ _ (bin_vector2 v Hv) (fun t e => xml_vector2 v t e law)). apply v2eq_norm.
  Qed.

  (* Color3 (serialised as Color3) *)
  Definition color3_scope (r g b : f32) : bool := f32_ok r && f32_ok g && f32_ok b.
  Lemma bin_color3 r g b : color3_scope r g b = true -> bin_back c dc (VColor3 r g b) (VColor3 r g b).
  Proof.
    intro Hs. unfold color3_scope in Hs. apply andb_true_iff in Hs. destruct Hs as [Hs Hb]. apply andb_true_iff in Hs. destruct Hs as [Hr Hg].
    pose proof (col_roundtrip_color3 c dc [(r, g, b)] []
                  (F1 (fun p => f32_ok (fst (fst p)) = true /\ f32_ok (snd (fst p)) = true /\ f32_ok (snd p) = true) (r, g, b)
                      (conj Hr (conj Hg Hb)))) as H.
    bin_single H.
  Qed.
  Lemma xml_color3 r g b tag evs : float_text_law o ->
    write_xml o (VColor3 r g b) = Some (tag, Ok evs) -> xml_rt o tag evs (VColor3 (norm_f32 r) (norm_f32 g) (norm_f32 b)).
  Proof. intros law H. xml_tag_of H. exact (color3_roundtrip o law r g b evs H). Qed.
  Theorem cross_color3 r g b vb vx : float_text_law o -> color3_scope r g b = true ->
    bin_back c dc (VColor3 r g b) vb -> xml_back o (VColor3 r g b) vx -> nan_equiv vb vx.
  Proof.
    intros law Hs. apply (cross_from c dc o _ _ _ (bin_color3 r g b Hs) (fun t e => xml_color3 r g b t e law)).
    cbn [nan_equiv]. auto with feq.
  Qed.

  (* UDim, UDim2 *)
  Lemma udim_ok_parts u : udim_ok u = true -> f32_ok (ud_scale u) = true /\ in_i32 (ud_offset u) = true.
  Proof. unfold udim_ok. apply andb_true_iff. Qed.
  Lemma in_i32_ok z : in_i32 z = true -> i32_ok z.
  Proof. intro H. apply in_i32_iff in H. unfold i32_ok. lia. Qed.
  Lemma udeq_norm u : udeq u (norm_udim u).
  Proof. split; [apply feq32_norm|reflexivity]. Qed.

  Lemma bin_udim u : udim_ok u = true -> bin_back c dc (VUDim u) (VUDim u).
  Proof.
    intro Hu. pose proof (col_roundtrip_udim c dc [u] []
      (F1 (fun u => f32_ok (ud_scale u) = true /\ in_i32 (ud_offset u) = true) u (udim_ok_parts u Hu))) as H. bin_single H.
  Qed.
  Lemma xml_udim u tag evs : float_text_law o -> udim_ok u = true ->
    write_xml o (VUDim u) = Some (tag, Ok evs) -> xml_rt o tag evs (VUDim (norm_udim u)).
  Proof. intros law Hu H. xml_tag_of H. exact (udim_roundtrip o law u evs (in_i32_ok _ (proj2 (udim_ok_parts u Hu))) H). Qed.
  Theorem cross_udim u vb vx : float_text_law o -> udim_ok u = true ->
    bin_back c dc (VUDim u) vb -> xml_back o (VUDim u) vx -> nan_equiv vb vx.
  Proof.
    intros law Hu. apply (cross_from c dc o _ _ _ (bin_udim u Hu) (fun t e => xml_udim u t e law Hu)). apply udeq_norm.
  Qed.

  Definition udim2_scope (x y : udim) : bool := udim_ok x && udim_ok y.
  Lemma bin_udim2 x y : udim2_scope x y = true -> bin_back c dc (VUDim2 x y) (VUDim2 x y).
  Proof.
    intro Hs. apply andb_true_iff in Hs.
    pose proof (col_roundtrip_udim2 c dc [(x, y)] [] (F1 (fun p => udim_ok (fst p) = true /\ udim_ok (snd p) = true) (x, y) Hs)) as H.
    bin_single H.
  Qed.
  Lemma xml_udim2 x y tag evs : float_text_law o -> udim2_scope x y = true ->
    write_xml o (VUDim2 x y) = Some (tag, Ok evs) -> xml_rt o tag evs (VUDim2 (norm_udim x) (norm_udim y)).
  Proof.
    intros law Hs H. apply andb_true_iff in Hs. destruct Hs as [Hx Hy]. xml_tag_of H.
    exact (udim2_roundtrip o law x y evs (in_i32_ok _ (proj2 (udim_ok_parts x Hx))) (in_i32_ok _ (proj2 (udim_ok_parts y Hy))) H).
  Qed.
  Theorem cross_udim2 x y vb vx : float_text_law o -> udim2_scope x y = true ->
    bin_back c dc (VUDim2 x y) vb -> xml_back o (VUDim2 x y) vx -> nan_equiv vb vx.
  Proof.
    intros law Hs. apply (cross_from c dc o _ _ _ (bin_udim2 x y Hs) (fun t e => xml_udim2 x y t e law Hs)).
    split; apply udeq_norm.
  Qed.

  (* Rect *)
  Definition rect_scope (lo hi : vec2) : bool := vec2_ok lo && vec2_ok hi.
  Lemma bin_rect lo hi : rect_scope lo hi = true -> bin_back c dc (VRect lo hi) (VRect lo hi).
  Proof.
    intro Hs. apply andb_true_iff in Hs.
    pose proof (col_roundtrip_rect c dc [(lo, hi)] [] (F1 (fun p => vec2_ok (fst p) = true /\ vec2_ok (snd p) = true) (lo, hi) Hs)) as H.
    bin_single H.
  Qed.
  Lemma xml_rect lo hi tag evs : float_text_law o ->
    write_xml o (VRect lo hi) = Some (tag, Ok evs) -> xml_rt o tag evs (VRect (norm_v2 lo) (norm_v2 hi)).
  Proof. intros law H. xml_tag_of H. exact (rect_roundtrip o law lo hi evs H). Qed.
  Theorem cross_rect lo hi vb vx : float_text_law o -> rect_scope lo hi = true ->
    bin_back c dc (VRect lo hi) vb -> xml_back o (VRect lo hi) vx -> nan_equiv vb vx.
  Proof.
    intros law Hs. apply (cross_from c dc o _ _ _ (bin_rect lo hi Hs) (fun t e => xml_rect lo hi t e law)).
    split; apply v2eq_norm.
  Qed.

  (* Ray *)
  Definition ray_scope (a b : vec3) : bool := vec3_ok a && vec3_ok b.
  Lemma bin_ray a b : ray_scope a b = true -> bin_back c dc (VRay a b) (VRay a b).
  Proof.
    intro Hs. apply andb_true_iff in Hs.
    pose proof (col_roundtrip_ray c dc [(a, b)] [] (F1 (fun p => vec3_ok (fst p) = true /\ vec3_ok (snd p) = true) (a, b) Hs)) as H.
    bin_single H.
  Qed.
  Lemma xml_ray a b tag evs : float_text_law o ->
    write_xml o (VRay a b) = Some (tag, Ok evs) -> xml_rt o tag evs (VRay (norm_v3 a) (norm_v3 b)).
  Proof. intros law H. xml_tag_of H. exact (ray_roundtrip o law a b evs H). Qed.
  Theorem cross_ray a b vb vx : float_text_law o -> ray_scope a b = true ->
    bin_back c dc (VRay a b) vb -> xml_back o (VRay a b) vx -> nan_equiv vb vx.
  Proof.
    intros law Hs. apply (cross_from c dc o _ _ _ (bin_ray a b Hs) (fun t e => xml_ray a b t e law)).
    split; apply v3eq_norm.
  Qed.

  (* PhysicalProperties *)
  Lemma physeq_norm p : opt_rel physeq p (norm_phys p).
  Proof. destruct p as [pp|]; cbn; [|exact I]. repeat split; apply feq32_norm. Qed.
  Lemma bin_phys p : physopt_ok p = true -> bin_back c dc (VPhysicalProperties p) (VPhysicalProperties p).
  Proof.
    intro Hp. pose proof (col_roundtrip_physicalproperties c dc [p] [] (F1 (fun o => physopt_ok o = true) p Hp)) as H. bin_single H.
  Qed.
  Lemma xml_phys p tag evs : float_text_law o ->
    write_xml o (VPhysicalProperties p) = Some (tag, Ok evs) -> xml_rt o tag evs (VPhysicalProperties (norm_phys p)).
  Proof. intros law H. xml_tag_of H. exact (physical_properties_roundtrip o law p evs H). Qed.
  Theorem cross_phys p vb vx : float_text_law o -> physopt_ok p = true ->
    bin_back c dc (VPhysicalProperties p) vb -> xml_back o (VPhysicalProperties p) vx -> nan_equiv vb vx.
  Proof.
    intros law Hp. apply (cross_from c dc o _ _ _ (bin_phys p Hp) (fun t e => xml_phys p t e law)). apply physeq_norm.
  Qed.

  (* NumberRange (space-separated Display texts: the Display law for every float and plain texts) *)
  Definition nrange_scope (lo hi : f32) : bool := f32_ok lo && f32_ok hi.
  Lemma bin_nrange lo hi : nrange_scope lo hi = true -> bin_back c dc (VNumberRange lo hi) (VNumberRange lo hi).
  Proof.
    intro Hs. apply andb_true_iff in Hs.
    pose proof (col_roundtrip_numberrange c dc [(lo, hi)] [] (F1 (fun p => f32_ok (fst p) = true /\ f32_ok (snd p) = true) (lo, hi) Hs)) as H.
    bin_single H.
  Qed.
  Lemma xml_nrange lo hi tag evs : display_law o all32 -> show32_plain o ->
    write_xml o (VNumberRange lo hi) = Some (tag, Ok evs) -> xml_rt o tag evs (VNumberRange (norm_f32 lo) (norm_f32 hi)).
  Proof. intros dl pl H. xml_tag_of H. exact (number_range_roundtrip_all o lo hi evs dl pl H). Qed.
  Theorem cross_nrange lo hi vb vx : display_law o all32 -> show32_plain o -> nrange_scope lo hi = true ->
    bin_back c dc (VNumberRange lo hi) vb -> xml_back o (VNumberRange lo hi) vx -> nan_equiv vb vx.
  Proof.
    intros dl pl Hs. apply (cross_from c dc o _ _ _ (bin_nrange lo hi Hs) (fun t e => xml_nrange lo hi t e dl pl)).
    split; apply feq32_norm.
  Qed.

  (* NumberSequence, ColorSequence: two or more keypoints (fewer: the XML reader rejects what the XML writer wrote) *)
  Lemma all2_map_r {A} (R : A -> A -> Prop) (f : A -> A) l : (forall x, R x (f x)) -> all2 R l (List.map f l).
  Proof. intro H. induction l as [|x r IH]; cbn [all2 List.map]; [exact I|]. split; [apply H|exact IH]. Qed.
  Lemma kp3eq_norm kp : kp3eq kp (norm_kp3 kp).
  Proof. destruct kp as [[t x] e]. cbn. repeat split; apply feq32_norm. Qed.
  Lemma kp4eq_norm kp : kp4eq kp (norm_kp4 kp).
  Proof. destruct kp as [t [[r g] b]]. cbn. repeat split; apply feq32_norm. Qed.

  Definition nseq_scope (lim : option N) (kps : list (f32 * f32 * f32)) : bool := nseq_ok lim kps && (2 <=? length kps)%nat.
  Lemma bin_nseq kps : nseq_scope (dc_lim dc) kps = true -> bin_back c dc (VNumberSequence kps) (VNumberSequence kps).
  Proof.
    intro Hs. apply andb_true_iff in Hs. destruct Hs as [Hs _].
    pose proof (col_roundtrip_numbersequence c dc [kps] [] (F1 (fun k => nseq_ok (dc_lim dc) k = true) kps Hs)) as H. bin_single H.
  Qed.
  Lemma xml_nseq kps tag evs : display_law o all32 -> show32_plain o -> nseq_scope (dc_lim dc) kps = true ->
    write_xml o (VNumberSequence kps) = Some (tag, Ok evs) -> xml_rt o tag evs (VNumberSequence (List.map norm_kp3 kps)).
  Proof.
    intros dl pl Hs H. apply andb_true_iff in Hs. destruct Hs as [_ Hl]. apply Nat.leb_le in Hl. xml_tag_of H.
    exact (number_sequence_roundtrip_all o kps evs dl pl Hl H).
  Qed.
  Theorem cross_nseq kps vb vx : display_law o all32 -> show32_plain o -> nseq_scope (dc_lim dc) kps = true ->
    bin_back c dc (VNumberSequence kps) vb -> xml_back o (VNumberSequence kps) vx -> nan_equiv vb vx.
  Proof.
    intros dl pl Hs. apply (cross_from c dc o _ _ _ (bin_nseq kps Hs) (fun t e => xml_nseq kps t e dl pl Hs)).
    cbn [nan_equiv]. apply all2_map_r. apply kp3eq_norm.
  Qed.

  Definition cseq_scope (lim : option N) (kps : list (f32 * (f32 * f32 * f32))) : bool := cseq_ok lim kps && (2 <=? length kps)%nat.
  Lemma bin_cseq kps : cseq_scope (dc_lim dc) kps = true -> bin_back c dc (VColorSequence kps) (VColorSequence kps).
  Proof.
    intro Hs. apply andb_true_iff in Hs. destruct Hs as [Hs _].
    pose proof (col_roundtrip_colorsequence c dc [kps] [] (F1 (fun k => cseq_ok (dc_lim dc) k = true) kps Hs)) as H. bin_single H.
  Qed.
  Lemma xml_cseq kps tag evs : display_law o all32 -> show32_plain o -> (exists z, xo_parse32 o (B "0") = Some (Some z)) ->
    cseq_scope (dc_lim dc) kps = true ->
    write_xml o (VColorSequence kps) = Some (tag, Ok evs) -> xml_rt o tag evs (VColorSequence (List.map norm_kp4 kps)).
  Proof.
    intros dl pl hz Hs H. apply andb_true_iff in Hs. destruct Hs as [_ Hl]. apply Nat.leb_le in Hl. xml_tag_of H.
    exact (color_sequence_roundtrip_all o kps evs dl pl hz Hl H).
  Qed.
  Theorem cross_cseq kps vb vx : display_law o all32 -> show32_plain o -> (exists z, xo_parse32 o (B "0") = Some (Some z)) ->
    cseq_scope (dc_lim dc) kps = true ->
    bin_back c dc (VColorSequence kps) vb -> xml_back o (VColorSequence kps) vx -> nan_equiv vb vx.
  Proof.
    intros dl pl hz Hs. apply (cross_from c dc o _ _ _ (bin_cseq kps Hs) (fun t e => xml_cseq kps t e dl pl hz Hs)).
    cbn [nan_equiv]. apply all2_map_r. apply kp4eq_norm.
  Qed.
  (* ---------------- CFrame / OptionalCFrame: binary snaps a rotation that has a basic rotation id to its basis (norm_rot),
     XML keeps the nine floats.  They agree exactly on the matrices that norm_rot fixes: every matrix without an id, and the 24
     bases themselves (norm_rot_no_id, norm_rot_basis). *)
  Definition vec3_eqb (a b : vec3) : bool := (vx a =? vx b) && (vy a =? vy b) && (vz a =? vz b).
  Definition mat3_eqb (a b : mat3) : bool := vec3_eqb (mx a) (mx b) && vec3_eqb (my a) (my b) && vec3_eqb (mz a) (mz b).
  Lemma vec3_eqb_eq a b : vec3_eqb a b = true <-> a = b.
  Proof.
    destruct a as [x y z], b as [x' y' z']. unfold vec3_eqb. cbn [vx vy vz]. rewrite !andb_true_iff, !N.eqb_eq.
    split; [intros [[-> ->] ->]; reflexivity|intro H; injection H as -> -> ->; auto].
  Qed.
  Lemma mat3_eqb_eq a b : mat3_eqb a b = true <-> a = b.
  Proof.
    destruct a as [x y z], b as [x' y' z']. unfold mat3_eqb. cbn [mx my mz]. rewrite !andb_true_iff, !vec3_eqb_eq.
    split; [intros [[-> ->] ->]; reflexivity|intro H; injection H as -> -> ->; auto].
  Qed.

  (* the rotation is a fixed point of the binary normalisation *)
  Definition rot_fixed (m : mat3) : bool := mat3_eqb (norm_rot m) m.
  Definition cframe_scope (cf : cframe) : bool := cframe_ok cf && rot_fixed (cf_rot cf).
  Definition norm_m3 (m : mat3) : mat3 := mkM3 (norm_v3 (mx m)) (norm_v3 (my m)) (norm_v3 (mz m)).
  Lemma norm_cf_parts cf : norm_cf cf = mkCF (norm_v3 (cf_pos cf)) (norm_m3 (cf_rot cf)).
  Proof. reflexivity. Qed.
  Lemma m3eq_norm m : m3eq m (norm_m3 m).
  Proof. repeat split; apply feq32_norm. Qed.
  Lemma cfeq_fixed cf : rot_fixed (cf_rot cf) = true -> cfeq (norm_cframe cf) (norm_cf cf).
  Proof.
    intro Hf. apply mat3_eqb_eq in Hf. unfold norm_cframe. rewrite Hf, norm_cf_parts. split; cbn [cf_pos cf_rot]; [apply v3eq_norm|apply m3eq_norm].
  Qed.

  Lemma bin_cframe cf : cframe_ok cf = true -> bin_back c dc (VCFrame cf) (VCFrame (norm_cframe cf)).
  Proof. intro Hc. pose proof (col_roundtrip_cframe c dc [cf] [] (F1 (fun cf => cframe_ok cf = true) cf Hc)) as H. bin_single H. Qed.
  Lemma xml_cframe cf tag evs : display_law o all32 ->
    write_xml o (VCFrame cf) = Some (tag, Ok evs) -> xml_rt o tag evs (VCFrame (norm_cf cf)).
  Proof. intros dl H. xml_tag_of H. exact (cframe_roundtrip_all o cf evs dl H). Qed.
  Theorem cross_cframe cf vb vx : display_law o all32 -> cframe_scope cf = true ->
    bin_back c dc (VCFrame cf) vb -> xml_back o (VCFrame cf) vx -> nan_equiv vb vx.
  Proof.
    intros dl Hs. apply andb_true_iff in Hs. destruct Hs as [Hc Hf].
    apply (cross_from c dc o _ _ _ (bin_cframe cf Hc) (fun t e => xml_cframe cf t e dl)). now apply cfeq_fixed.
  Qed.

  (* the differing class, exactly: whenever norm_rot moves the rotation the two read-backs are NOT related, because the
     basis it moves to has no NaN entry and differs from the matrix in at least one entry *)
  Definition vec3_nonan (v : vec3) : bool := negb (f32_is_nan (vx v)) && negb (f32_is_nan (vy v)) && negb (f32_is_nan (vz v)).
  Definition mat3_nonan (m : mat3) : bool := vec3_nonan (mx m) && vec3_nonan (my m) && vec3_nonan (mz m).
  Lemma basis_nonan id b : from_basic_rotation_id id = Some b -> mat3_nonan b = true.
  Proof.
    intro Hb. pose proof (from_id_some_in _ _ Hb) as Hin.
    assert (T : forallb (fun id => match from_basic_rotation_id id with Some b => mat3_nonan b | None => false end) rotation_ids = true)
      by (vm_compute; reflexivity).
    rewrite forallb_forall in T. specialize (T id Hin). now rewrite Hb in T.
  Qed.
  Lemma feq32_norm_nonan b x : f32_is_nan b = false -> feq32 b (norm_f32 x) -> b = x.
  Proof.
    intros Hb [E|[Hn _]]; [|congruence]. unfold norm_f32 in E. destruct (f32_is_nan x) eqn:Ex; [|exact E].
    subst b. discriminate Hb.
  Qed.
  Lemma v3eq_norm_nonan b v : vec3_nonan b = true -> v3eq b (norm_v3 v) -> b = v.
  Proof.
    intros Hb (H1 & H2 & H3). unfold vec3_nonan in Hb. apply andb_true_iff in Hb. destruct Hb as [Hb B3].
    apply andb_true_iff in Hb. destruct Hb as [B1 B2]. apply negb_true_iff in B1, B2, B3.
    destruct b as [x y z], v as [x' y' z']. cbn [vx vy vz norm_v3] in *.
    rewrite (feq32_norm_nonan _ _ B1 H1), (feq32_norm_nonan _ _ B2 H2), (feq32_norm_nonan _ _ B3 H3). reflexivity.
  Qed.
  Lemma m3eq_norm_nonan b m : mat3_nonan b = true -> m3eq b (norm_m3 m) -> b = m.
  Proof.
    intros Hb (H1 & H2 & H3). unfold mat3_nonan in Hb. apply andb_true_iff in Hb. destruct Hb as [Hb B3].
    apply andb_true_iff in Hb. destruct Hb as [B1 B2]. destruct b as [x y z], m as [x' y' z']. cbn [mx my mz norm_m3] in *.
    rewrite (v3eq_norm_nonan _ _ B1 H1), (v3eq_norm_nonan _ _ B2 H2), (v3eq_norm_nonan _ _ B3 H3). reflexivity.
  Qed.
  Lemma norm_rot_moved_not_related m : norm_rot m <> m -> ~ m3eq (norm_rot m) (norm_m3 m).
  Proof.
    intros Hne Hm. destruct (to_basic_rotation_id m) as [id|] eqn:E; [|now rewrite (norm_rot_no_id _ E) in Hne].
    pose proof (norm_rot_id _ _ E) as Hb. apply Hne. exact (m3eq_norm_nonan _ _ (basis_nonan _ _ Hb) Hm).
  Qed.

  Theorem cross_cframe_differs cf vb vx : display_law o all32 -> cframe_ok cf = true -> rot_fixed (cf_rot cf) = false ->
    bin_back c dc (VCFrame cf) vb -> xml_back o (VCFrame cf) vx ->
    vb = VCFrame (mkCF (cf_pos cf) (norm_rot (cf_rot cf))) /\ vx = VCFrame (norm_cf cf) /\ ~ nan_equiv vb vx.
  Proof.
    intros dl Hc Hf Hb Hx.
    assert (Eb : vb = VCFrame (norm_cframe cf)) by exact (bin_back_fun _ _ _ _ _ Hb (bin_cframe cf Hc)).
    assert (Ex : vx = VCFrame (norm_cf cf)).
    { destruct Hx as (tag & evs & W & R). apply (xml_back_fun o (VCFrame cf)); [exists tag, evs; now split|].
      exists tag, evs. split; [exact W|]. now apply xml_cframe. }
    subst vb vx. split; [reflexivity|]. split; [reflexivity|]. intros [_ Hm]. cbn [norm_cframe cf_rot] in Hm. rewrite norm_cf_parts in Hm.
    cbn [cf_rot] in Hm. revert Hm. apply norm_rot_moved_not_related. intro E. apply mat3_eqb_eq in E. unfold rot_fixed in Hf. congruence.
  Qed.

  (* OptionalCFrame *)
  Definition ocf_scope (x : option cframe) : bool := match x with Some cf => cframe_scope cf | None => true end.
  Lemma bin_ocf x : ocf_ok x = true -> bin_back c dc (VOptionalCFrame x) (VOptionalCFrame (norm_ocf x)).
  Proof. intro Hc. pose proof (col_roundtrip_optionalcframe c dc [x] [] (F1 (fun o => ocf_ok o = true) x Hc)) as H. bin_single H. Qed.
  Lemma xml_ocf x tag evs : display_law o all32 ->
    write_xml o (VOptionalCFrame x) = Some (tag, Ok evs) -> xml_rt o tag evs (VOptionalCFrame (option_map norm_cf x)).
  Proof. intros dl H. xml_tag_of H. exact (optional_cframe_roundtrip_all o x evs dl H). Qed.
  Lemma ocf_scope_ok x : ocf_scope x = true -> ocf_ok x = true.
  Proof. destruct x as [cf|]; [|reflexivity]. cbn. intro H. apply andb_true_iff in H. exact (proj1 H). Qed.
  Theorem cross_ocf x vb vx : display_law o all32 -> ocf_scope x = true ->
    bin_back c dc (VOptionalCFrame x) vb -> xml_back o (VOptionalCFrame x) vx -> nan_equiv vb vx.
  Proof.
    intros dl Hs. apply (cross_from c dc o _ _ _ (bin_ocf x (ocf_scope_ok x Hs)) (fun t e => xml_ocf x t e dl)).
    destruct x as [cf|]; cbn; [|exact I]. cbn in Hs. apply andb_true_iff in Hs. apply cfeq_fixed. exact (proj2 Hs).
  Qed.
  Theorem cross_ocf_differs cf vb vx : display_law o all32 -> cframe_ok cf = true -> rot_fixed (cf_rot cf) = false ->
    bin_back c dc (VOptionalCFrame (Some cf)) vb -> xml_back o (VOptionalCFrame (Some cf)) vx ->
    vb = VOptionalCFrame (Some (mkCF (cf_pos cf) (norm_rot (cf_rot cf)))) /\ vx = VOptionalCFrame (Some (norm_cf cf)) /\
    ~ nan_equiv vb vx.
  Proof.
    intros dl Hc Hf Hb Hx.
    assert (Eb : vb = VOptionalCFrame (norm_ocf (Some cf))) by exact (bin_back_fun _ _ _ _ _ Hb (bin_ocf (Some cf) Hc)).
    assert (Ex : vx = VOptionalCFrame (option_map norm_cf (Some cf))).
    { destruct Hx as (tag & evs & W & R). apply (xml_back_fun o (VOptionalCFrame (Some cf))); [exists tag, evs; now split|].
      exists tag, evs. split; [exact W|]. now apply xml_ocf. }
    subst vb vx. split; [reflexivity|]. split; [reflexivity|]. cbn. intros [_ Hm]. rewrite norm_cf_parts in Hm.
    cbn [cf_rot] in Hm. revert Hm. apply norm_rot_moved_not_related. intro E. apply mat3_eqb_eq in E. unfold rot_fixed in Hf. congruence.
  Qed.

  (* ---------------- Font: binary turns the cached face id Some "" into None, XML keeps it; weight and style are read back
     unchanged by both for the values the Rust enums can hold *)
  Definition cached_empty (f : font) : bool := match fo_cached f with Some [] => true | _ => false end.
  Definition font_scope (lim : option N) (f : font) : bool := font_ok lim f && negb (cached_empty f).
  Lemma font_ok_xml f lim : font_ok lim f = true -> fo_weight f < 65536 /\ XmlCompound2.norm_font f = f.
  Proof.
    intro H. unfold font_ok in H. apply andb_true_iff in H. destruct H as [H _]. apply andb_true_iff in H. destruct H as [H Hs].
    apply andb_true_iff in H. destruct H as [_ Hw]. destruct (AttrFacts.font_weight_u16 _ Hw) as [Hw16 _]. split; [exact Hw16|].
    apply N.leb_le in Hs. unfold XmlCompound2.norm_font.
    assert (Ew : font_weight_ok (fo_weight f) = true).
    { unfold font_weights in Hw. cbn [mem] in Hw. unfold font_weight_ok.
      repeat match type of Hw with (if ?a =? ?b then _ else _) = _ => destruct (a =? b); [reflexivity|] end. discriminate Hw. }
    rewrite Ew. destruct f as [fam w st ca]. cbn [fo_style fo_weight fo_family fo_cached] in *. f_equal.
    destruct (N.eqb_spec st 0) as [->|Hne]; [reflexivity|]. lia.
  Qed.
  Lemma bin_font f : font_ok (dc_lim dc) f = true -> bin_back c dc (VFont f) (VFont (BinValuesFacts3.norm_font f)).
  Proof. intro Hf. pose proof (col_roundtrip_font c dc [f] [] (F1 (fun f => font_ok (dc_lim dc) f = true) f Hf)) as H. bin_single H. Qed.
  Lemma xml_font f tag evs : font_ok (dc_lim dc) f = true ->
    write_xml o (VFont f) = Some (tag, Ok evs) -> xml_rt o tag evs (VFont f).
  Proof.
    intros Hf H. destruct (font_ok_xml f _ Hf) as [Hw En]. xml_tag_of H. pose proof (font_roundtrip o f evs Hw H) as R. rewrite En in R. exact R.
  Qed.
  Theorem cross_font f vb vx : font_scope (dc_lim dc) f = true ->
    bin_back c dc (VFont f) vb -> xml_back o (VFont f) vx -> nan_equiv vb vx.
  Proof.
    intro Hs. apply andb_true_iff in Hs. destruct Hs as [Hf Hc].
    apply (cross_from c dc o _ _ _ (bin_font f Hf) (fun t e => xml_font f t e Hf)). cbn [nan_equiv].
    apply norm_font_id. intro E. unfold cached_empty in Hc. rewrite E in Hc. discriminate Hc.
  Qed.
  Theorem cross_font_differs f vb vx : font_ok (dc_lim dc) f = true -> cached_empty f = true ->
    bin_back c dc (VFont f) vb -> xml_back o (VFont f) vx ->
    vb = VFont (mkFont (fo_family f) (fo_weight f) (fo_style f) None) /\ vx = VFont f /\ ~ nan_equiv vb vx.
  Proof.
    intros Hf Hc Hb Hx.
    assert (Eb : vb = VFont (BinValuesFacts3.norm_font f)) by exact (bin_back_fun _ _ _ _ _ Hb (bin_font f Hf)).
    assert (Ex : vx = VFont f).
    { destruct Hx as (tag & evs & W & R). apply (xml_back_fun o (VFont f)); [exists tag, evs; now split|].
      exists tag, evs. split; [exact W|]. now apply xml_font. }
    subst vb vx. unfold cached_empty in Hc. destruct f as [fam w st [[|x s]|]]; try discriminate Hc.
    split; [reflexivity|]. split; [reflexivity|]. cbn. discriminate.
  Qed.
  (* ---------------- BrickColor: binary reads a BrickColor back, read_value_xml reads the <int> the XML writer wrote as an
     Int32 — structurally different values.  The XML reader's conversion step (conversion.rs, [try_convert] to the type the
     database declares) turns it into the same BrickColor: the two agree at the property level, not at the raw value level. *)
  Definition brick_scope (n : N) : bool := (n <? 65536) && brick_valid n.
  Lemma bin_brick n : brick_scope n = true -> bin_back c dc (VBrickColor n) (VBrickColor n).
  Proof.
    intro Hs. apply andb_true_iff in Hs. destruct Hs as [Hn Hv]. apply N.ltb_lt in Hn.
    pose proof (col_roundtrip_brickcolor c dc [n] [] (F1 (fun v => v < 65536 /\ brick_valid v = true) n (conj Hn Hv))) as H. bin_single H.
  Qed.
  Lemma xml_brick n tag evs : n <? 65536 = true ->
    write_xml o (VBrickColor n) = Some (tag, Ok evs) -> xml_rt o tag evs (VInt32 (Z.of_N n)).
  Proof.
    intros Hn H. apply N.ltb_lt in Hn. xml_tag_of H. destruct (brickcolor_roundtrip o n [] Hn) as [W _]. rewrite W in H. injection H as <-.
    intro name. eexists. split; [apply chan_text_element|]. exact (proj2 (brickcolor_roundtrip o n name Hn)).
  Qed.
  Theorem cross_brickcolor_differs n vb vx : brick_scope n = true ->
    bin_back c dc (VBrickColor n) vb -> xml_back o (VBrickColor n) vx ->
    vb = VBrickColor n /\ vx = VInt32 (Z.of_N n) /\ ~ nan_equiv vb vx /\ try_convert o vx XT_BrickColor = Ok vb.
  Proof.
    intros Hs Hb Hx. pose proof Hs as Hs'. apply andb_true_iff in Hs'. destruct Hs' as [Hn Hv].
    assert (Eb : vb = VBrickColor n) by exact (bin_back_fun _ _ _ _ _ Hb (bin_brick n Hs)).
    assert (Ex : vx = VInt32 (Z.of_N n)).
    { destruct Hx as (tag & evs & W & R). apply (xml_back_fun o (VBrickColor n)); [exists tag, evs; now split|].
      exists tag, evs. split; [exact W|]. now apply xml_brick. }
    subst vb vx. split; [reflexivity|]. split; [reflexivity|]. split; [intro H; exact H|].
    apply N.ltb_lt in Hn. cbn [try_convert]. change (XT_BrickColor =? XT_Int64) with false. change (XT_BrickColor =? XT_BrickColor) with true.
    cbv iota. rewrite N2Z.id, Hv.
    replace ((0 <=? Z.of_N n)%Z) with true by (symmetry; apply Z.leb_le; lia).
    replace ((Z.of_N n <=? 65535)%Z) with true by (symmetry; apply Z.leb_le; lia). reflexivity.
  Qed.

  (* ---------------- Content with an object reference: binary carries it (through the referent numbering), the XML writer
     panics (`todo!`, F13) — there is no XML read-back to compare with *)
  Theorem cross_content_object_differs r :
    ~ xml_writes o (VContent (CObject r)) /\ (forall vx, ~ xml_back o (VContent (CObject r)) vx) /\
    (in_i32 (ref_id c r) = true -> lim_ok (dc_lim dc) 4 = true ->
     bin_back c dc (VContent (CObject r)) (VContent (CObject (dc_resolve dc (ref_id c r))))).
  Proof.
    split; [|split].
    - intros (tag & evs & W). cbn [write_xml] in W. discriminate W.
    - intros vx (tag & evs & W & _). cbn [write_xml] in W. discriminate W.
    - intros Hr Hl.
      assert (H : exists b, enc_col WContent c (List.map VContent [CObject r]) = Ok b /\
                            dec_col WContent VT_Content dc (length [CObject r]) (b ++ [])
                            = Ok (List.map (fun x => VContent (content_back c dc x)) [CObject r], [])).
      { apply col_roundtrip_content; [reflexivity|apply lim_ok_0|exact Hl|exact (F1 (fun x => content_ok c dc x = true) (CObject r) Hr)]. }
      cbn [List.map length content_back] in H. bin_single H.
  Qed.

  (* ---------------- NumberSequence / ColorSequence with fewer than two keypoints: binary reads them back, the XML reader
     rejects what the XML writer wrote (C02_*_empty_not_read_back) *)
  Theorem cross_nseq_empty_differs :
    bin_back c dc (VNumberSequence []) (VNumberSequence []) /\ xml_writes o (VNumberSequence []) /\
    forall vx, ~ xml_back o (VNumberSequence []) vx.
  Proof.
    split; [|split].
    - assert (Hs : nseq_ok (dc_lim dc) [] = true) by (unfold nseq_ok; cbn [length forallb]; rewrite lim_ok_0; reflexivity).
      pose proof (col_roundtrip_numbersequence c dc [[]] [] (F1 (fun k => nseq_ok (dc_lim dc) k = true) [] Hs)) as H. bin_single H.
    - eexists. eexists. reflexivity.
    - intros vx (tag & evs & W & R). destruct (number_sequence_empty_not_read_back o []) as (W' & C & E).
      rewrite W' in W. injection W as <- <-. destruct (R []) as (revs & C' & V). rewrite C in C'. injection C' as <-.
      rewrite E in V. discriminate V.
  Qed.
  Theorem cross_cseq_empty_differs :
    bin_back c dc (VColorSequence []) (VColorSequence []) /\ xml_writes o (VColorSequence []) /\
    forall vx, ~ xml_back o (VColorSequence []) vx.
  Proof.
    split; [|split].
    - assert (Hs : cseq_ok (dc_lim dc) [] = true) by (unfold cseq_ok; cbn [length forallb]; rewrite lim_ok_0; reflexivity).
      pose proof (col_roundtrip_colorsequence c dc [[]] [] (F1 (fun k => cseq_ok (dc_lim dc) k = true) [] Hs)) as H. bin_single H.
    - eexists. eexists. reflexivity.
    - intros vx (tag & evs & W & R). destruct (color_sequence_empty_not_read_back o []) as (W' & C & E).
      rewrite W' in W. injection W as <- <-. destruct (R []) as (revs & C' & V). rewrite C in C'. injection C' as <-.
      rewrite E in V. discriminate V.
  Qed.

  (* ---------------- variants that only one of the two value codecs implements (no cross statement possible) *)
  Lemma bin_back_needs_wire v vb : bin_back c dc v vb -> from_rbx_type (vtype v) <> None.
  Proof. intros (ty & E & _). congruence. Qed.
  Theorem one_format_only :
    (forall x y vb, ~ bin_back c dc (VVector2int16 x y) vb) /\                 (* no binary wire type *)
    (forall a b vb, ~ bin_back c dc (VRegion3 a b) vb) /\ (forall a b vx, ~ xml_back o (VRegion3 a b) vx) /\
    (forall a b vb, ~ bin_back c dc (VRegion3int16 a b) vb) /\ (forall a b vx, ~ xml_back o (VRegion3int16 a b) vx) /\
    (forall m vb, ~ bin_back c dc (VAttributes m) vb) /\                       (* Type::from_rbx_type has no arm for Attributes *)
    (forall t n vx, ~ xml_back o (VEnumItem t n) vx) /\                        (* UnsupportedPropertyType *)
    (forall r vx, ~ xml_back o (VRef r) vx) /\ (forall s vx, ~ xml_back o (VSharedString s) vx).   (* serializer state: XmlFile *)
  Proof.
    repeat split; intros; intro H;
      try (apply bin_back_needs_wire in H; apply H; reflexivity);
      destruct H as (tag & evs & W & _); cbn [write_xml] in W; discriminate W.
  Qed.
End PerType.

(* ================================================================ 3b. Tags and MaterialColors: blobs in both formats *)
(* Both codecs carry these two variants as a byte blob — binary in a String column (the reader decodes the blob when the
   database declares the type), XML as base64 in a <BinaryString> element that read_value_xml returns as a BinaryString and
   conversion.rs decodes.  There is no round-trip theorem for them in Proofs/Xml*.v or BinValuesFacts*.v; the two small ones
   needed are proved here from the same building blocks (read_bstr_app, b64_roundtrip, the channel calculus). *)
Section Blobs.
  Variable c : enc_ctx.
  Variable dc : dec_ctx.
  Variable o : xoracle.

  (* a blob both carriers take: fits the u32 length field and the reader's allocation limit; bytes *)
  Definition blob_scope (lim : option N) (b : bytes) : bool :=
    (N.of_nat (length b) <? 4294967296) && lim_ok lim (N.of_nat (length b)) && bytes_ok b.
  Lemma blob_scope_parts lim b : blob_scope lim b = true ->
    N.of_nat (length b) < 2 ^ 32 /\ lim_ok lim (N.of_nat (length b)) = true /\ Forall (fun x => x < 256) b.
  Proof.
    unfold blob_scope. intro H. apply andb_true_iff in H. destruct H as [H Hb]. apply andb_true_iff in H. destruct H as [Hl Hlim].
    apply N.ltb_lt in Hl. split; [exact Hl|]. split; [exact Hlim|]. now apply bytes_ok_Forall.
  Qed.

  (* XML: <BinaryString> holding base64 text written with write_string comes back as the blob *)
  Lemma xml_blob_rt blob : Forall (fun x => x < 256) blob ->
    xml_rt o (B "BinaryString") (w_string (b64_encode blob)) (VBinaryString blob).
  Proof.
    intro HF. apply xml_rt_of_roundtrip.
    apply (roundtrip_step o VBinaryString "BinaryString" x_base64 _ (text_events (b64_encode blob)) blob); [reflexivity|apply chan_body_text|].
    intros e rest He. unfold x_base64, xbind. rewrite (reads_chars (b64_encode blob) e rest He).
    unfold strip_ws. rewrite strip_ws_go_syms; [|lia|apply b64_encode_syms; exact HF]. rewrite b64_roundtrip by exact HF. reflexivity.
  Qed.

  (* binary: one blob in a String column, any reader-side interpretation [f] of the bytes (stated for the BinaryString
     carrier; Tags and MaterialColors put the same bytes in the column) *)
  Lemma read_blob_step blob (f : bytes -> parser value) rest :
    N.of_nat (length blob) < 2 ^ 32 -> lim_ok (dc_lim dc) (N.of_nat (length blob)) = true ->
    (s <== read_bstr (dc_lim dc) ;; f s) (w_bstr blob ++ rest) = f blob rest.
  Proof. intros Hl Hlim. unfold pbind. rewrite (BinValuesFacts3.read_bstr_app _ _ _ Hl Hlim). reflexivity. Qed.
  Lemma bin_blob_col cty blob (f : bytes -> parser value) v' :
    N.of_nat (length blob) < 2 ^ 32 -> lim_ok (dc_lim dc) (N.of_nat (length blob)) = true ->
    f blob [] = Ok (v', []) ->
    dec_col WString cty dc 1 = prepeat 1 (s <== read_bstr (dc_lim dc) ;; f s) ->
    bin_back_at WString cty c dc (VBinaryString blob) v'.
  Proof.
    intros Hl Hlim Hf Hd. exists (w_bstr blob ++ []). split; [reflexivity|]. rewrite Hd. cbn [prepeat]. rewrite !app_nil_r.
    rewrite <- (app_nil_r (w_bstr blob)). unfold pbind at 1. rewrite (read_blob_step blob f [] Hl Hlim), Hf. reflexivity.
  Qed.

  (* ---------------- MaterialColors: the same encoder and the same decoder on both sides *)
  Definition matcol_back (m : list (N * (N * N * N))) : value :=
    match matcol_decode (matcol_encode m) with Some m' => VMaterialColors m' | None => VBinaryString (matcol_encode m) end.
  (* the blob is always 69 bytes (6 reserved + 21 colours); the scope predicate is stated on that length so that no proof has
     to evaluate [length (matcol_encode m)] on a variable [m] by conversion *)
  Lemma matcol_body_length m : forall defs i, length (matcol_body i defs m) = (3 * length defs)%nat.
  Proof.
    induction defs as [|[[dr dg] db] defs IH]; intro i; [reflexivity|]. cbn [matcol_body]. rewrite app_length, IH.
    destruct (lookup i m) as [[[r g] b]|]; cbn [length]; lia.
  Qed.
  Lemma matcol_encode_length m : length (matcol_encode m) = 69%nat.
  Proof. unfold matcol_encode. rewrite app_length, matcol_body_length. reflexivity. Qed.
  Definition matcol_scope (lim : option N) (m : list (N * (N * N * N))) : bool := lim_ok lim 69 && bytes_ok (matcol_encode m).
  Lemma matcol_scope_parts lim m : matcol_scope lim m = true ->
    N.of_nat (length (matcol_encode m)) < 2 ^ 32 /\ lim_ok lim (N.of_nat (length (matcol_encode m))) = true /\
    Forall (fun x => x < 256) (matcol_encode m).
  Proof.
    unfold matcol_scope. intro H. apply andb_true_iff in H. destruct H as [Hl Hb]. rewrite matcol_encode_length.
    split; [reflexivity|]. split; [exact Hl|]. now apply bytes_ok_Forall.
  Qed.

  Lemma bin_matcol m : matcol_scope (dc_lim dc) m = true -> bin_back c dc (VMaterialColors m) (matcol_back m).
  Proof.
    intro Hs. destruct (matcol_scope_parts _ _ Hs) as (Hl & Hlim & _). exists WString. split; [reflexivity|].
    destruct (bin_blob_col VT_MaterialColors (matcol_encode m)
                (fun s => pret (match matcol_decode s with Some m => VMaterialColors m | None => VBinaryString s end))
                (matcol_back m) Hl Hlim eq_refl eq_refl) as (b & He & Hd).
    exists b. split; [exact He|exact Hd].
  Qed.
  Lemma xml_matcol m tag evs : matcol_scope (dc_lim dc) m = true ->
    write_xml o (VMaterialColors m) = Some (tag, Ok evs) -> xml_rt o tag evs (VBinaryString (matcol_encode m)).
  Proof.
    intros Hs H. destruct (matcol_scope_parts _ _ Hs) as (_ & _ & HF). xml_tag_of H. cbn [write_xml] in H.
    apply some_pair_inv in H. apply ok_inj in H. subst evs. apply xml_blob_rt. exact HF.
  Qed.
  Lemma matcol_convert m : try_convert o (VBinaryString (matcol_encode m)) (vtype (VMaterialColors m)) = Ok (matcol_back m).
  Proof. cbn [try_convert vtype]. unfold matcol_back. destruct (matcol_decode (matcol_encode m)); reflexivity. Qed.

  (* ---------------- Tags: the two crates' models of Tags::encode / Tags::decode (BinValues.v, Tags.v) are the same functions *)
  Lemma tags_encode_same ts : BinValues.tags_encode ts = Tags.tags_encode ts.
  Proof. induction ts as [|t r IH]; [reflexivity|]. cbn [BinValues.tags_encode Tags.tags_encode]. destruct r; [reflexivity|]. now rewrite IH. Qed.
  Lemma split0_same b : forall cur, BinValues.split0 cur b = let (p, ps) := Tags.split0 b in (rev cur ++ p) :: ps.
  Proof.
    induction b as [|x r IH]; intro cur; cbn [BinValues.split0 Tags.split0].
    - rewrite rev_append_rev, !app_nil_r. reflexivity.
    - rewrite (IH []), (IH (x :: cur)). destruct (Tags.split0 r) as [p ps]. destruct (x =? 0).
      + rewrite rev_append_rev, !app_nil_r. cbn [rev app]. reflexivity.
      + cbn [rev]. rewrite <- app_assoc. reflexivity.
  Qed.
  Definition tags_norm (ts : list bytes) : list bytes :=
    filter (fun p => match p with [] => false | _ => true end) (Tags.pieces (Tags.tags_encode ts)).
  Lemma collect_utf8_forallb ps : collect_utf8 ps = if forallb utf8_valid ps then Ok ps else Err ERR_TAGS_UTF8.
  Proof.
    induction ps as [|p r IH]; [reflexivity|]. cbn [collect_utf8 forallb]. destruct (utf8_valid p); [|reflexivity].
    rewrite IH. destruct (forallb utf8_valid r); reflexivity.
  Qed.
  Lemma tags_decode_bin ts : BinValues.tags_decode (BinValues.tags_encode ts) = if forallb utf8_valid (tags_norm ts) then Some (tags_norm ts) else None.
  Proof.
    unfold BinValues.tags_decode, tags_norm, Tags.pieces. rewrite tags_encode_same, (split0_same _ []).
    destruct (Tags.split0 (Tags.tags_encode ts)) as [p ps]. reflexivity.
  Qed.
  Lemma tags_decode_xml ts : Tags.tags_decode (Tags.tags_encode ts) = if forallb utf8_valid (tags_norm ts) then Ok (tags_norm ts) else Err ERR_TAGS_UTF8.
  Proof.
    unfold Tags.tags_decode, tags_norm. rewrite collect_utf8_forallb.
    assert (E : forall l, filter (fun p : bytes => negb match p with [] => true | _ => false end) l
                        = filter (fun p : bytes => match p with [] => false | _ => true end) l).
    { intro l. apply filter_ext. intros [|x a]; reflexivity. }
    rewrite E. reflexivity.
  Qed.

  (* the list both readers return: empty members dropped, members split at NUL bytes *)
  Definition tags_scope (lim : option N) (ts : list bytes) : bool :=
    blob_scope lim (Tags.tags_encode ts) && forallb utf8_valid (tags_norm ts).
  Lemma bin_tags ts : tags_scope (dc_lim dc) ts = true -> bin_back c dc (VTags ts) (VTags (tags_norm ts)).
  Proof.
    intro Hs. apply andb_true_iff in Hs. destruct Hs as [Hs Hu]. destruct (blob_scope_parts _ _ Hs) as (Hl & Hlim & _).
    rewrite <- tags_encode_same in Hl, Hlim. exists WString. split; [reflexivity|].
    assert (Hf : (fun s => match BinValues.tags_decode s with Some ts => pret (VTags ts) | None => pfail E_INVALID_DATA end)
                   (BinValues.tags_encode ts) [] = Ok (VTags (tags_norm ts), [])).
    { cbv beta. rewrite tags_decode_bin, Hu. reflexivity. }
    destruct (bin_blob_col VT_Tags (BinValues.tags_encode ts) _ _ Hl Hlim Hf eq_refl) as (b & He & Hd).
    exists b. split; [exact He|exact Hd].
  Qed.
  Lemma xml_tags ts tag evs : tags_scope (dc_lim dc) ts = true ->
    write_xml o (VTags ts) = Some (tag, Ok evs) -> xml_rt o tag evs (VBinaryString (Tags.tags_encode ts)).
  Proof.
    intros Hs H. apply andb_true_iff in Hs. destruct Hs as [Hs _]. destruct (blob_scope_parts _ _ Hs) as (_ & _ & HF).
    xml_tag_of H. cbn [write_xml] in H. apply some_pair_inv in H. apply ok_inj in H. subst evs. apply xml_blob_rt. exact HF.
  Qed.
  Lemma tags_convert ts : tags_scope (dc_lim dc) ts = true ->
    try_convert o (VBinaryString (Tags.tags_encode ts)) (vtype (VTags ts)) = Ok (VTags (tags_norm ts)).
  Proof.
    intro Hs. apply andb_true_iff in Hs. destruct Hs as [_ Hu]. cbn [try_convert vtype]. change (32 =? XT_Tags) with true. cbv iota.
    rewrite tags_decode_xml, Hu. reflexivity.
  Qed.
  (* before the conversion the two read-backs are different variants (as for BrickColor) *)
  Theorem cross_tags_differs_raw ts vb vx : tags_scope (dc_lim dc) ts = true ->
    bin_back c dc (VTags ts) vb -> xml_back o (VTags ts) vx ->
    vb = VTags (tags_norm ts) /\ vx = VBinaryString (Tags.tags_encode ts) /\ ~ nan_equiv vb vx /\
    try_convert o vx (vtype (VTags ts)) = Ok vb.
  Proof.
    intros Hs Hb (tag & evs & W & R).
    assert (Eb : vb = VTags (tags_norm ts)) by exact (bin_back_fun _ _ _ _ _ Hb (bin_tags ts Hs)).
    assert (Ex : vx = VBinaryString (Tags.tags_encode ts)).
    { apply (xml_back_fun o (VTags ts)); [exists tag, evs; now split|]. exists tag, evs. split; [exact W|]. now apply xml_tags. }
    subst vb vx. split; [reflexivity|]. split; [reflexivity|]. split; [intro H; exact H|]. now apply tags_convert.
  Qed.
End Blobs.

(* ================================================================ 4. the summary *)
(* the values on which the two value codecs can be compared and agree: per constructor the conjunction of the ranges the two
   round-trip theorems ask for, minus exactly the differing classes — a CFrame / OptionalCFrame whose rotation norm_rot moves
   (cross_cframe_differs, cross_ocf_differs), a Font with cached face id Some "" (cross_font_differs), a BrickColor (read back
   as Int32 by read_value_xml: cross_brickcolor_differs; see cross_scope_typed), Content with an object reference
   (cross_content_object_differs), sequences with fewer than two keypoints (cross_nseq_empty_differs, cross_cseq_empty_differs) —
   the variants only one codec implements (one_format_only), and Tags / MaterialColors, which read_value_xml returns as a
   BinaryString (cross_tags_differs_raw; in scope after the conversion: cross_scope_typed). *)
Definition cross_scope (lim : option N) (v : value) : bool :=
  match v with
  | VAxes n => n <? 8
  | VBinaryString s => bstring_scope lim s
  | VBool _ => true
  | VBrickColor _ => false
  | VCFrame cf => cframe_scope cf
  | VColor3 r g b => color3_scope r g b
  | VColor3uint8 r g b => c3u8_scope r g b
  | VColorSequence k => cseq_scope lim k
  | VContentId s => str_ok lim s
  | VEnum n => n <? 4294967296
  | VFaces n => n <? 64
  | VFloat32 x => f32_ok x
  | VFloat64 x => f64_ok x
  | VInt32 z => in_i32 z
  | VInt64 z => in_i64 z
  | VNumberRange lo hi => nrange_scope lo hi
  | VNumberSequence k => nseq_scope lim k
  | VPhysicalProperties p => physopt_ok p
  | VRay a b => ray_scope a b
  | VRect a b => rect_scope a b
  | VString s => string_scope lim s
  | VUDim u => udim_ok u
  | VUDim2 x y => udim2_scope x y
  | VVector2 p => vec2_ok p
  | VVector3 p => vec3_ok p
  | VVector3int16 x y z => v3i16_scope x y z
  | VOptionalCFrame x => ocf_scope x
  | VFont f => font_scope lim f
  | VUniqueId i t r => uid_ok (i, t, r)
  | VSecurityCapabilities n => n <? 18446744073709551616
  | VContent x => content_scope lim x
  | VRef _ | VRegion3 _ _ | VRegion3int16 _ _ | VSharedString _ | VVector2int16 _ _ | VTags _ | VAttributes _
  | VMaterialColors _ | VEnumItem _ _ => false
  end.
(* the same with the XML reader's conversion to the declared type taken into account: BrickColor joins, and so do Tags and
   MaterialColors (a BinaryString for read_value_xml, decoded by the conversion) *)
Definition cross_scope_typed (lim : option N) (v : value) : bool :=
  match v with
  | VBrickColor n => brick_scope n
  | VTags ts => tags_scope lim ts
  | VMaterialColors m => matcol_scope lim m
  | _ => cross_scope lim v
  end.

(* ConvertVariant::try_convert_cow to the value's own type is the identity *)
Lemma try_convert_own o v : try_convert o v (vtype v) = Ok v.
Proof. destruct v; reflexivity. Qed.

(* the XML reader with a database that declares the property with the value's own type: read_value_xml, then conversion.rs *)
Definition xml_back_typed (o : xoracle) (v vx : value) : Prop :=
  exists vx0, xml_back o v vx0 /\ try_convert o vx0 (vtype v) = Ok vx.

(* both per-format theorems and the comparison, for every value in scope *)
Lemma cross_core c dc o v : xml_oracle_ok o -> cross_scope_typed (dc_lim dc) v = true ->
  exists nb nx, bin_back c dc v nb /\
    (forall tag evs, write_xml o v = Some (tag, Ok evs) -> xml_rt o tag evs nx) /\
    (cross_scope (dc_lim dc) v = true -> nan_equiv nb nx) /\
    exists nx', try_convert o nx (vtype v) = Ok nx' /\ nan_equiv nb nx'.
Proof.
  intros (dl & pl & hz & l64) Hs. pose proof (display_all_float_law o dl) as law.
  assert (G : forall nb nx, bin_back c dc v nb -> (forall tag evs, write_xml o v = Some (tag, Ok evs) -> xml_rt o tag evs nx) ->
              vtype nx = vtype v -> nan_equiv nb nx ->
              exists nb nx, bin_back c dc v nb /\
                (forall tag evs, write_xml o v = Some (tag, Ok evs) -> xml_rt o tag evs nx) /\
                (cross_scope (dc_lim dc) v = true -> nan_equiv nb nx) /\
                exists nx', try_convert o nx (vtype v) = Ok nx' /\ nan_equiv nb nx').
  { intros nb nx Hb Hx Ht Hn. exists nb, nx. split; [exact Hb|]. split; [exact Hx|]. split; [intros _; exact Hn|].
    exists nx. split; [rewrite <- Ht; apply try_convert_own|exact Hn]. }
  destruct v; cbn [cross_scope_typed cross_scope] in Hs; try discriminate Hs.
  - (* Axes *) apply (G _ _ (bin_axes c dc _ Hs) (fun t e => xml_axes o _ t e Hs) eq_refl). apply nan_equiv_refl.
  - (* BinaryString *) apply (G _ _ (bin_bstring c dc _ Hs) (fun t e => xml_bstring dc o _ t e Hs) eq_refl). apply nan_equiv_refl.
  - (* Bool *) apply (G _ _ (bin_bool c dc _) (xml_bool o _) eq_refl). apply nan_equiv_refl.
  - (* BrickColor *)
    exists (VBrickColor n), (VInt32 (Z.of_N n)). split; [exact (bin_brick c dc n Hs)|].
    pose proof Hs as Hs'. apply andb_true_iff in Hs'. destruct Hs' as [Hn Hv].
    split; [intros t e; exact (xml_brick o n t e Hn)|]. split; [intro F; discriminate F|].
    exists (VBrickColor n). split; [|apply nan_equiv_refl].
    apply N.ltb_lt in Hn. cbn [try_convert vtype]. change (3 =? XT_Int64) with false. change (3 =? XT_BrickColor) with true.
    cbv iota. rewrite N2Z.id, Hv.
    replace ((0 <=? Z.of_N n)%Z) with true by (symmetry; apply Z.leb_le; lia).
    replace ((Z.of_N n <=? 65535)%Z) with true by (symmetry; apply Z.leb_le; lia). reflexivity.
  - (* CFrame *) pose proof Hs as Hs'. apply andb_true_iff in Hs'. destruct Hs' as [Hc Hf].
    apply (G _ _ (bin_cframe c dc _ Hc) (fun t e => xml_cframe o _ t e dl) eq_refl). now apply cfeq_fixed.
  - (* Color3 *) apply (G _ _ (bin_color3 c dc _ _ _ Hs) (fun t e => xml_color3 o _ _ _ t e law) eq_refl). cbn [nan_equiv]. auto with feq.
  - (* Color3uint8 *) apply (G _ _ (bin_c3u8 c dc _ _ _) (fun t e => xml_c3u8 o _ _ _ t e Hs) eq_refl). apply nan_equiv_refl.
  - (* ColorSequence *) apply (G _ _ (bin_cseq c dc _ Hs) (fun t e => xml_cseq dc o _ t e dl pl hz Hs) eq_refl).
    cbn [nan_equiv]. apply all2_map_r. apply kp4eq_norm.
  - (* ContentId *) apply (G _ _ (bin_contentid c dc _ Hs) (xml_contentid o _) eq_refl). apply nan_equiv_refl.
  - (* Enum *) apply (G _ _ (bin_enum c dc _ Hs) (fun t e => xml_enum o _ t e Hs) eq_refl). apply nan_equiv_refl.
  - (* Faces *) apply (G _ _ (bin_faces c dc _ Hs) (fun t e => xml_faces o _ t e Hs) eq_refl). apply nan_equiv_refl.
  - (* Float32 *) apply (G _ _ (bin_float32 c dc _ Hs) (fun t e => xml_float32 o _ t e law Hs) eq_refl). apply feq32_norm.
  - (* Float64 *) apply (G _ _ (bin_float64 c dc _ Hs) (fun t e => xml_float64 o _ t e l64) eq_refl). apply feq64_norm.
  - (* Int32 *) apply (G _ _ (bin_int32 c dc _ Hs) (fun t e => xml_int32 o _ t e Hs) eq_refl). apply nan_equiv_refl.
  - (* Int64 *) apply (G _ _ (bin_int64 c dc _ Hs) (fun t e => xml_int64 o _ t e Hs) eq_refl). apply nan_equiv_refl.
  - (* NumberRange *) apply (G _ _ (bin_nrange c dc _ _ Hs) (fun t e => xml_nrange o _ _ t e dl pl) eq_refl). split; apply feq32_norm.
  - (* NumberSequence *) apply (G _ _ (bin_nseq c dc _ Hs) (fun t e => xml_nseq dc o _ t e dl pl Hs) eq_refl).
    cbn [nan_equiv]. apply all2_map_r. apply kp3eq_norm.
  - (* PhysicalProperties *) apply (G _ _ (bin_phys c dc _ Hs) (fun t e => xml_phys o _ t e law) eq_refl). apply physeq_norm.
  - (* Ray *) apply (G _ _ (bin_ray c dc _ _ Hs) (fun t e => xml_ray o _ _ t e law) eq_refl). split; apply v3eq_norm.
  - (* Rect *) apply (G _ _ (bin_rect c dc _ _ Hs) (fun t e => xml_rect o _ _ t e law) eq_refl). split; apply v2eq_norm.
  - (* String *) apply (G _ _ (bin_string c dc _ Hs) (xml_string o _) eq_refl). apply nan_equiv_refl.
  - (* UDim *) apply (G _ _ (bin_udim c dc _ Hs) (fun t e => xml_udim o _ t e law Hs) eq_refl). apply udeq_norm.
  - (* UDim2 *) apply (G _ _ (bin_udim2 c dc _ _ Hs) (fun t e => xml_udim2 o _ _ t e law Hs) eq_refl). split; apply udeq_norm.
  - (* Vector2 *) apply (G _ _ (bin_vector2 c dc _ Hs) (fun t e => xml_vector2 o _ t e law) eq_refl). apply v2eq_norm.
  - (* Vector3 *) apply (G _ _ (bin_vector3 c dc _ Hs) (fun t e => xml_vector3 o _ t e law) eq_refl). apply v3eq_norm.
  - (* Vector3int16 *) apply (G _ _ (bin_v3i16 c dc _ _ _ Hs) (fun t e => xml_v3i16 o _ _ _ t e Hs) eq_refl). apply nan_equiv_refl.
  - (* OptionalCFrame *) apply (G _ _ (bin_ocf c dc _ (ocf_scope_ok _ Hs)) (fun t e => xml_ocf o _ t e dl) eq_refl).
    destruct c0 as [cf|]; cbn; [|exact I]. cbn in Hs. apply andb_true_iff in Hs. apply cfeq_fixed. exact (proj2 Hs).
  - (* Tags *)
    exists (VTags (tags_norm ts)), (VBinaryString (Tags.tags_encode ts)). split; [exact (bin_tags c dc ts Hs)|].
    split; [intros t e; exact (xml_tags dc o ts t e Hs)|]. split; [intro F; discriminate F|].
    exists (VTags (tags_norm ts)). split; [exact (tags_convert dc o ts Hs)|apply nan_equiv_refl].
  - (* Font *) pose proof Hs as Hs'. apply andb_true_iff in Hs'. destruct Hs' as [Hf Hc].
    apply (G _ _ (bin_font c dc _ Hf) (fun t e => xml_font dc o _ t e Hf) eq_refl). cbn [nan_equiv].
    apply norm_font_id. intro E. unfold cached_empty in Hc. rewrite E in Hc. discriminate Hc.
  - (* UniqueId *) apply (G _ _ (bin_uid c dc _ _ _ Hs) (fun t e => xml_uid o _ _ _ t e Hs) eq_refl). apply nan_equiv_refl.
  - (* MaterialColors *)
    exists (matcol_back m), (VBinaryString (matcol_encode m)). split; [exact (bin_matcol c dc m Hs)|].
    split; [intros t e; exact (xml_matcol dc o m t e Hs)|]. split; [intro F; discriminate F|].
    exists (matcol_back m). split; [exact (matcol_convert o m)|apply nan_equiv_refl].
  - (* SecurityCapabilities *) apply (G _ _ (bin_seccap c dc _ Hs) (fun t e => xml_seccap o _ t e Hs) eq_refl). apply nan_equiv_refl.
  - (* Content *) apply (G _ _ (bin_content c dc _ Hs) (xml_content o _) eq_refl). apply nan_equiv_refl.
Qed.

Lemma cross_scope_typed_of lim v : cross_scope lim v = true -> cross_scope_typed lim v = true.
Proof. destruct v; cbn [cross_scope_typed cross_scope]; intro H; try exact H; discriminate H. Qed.

(* C3: for every value in scope, what the binary reader gives back and what read_value_xml gives back are nan_equiv *)
Theorem cross_format_values_agree c dc o v :
  xml_oracle_ok o -> cross_scope (dc_lim dc) v = true ->
  forall vb vx, bin_back c dc v vb -> xml_back o v vx -> nan_equiv vb vx.
Proof.
  intros Ho Hs. destruct (cross_core c dc o v Ho (cross_scope_typed_of _ _ Hs)) as (nb & nx & Hb & Hx & Hn & _).
  exact (cross_from c dc o v nb nx Hb Hx (Hn Hs)).
Qed.

(* ... and both read-backs exist as soon as the XML writer accepts the value (its float texts are available): the
   statement above is not vacuous *)
Theorem cross_format_values_exist c dc o v :
  xml_oracle_ok o -> cross_scope (dc_lim dc) v = true -> xml_writes o v ->
  exists vb vx, bin_back c dc v vb /\ xml_back o v vx /\ nan_equiv vb vx.
Proof.
  intros Ho Hs Hw. destruct (cross_core c dc o v Ho (cross_scope_typed_of _ _ Hs)) as (nb & nx & Hb & Hx & Hn & _).
  exact (cross_exists c dc o v nb nx Hb Hx (Hn Hs) Hw).
Qed.

(* the same at the property level: the XML reader converts what it read to the declared type (here the value's own type);
   BrickColor is then in scope as well *)
Theorem cross_format_values_agree_typed c dc o v :
  xml_oracle_ok o -> cross_scope_typed (dc_lim dc) v = true ->
  forall vb vx, bin_back c dc v vb -> xml_back_typed o v vx -> nan_equiv vb vx.
Proof.
  intros Ho Hs vb vx Hb (vx0 & (tag & evs & W & R) & Hc).
  destruct (cross_core c dc o v Ho Hs) as (nb & nx & Hb' & Hx & _ & nx' & Hc' & Hn).
  rewrite (bin_back_fun _ _ _ _ _ Hb Hb').
  assert (E : vx0 = nx).
  { apply (xml_back_fun o v); [exists tag, evs; now split|]. exists tag, evs. split; [exact W|]. now apply Hx. }
  subst vx0. rewrite Hc in Hc'. injection Hc' as ->. exact Hn.
Qed.
Theorem cross_format_values_exist_typed c dc o v :
  xml_oracle_ok o -> cross_scope_typed (dc_lim dc) v = true -> xml_writes o v ->
  exists vb vx, bin_back c dc v vb /\ xml_back_typed o v vx /\ nan_equiv vb vx.
Proof.
  intros Ho Hs (tag & evs & W). destruct (cross_core c dc o v Ho Hs) as (nb & nx & Hb & Hx & _ & nx' & Hc & Hn).
  exists nb, nx'. split; [exact Hb|]. split; [|exact Hn]. exists nx. split; [|exact Hc].
  exists tag, evs. split; [exact W|]. now apply Hx.
Qed.

(* ================================================================ 5. the lift to property lists and property maps *)
(* ---------------------------------------------------------------- 5a. the name side: both decoders file a property under the
   same canonical name, convert to the same declared type and apply the same migration (from C06_desc_lookup_agree) *)
Lemma xml_loop_canonical : forall d f c pn canon ser,
  find_desc_xml_loop f d c pn = Ok (Some (canon, ser)) -> exists s, pd_kind canon = KCanon s /\ s <> PDoesNot.
Proof.
  intros d. induction f as [|f IH]; intros c pn canon ser H; cbn [find_desc_xml_loop] in H; [discriminate|].
  assert (G : forall q s, pd_kind q = KCanon s -> ser_from_canon_xml c q s = Ok (Some (canon, ser)) ->
              exists s, pd_kind canon = KCanon s /\ s <> PDoesNot).
  { intros q s Kq Hs. destruct s; cbn [ser_from_canon_xml] in Hs; try discriminate Hs.
    - injection Hs as <- _. exists PSerializes. split; [exact Kq|discriminate].
    - destruct (find_prop (cd_props c) name); [|discriminate Hs]. injection Hs as <- _. exists (PSerAs name). split; [exact Kq|discriminate].
    - injection Hs as <- _. exists (PMigrate to op). split; [exact Kq|discriminate]. }
  destruct (find_prop (cd_props c) pn) as [p|].
  - destruct (pd_kind p) as [s|t] eqn:Kp; [exact (G p s Kp H)|].
    destruct (find_prop (cd_props c) t) as [q|]; [|discriminate].
    destruct (pd_kind q) as [s|t'] eqn:Kq; [exact (G q s Kq H)|discriminate].
  - destruct (cd_super c) as [sn|]; [|discriminate].
    destruct (get_class d sn); [eauto|discriminate].
Qed.
Lemma xml_lookup_canonical d cn pn canon ser :
  find_desc_xml d cn pn = Ok (Some (canon, ser)) -> exists s, pd_kind canon = KCanon s /\ s <> PDoesNot.
Proof. unfold find_desc_xml. destruct (get_class d cn); [apply xml_loop_canonical|discriminate]. Qed.

(* the migration a canonical descriptor asks for *)
Definition mig_of (canon : pdesc) : option (bytes * migop) :=
  match pd_kind canon with KCanon (PMigrate to op) => Some (B to, op) | _ => None end.

Theorem cross_names d ty class pname : db_coherent d = true ->
  (* described: the same canonical name, declared type and migration on both sides *)
  (exists canon ser,
     find_desc_xml d (S_ class) (S_ pname) = Ok (Some (canon, ser)) /\
     find_canonical_property d ty class pname = Ok (Some (B (pd_name canon), XmlFile.dtype_vt (pd_type canon), mig_of canon))) \/
  (* unknown to both: kept under the serialized name, in the wire type's default VariantType *)
  (find_desc_xml d (S_ class) (S_ pname) = Ok None /\
   find_canonical_property d ty class pname = Ok (Some (pname, to_default_rbx_type ty, None))) \/
  (* does not serialize: the binary reader skips the chunk, the XML reader treats the element as an unknown property *)
  (find_desc_xml d (S_ class) (S_ pname) = Ok None /\ find_canonical_property d ty class pname = Ok None).
Proof.
  intro Hd. unfold find_canonical_property, S_.
  destruct (DbFacts.desc_lookup_agree d Hd (string_of_bytes class) (string_of_bytes pname))
    as [[Eb Ex]|[(canon & ser & Eb & Ex)|(canon & Hk & Eb & Ex)]]; rewrite Eb; cbn [rbind].
  - right. left. split; [exact Ex|reflexivity].
  - left. exists canon, ser. split; [exact Ex|]. destruct (xml_lookup_canonical _ _ _ _ _ Ex) as (s & Ks & Hs).
    unfold mig_of. rewrite Ks. destruct s; try reflexivity. now elim Hs.
  - right. right. split; [exact Ex|]. rewrite Hk. reflexivity.
Qed.

(* ---------------------------------------------------------------- 5b. related property lists *)
Definition prop_rel (a b : bytes * value) : Prop := fst a = fst b /\ nan_equiv (snd a) (snd b).
Definition props_rel : list (bytes * value) -> list (bytes * value) -> Prop := Forall2 prop_rel.

Lemma props_rel_refl l : props_rel l l.
Proof. induction l; constructor; [split; [reflexivity|apply nan_equiv_refl]|assumption]. Qed.

Lemma beqb_eq a : forall b, bytes_eqb a b = true <-> a = b.
Proof.
  induction a as [|x a IH]; intros [|y b]; cbn [bytes_eqb]; split; intro H; try discriminate H; try reflexivity.
  - apply andb_true_iff in H. destruct H as [H1 H2]. apply N.eqb_eq in H1. apply IH in H2. now subst.
  - injection H as -> ->. rewrite N.eqb_refl. cbn. now apply IH.
Qed.
Lemma beqb_sym a b : bytes_eqb a b = bytes_eqb b a.
Proof.
  destruct (bytes_eqb a b) eqn:E.
  - apply beqb_eq in E. subst. symmetry. now apply beqb_eq.
  - destruct (bytes_eqb b a) eqn:E'; [|reflexivity]. apply beqb_eq in E'. subst. rewrite (proj2 (beqb_eq a a) eq_refl) in E. discriminate E.
Qed.

Lemma bremove_rel k a b : props_rel a b -> props_rel (bremove k a) (bremove k b).
Proof.
  induction 1 as [|[k1 v1] [k2 v2] a b [Hk Hv] _ IH]; [constructor|]. cbn [fst snd] in Hk, Hv. subst k2. cbn [bremove].
  destruct (bytes_eqb k k1); [exact IH|]. constructor; [now split|exact IH].
Qed.
Lemma bupd_rel k v v' a b : nan_equiv v v' -> props_rel a b -> props_rel (bupd k v a) (bupd k v' b).
Proof. intros Hv H. unfold bupd. constructor; [now split|now apply bremove_rel]. Qed.
Lemma bfind_rel k a b : props_rel a b -> opt_rel nan_equiv (bfind k a) (bfind k b).
Proof.
  induction 1 as [|[k1 v1] [k2 v2] a b [Hk Hv] _ IH]; [exact I|]. cbn [fst snd] in Hk, Hv. subst k2. cbn [bfind].
  destruct (bytes_eqb k k1); [exact Hv|exact IH].
Qed.
Lemma bfind_rel_none k a b : props_rel a b -> (bfind k a = None <-> bfind k b = None).
Proof. intro H. pose proof (bfind_rel k a b H) as R. destruct (bfind k a), (bfind k b); cbn in R; try contradiction; split; congruence. Qed.

Lemma collect_props_snoc l k v : collect_props (l ++ [(k, v)]) = bupd k v (collect_props l).
Proof. unfold collect_props. rewrite fold_left_app. reflexivity. Qed.

Lemma bfind_bremove k k' (m : list (bytes * value)) : bfind k (bremove k' m) = if bytes_eqb k k' then None else bfind k m.
Proof.
  induction m as [|[k1 v1] m IH]; cbn [bremove bfind]; [now destruct (bytes_eqb k k')|].
  destruct (bytes_eqb k' k1) eqn:E1.
  - apply beqb_eq in E1. subst k1. rewrite IH. destruct (bytes_eqb k k'); reflexivity.
  - cbn [bfind]. rewrite IH. destruct (bytes_eqb k k') eqn:E; [|reflexivity].
    apply beqb_eq in E. subst k'. now rewrite E1.
Qed.
Lemma bfind_bupd k k' v (m : list (bytes * value)) : bfind k (bupd k' v m) = if bytes_eqb k k' then Some v else bfind k m.
Proof. unfold bupd. cbn [bfind]. destruct (bytes_eqb k k') eqn:E; [reflexivity|]. rewrite bfind_bremove, E. reflexivity. Qed.

(* `builder.has_property(name)` on the binary reader's Vec of pushed properties = presence in the map it becomes *)
Lemma collect_props_has k l :
  existsb (fun kv : bytes * value => bytes_eqb (fst kv) k) l = match bfind k (collect_props l) with Some _ => true | None => false end.
Proof.
  induction l as [|[k1 v1] l IH] using rev_ind; [reflexivity|].
  rewrite existsb_app, collect_props_snoc, bfind_bupd, IH. cbn [existsb fst]. rewrite orb_false_r, (beqb_sym k1 k).
  destruct (bytes_eqb k k1); [apply orb_true_r|apply orb_false_r].
Qed.

(* migrations do not look at float components: related inputs give related outputs *)
Lemma migrate_rel ft bt op a b : nan_equiv a b -> opt_rel nan_equiv (migrate ft bt op a) (migrate ft bt op b).
Proof.
  intro H. destruct a; destruct b; try (exfalso; exact H); cbn [nan_equiv] in H; destruct op; cbn [migrate]; try exact I; subst;
    repeat match goal with |- context [match ?x with _ => _ end] => destruct x end; cbn [opt_rel]; try exact I; apply nan_equiv_refl.
Qed.

(* ---------------------------------------------------------------- 5c. the two decoders' property steps *)
From RbxVerif Require Import CodecDom BinRoundTrip.

(* one decoded property: canonical name, migration, value (after the column decoder / after read_value_xml + conversion) *)
Definition pitem : Type := bytes * option (bytes * migop) * value.
Definition pi_name (x : pitem) : bytes := fst (fst x).
Definition pi_mig (x : pitem) : option (bytes * migop) := snd (fst x).
Definition pi_val (x : pitem) : value := snd x.
(* the two decoders saw the same property: same canonical name and migration (cross_names), related values (section 4) *)
Definition pitem_rel (a b : pitem) : Prop := pi_name a = pi_name b /\ pi_mig a = pi_mig b /\ nan_equiv (pi_val a) (pi_val b).

(* binary: Instance::add_property on the Vec of properties ([add_prop] of BinRoundTrip = [add_property] of the model on the
   property list, add_property_props); the DOM's map is [collect_props] of the final Vec *)
Definition bin_props (p : dec_params) (items : list pitem) : list (bytes * value) :=
  collect_props (fold_left (fun props x => add_prop p props (pi_name x) (pi_mig x) (pi_val x)) items []).

(* XML: the tail of deserialize_property once the value has been read and converted; None = Err(MigrationError) *)
Definition xml_add_prop (ft : font_table) (bt : brick_table) (props : list (bytes * value)) (name : bytes)
                        (mig : option (bytes * migop)) (v : value) : option (list (bytes * value)) :=
  match mig with
  | Some (newname, op) =>
      match bfind newname props with
      | Some _ => Some props
      | None => match migrate ft bt op v with Some nv => Some (bupd newname nv props) | None => None end
      end
  | None => Some (bupd name v props)
  end.
Fixpoint xml_props_from (ft : font_table) (bt : brick_table) (props : list (bytes * value)) (items : list pitem)
  : option (list (bytes * value)) :=
  match items with
  | [] => Some props
  | x :: r => match xml_add_prop ft bt props (pi_name x) (pi_mig x) (pi_val x) with
              | Some props' => xml_props_from ft bt props' r
              | None => None
              end
  end.
Definition xml_props (ft : font_table) (bt : brick_table) (items : list pitem) : option (list (bytes * value)) :=
  xml_props_from ft bt [] items.

(* [xml_add_prop] is what the model's deserialize_property does with a described property whose element holds a plain value *)
Lemma deserialize_property_described e beh class id ty pname st props revs canon ser v rest conv :
  beh <> DNoReflection ->
  find_desc_xml (xe_db e) (S_ class) (S_ pname) = Ok (Some (canon, ser)) ->
  read_value_xml (xe_o e) ty revs = Ok (RVal v, rest) ->
  try_convert (xe_o e) v (XmlFile.dtype_vt (pd_type canon)) = Ok conv ->
  deserialize_property e beh class id ty pname st props revs =
  match xml_add_prop (xe_font e) (xe_brick e) props (B (pd_name canon)) (mig_of canon) conv with
  | Some props' => Ok ((st, props'), rest)
  | None => Err DE_MIGRATION
  end.
Proof.
  intros Hb Hd Hr Hc. unfold deserialize_property.
  assert (E1 : (if bytes_eqb pname (B "Name")
                then match beh with
                     | DNoReflection => Ok false
                     | _ => d <- find_desc_xml (xe_db e) (S_ class) (S_ pname) ;; Ok (match d with None => true | Some _ => false end)
                     end
                else Ok false) = Ok false).
  { destruct (bytes_eqb pname (B "Name")); [|reflexivity]. rewrite Hd. destruct beh; reflexivity. }
  unfold xbind at 1. rewrite E1. cbn [xlift].
  assert (E2 : match beh with DNoReflection => Ok None | _ => find_desc_xml (xe_db e) (S_ class) (S_ pname) end = Ok (Some (canon, ser))).
  { destruct beh; try exact Hd. now elim Hb. }
  unfold xbind at 1. rewrite E2. cbn [xlift].
  unfold xbind at 1. unfold read_prop_value, xbind at 1. rewrite Hr. cbn [xret].
  unfold xbind at 1. change (bytes_of_string (pd_name canon)) with (B (pd_name canon)). rewrite Hc. cbn [xlift].
  unfold xml_add_prop, mig_of. destruct (pd_kind canon) as [[| |nm|to op]|t]; try reflexivity.
  change (bytes_of_string to) with (B to). destruct (bfind (B to) props); [reflexivity|].
  destruct (migrate (xe_font e) (xe_brick e) op conv); reflexivity.
Qed.

(* ---------------------------------------------------------------- 5d. C4: the decoded property maps are related *)
Lemma add_prop_collect p props name mig v :
  collect_props (add_prop p props name mig v) =
  match mig with
  | Some (newname, op) =>
      match bfind newname (collect_props props) with
      | Some _ => collect_props props
      | None => match migrate (dp_font p) (dp_brick p) op v with
                | Some nv => bupd newname nv (collect_props props)
                | None => collect_props props
                end
      end
  | None => bupd name v (collect_props props)
  end.
Proof.
  unfold add_prop. destruct mig as [[newname op]|]; [|apply collect_props_snoc].
  rewrite (collect_props_has newname props). destruct (bfind newname (collect_props props)); [reflexivity|].
  destruct (migrate (dp_font p) (dp_brick p) op v); [apply collect_props_snoc|reflexivity].
Qed.

Lemma cross_props_from p : forall itemsB itemsX PB MX MX',
  Forall2 pitem_rel itemsB itemsX ->
  props_rel (collect_props PB) MX ->
  xml_props_from (dp_font p) (dp_brick p) MX itemsX = Some MX' ->
  props_rel (collect_props (fold_left (fun props x => add_prop p props (pi_name x) (pi_mig x) (pi_val x)) itemsB PB)) MX'.
Proof.
  intros itemsB itemsX PB MX MX' HF. revert PB MX MX'.
  induction HF as [|a b itemsB itemsX (Hn & Hm & Hv) _ IH]; intros PB MX MX' Hrel Hx; cbn [fold_left xml_props_from] in *.
  - injection Hx as <-. exact Hrel.
  - destruct (xml_add_prop (dp_font p) (dp_brick p) MX (pi_name b) (pi_mig b) (pi_val b)) as [MX1|] eqn:E; [|discriminate Hx].
    apply (IH _ MX1 MX'); [|exact Hx]. rewrite add_prop_collect. rewrite Hn, Hm. unfold xml_add_prop in E.
    destruct (pi_mig b) as [[newname op]|].
    + pose proof (bfind_rel newname _ _ Hrel) as Rf.
      destruct (bfind newname (collect_props PB)) as [x|], (bfind newname MX) as [y|]; cbn [opt_rel] in Rf; try contradiction.
      * injection E as <-. exact Hrel.
      * pose proof (migrate_rel (dp_font p) (dp_brick p) op _ _ Hv) as Rm.
        destruct (migrate (dp_font p) (dp_brick p) op (pi_val a)) as [nv|], (migrate (dp_font p) (dp_brick p) op (pi_val b)) as [nv'|];
          cbn [opt_rel] in Rm; try contradiction; try discriminate E.
        injection E as <-. now apply bupd_rel.
    + injection E as <-. now apply bupd_rel.
Qed.

(* C4.  The two decoders saw, in the same order, the same properties under the same canonical names (cross_names) with related
   values (cross_format_values_agree_typed): if the XML reader completes, the two property maps are related entry by entry, and
   so is every lookup.  [bin_props] is the shape of the conclusion of BinRoundTrip.file_values_roundtrip (bin_props_read_props
   below); [xml_props] is what deserialize_property computes (deserialize_property_described). *)
Theorem cross_props p itemsB itemsX MX :
  Forall2 pitem_rel itemsB itemsX ->
  xml_props (dp_font p) (dp_brick p) itemsX = Some MX ->
  props_rel (bin_props p itemsB) MX /\
  forall k, opt_rel nan_equiv (bfind k (bin_props p itemsB)) (bfind k MX).
Proof.
  intros HF Hx. assert (R : props_rel (bin_props p itemsB) MX).
  { apply (cross_props_from p itemsB itemsX [] [] MX HF); [constructor|exact Hx]. }
  split; [exact R|]. intro k. now apply bfind_rel.
Qed.

(* without migrations the XML side cannot fail and both maps are [collect_props] of the (name, value) lists *)
Theorem cross_collect_props lB lX : props_rel lB lX -> props_rel (collect_props lB) (collect_props lX).
Proof.
  intro H. unfold collect_props.
  assert (G : forall a b, props_rel a b ->
              props_rel (fold_left (fun m kv => bupd (fst kv) (snd kv) m) lB a) (fold_left (fun m kv => bupd (fst kv) (snd kv) m) lX b)).
  { induction H as [|[k v] [k' v'] lB lX [Hk Hv] _ IH]; intros a b Hab; cbn [fold_left]; [exact Hab|].
    cbn [fst snd] in *. subst k'. apply IH. now apply bupd_rel. }
  apply G. constructor.
Qed.

(* the step the two readers do NOT share: a migration that fails is skipped by the binary reader (the property is dropped, the
   file still loads) and is an error (MigrationError, the whole decode fails) for the XML reader — the reason for the premise
   `xml_props .. = Some MX` above.  A concrete instance: the legacy `Font` enum value 0 with a font table without entry 0. *)
Theorem cross_migration_failure_differs p props name newname op v :
  migrate (dp_font p) (dp_brick p) op v = None -> bfind newname (collect_props props) = None ->
  add_prop p props name (Some (newname, op)) v = props /\
  xml_add_prop (dp_font p) (dp_brick p) (collect_props props) name (Some (newname, op)) v = None.
Proof.
  intros Hm Hf. unfold add_prop, xml_add_prop. rewrite (collect_props_has newname props), Hf, Hm. split; reflexivity.
Qed.
Definition dp_empty : dec_params := mkDP [] [] (fun _ _ => None) (VUniqueId 0 0 0%Z) None.
Example cross_migration_failure_witness :
  (add_prop dp_empty [] (B "Font") (Some (B "FontFace", MigFont)) (VEnum 0) = []) /\
  (xml_add_prop [] [] [] (B "Font") (Some (B "FontFace", MigFont)) (VEnum 0) = None).
Proof. split; reflexivity. Qed.

(* ---------------------------------------------------------------- 5e. composition with BinRoundTrip.file_values_roundtrip *)
(* the properties the binary reader pushes for the k-th instance of a class: one per PROP chunk other than Name that is not
   skipped, in chunk order ([R] is the reader's side of each column, as in file_values_roundtrip) *)
Definition bin_items (R : column -> col_read) (ct : bytes * type_info) (k : nat) : list pitem :=
  flat_map (fun cp : bytes * prop_info =>
              if bytes_eqb (fst cp) NAME then []
              else match R (ct, cp) with
                   | None => []
                   | Some (name, mig, vs') => match nth_error vs' k with Some v => [(name, mig, v)] | None => [] end
                   end) (ti_props (snd ct)).

Lemma bin_props_read_props p R ct k : collect_props (read_props p R ct k) = bin_props p (bin_items R ct k).
Proof.
  unfold read_props, bin_props, bin_items. f_equal. generalize (@nil (bytes * value)) as acc.
  induction (ti_props (snd ct)) as [|cp l IH]; intro acc; [reflexivity|]. cbn [fold_left flat_map]. rewrite fold_left_app, <- IH. f_equal.
  unfold col_props. destruct (bytes_eqb (fst cp) NAME); [reflexivity|].
  destruct (R (ct, cp)) as [[[name mig] vs']|]; [|reflexivity]. destruct (nth_error vs' k); reflexivity.
Qed.

(* the conclusion of file_values_roundtrip about one decoded instance ([uid_norm] of the column-wise property list), put next
   to an XML reader that saw related properties: the maps are related, or the binary reader regenerated a UniqueId already
   in use (a whole-file rule of WeakDom insertion that only the binary model has) and they are related up to that entry *)
Theorem cross_props_binfile p R ct k iprops itemsX MX :
  uid_norm p (collect_props (read_props p R ct k)) iprops ->
  Forall2 pitem_rel (bin_items R ct k) itemsX ->
  xml_props (dp_font p) (dp_brick p) itemsX = Some MX ->
  props_rel iprops MX \/
  (exists a b c, bfind UNIQUE_ID MX = Some (VUniqueId a b c) /\ props_rel iprops (bupd UNIQUE_ID (dp_fresh_uid p) MX)).
Proof.
  intros Hu HF Hx. rewrite bin_props_read_props in Hu. destruct (cross_props p _ _ _ HF Hx) as [R0 Rf].
  destruct Hu as [->|(a & b & c & Hf & ->)]; [now left|]. right. exists a, b, c. split.
  - specialize (Rf UNIQUE_ID). rewrite Hf in Rf. destruct (bfind UNIQUE_ID MX) as [y|]; cbn [opt_rel] in Rf; [|contradiction].
    destruct y; try (exfalso; exact Rf). cbn [nan_equiv] in Rf. destruct Rf as (-> & -> & ->). reflexivity.
  - apply bupd_rel; [apply nan_equiv_refl|exact R0].
Qed.

(* ---------------------------------------------------------------- 5f. sections 4 and 5 together *)
(* [l]: the explicitly set properties of one source instance as the codecs see them (canonical name and migration from
   cross_names, source value).  If every value is in scope, the binary reader's items are the binary read-backs and the XML
   reader's items the (converted) XML read-backs, then the two item lists are related, hence (cross_props) the property maps. *)
Theorem cross_items_of_values c dc o (l lB lX : list pitem) :
  xml_oracle_ok o ->
  Forall (fun x => cross_scope_typed (dc_lim dc) (pi_val x) = true) l ->
  Forall2 (fun x b => pi_name b = pi_name x /\ pi_mig b = pi_mig x /\ bin_back c dc (pi_val x) (pi_val b)) l lB ->
  Forall2 (fun x b => pi_name b = pi_name x /\ pi_mig b = pi_mig x /\ xml_back_typed o (pi_val x) (pi_val b)) l lX ->
  Forall2 pitem_rel lB lX.
Proof.
  intros Ho Hs HB. revert lX. induction HB as [|x b l lB (Hn & Hm & Hb) _ IH]; intros lX HX; inversion HX as [|x' b' l' lX' (Hn' & Hm' & Hx) HX']; subst.
  - constructor.
  - inversion Hs as [|? ? Hsx Hsl]; subst. constructor; [|exact (IH Hsl _ HX')].
    split; [congruence|]. split; [congruence|]. exact (cross_format_values_agree_typed c dc o _ Ho Hsx _ _ Hb Hx).
Qed.

Theorem cross_dom_props c dc o p (l lB lX : list pitem) MX :
  xml_oracle_ok o ->
  Forall (fun x => cross_scope_typed (dc_lim dc) (pi_val x) = true) l ->
  Forall2 (fun x b => pi_name b = pi_name x /\ pi_mig b = pi_mig x /\ bin_back c dc (pi_val x) (pi_val b)) l lB ->
  Forall2 (fun x b => pi_name b = pi_name x /\ pi_mig b = pi_mig x /\ xml_back_typed o (pi_val x) (pi_val b)) l lX ->
  xml_props (dp_font p) (dp_brick p) lX = Some MX ->
  props_rel (bin_props p lB) MX /\ forall k, opt_rel nan_equiv (bfind k (bin_props p lB)) (bfind k MX).
Proof. intros Ho Hs HB HX Hx. exact (cross_props p lB lX MX (cross_items_of_values c dc o l lB lX Ho Hs HB HX) Hx). Qed.

(* ================================================================ 6. a value under a descriptor of another type *)
(* The database may declare a property with a type other than the value's own: the binary writer puts the value in the column
   of the SERIALIZED descriptor's type (enc_col accepts a few foreign variants), the binary reader decodes with the CANONICAL
   descriptor's type; the XML writer converts to the serialized type first (serialize_property: try_convert), the XML reader
   converts what it read to the canonical type (deserialize_property: try_convert). *)
Definition xml_back_as (o : xoracle) (sty cty : N) (v vx : value) : Prop :=
  exists conv vx0, try_convert o v sty = Ok conv /\ xml_back o conv vx0 /\ try_convert o vx0 cty = Ok vx.

(* `f32 as f64` maps NaNs to NaNs (used for a Float32 column under a Float64 descriptor) *)
Lemma lor_lt_pow2 a b n : a < 2 ^ n -> b < 2 ^ n -> N.lor a b < 2 ^ n.
Proof.
  intros Ha Hb. destruct (N.eq_dec (N.lor a b) 0) as [E|E]; [rewrite E; apply N.neq_0_lt_0; apply N.pow_nonzero; discriminate|].
  apply N.log2_lt_pow2; [lia|]. rewrite N.log2_lor.
  destruct (N.eq_dec a 0) as [->|Ha0]; destruct (N.eq_dec b 0) as [->|Hb0].
  - now elim E.
  - rewrite N.max_r by (cbn; lia). apply N.log2_lt_pow2; lia.
  - rewrite N.max_l by (cbn; lia). apply N.log2_lt_pow2; lia.
  - apply N.max_lub_lt; apply N.log2_lt_pow2; lia.
Qed.

Lemma f64_of_f32_nan x : x < 4294967296 -> f32_is_nan x = true -> f64_is_nan (f64_of_f32 x) = true.
Proof.
  intros Hx Hn. unfold f32_is_nan, f32_abs_bits in Hn. apply N.ltb_lt in Hn.
  assert (He : (x / 8388608) mod 256 = 255).
  { pose proof (N.div_mod x 2147483648 ltac:(discriminate)) as D. pose proof (N.mod_lt x 2147483648 ltac:(discriminate)) as M.
    set (a := x mod 2147483648) in *. set (s := x / 2147483648) in *.
    assert (Hs : s < 2) by (unfold s; apply N.div_lt_upper_bound; lia).
    assert (E : x / 8388608 = s * 256 + a / 8388608).
    { rewrite D. replace (2147483648 * s + a) with (a + s * 256 * 8388608) by lia. rewrite N.div_add by discriminate. lia. }
    rewrite E. assert (Ha : a / 8388608 = 255).
    { apply N.le_antisymm; [assert (a / 8388608 < 256) by (apply N.div_lt_upper_bound; lia); lia|apply N.div_le_lower_bound; lia]. }
    rewrite Ha. replace (s * 256 + 255) with (255 + s * 256) by lia. rewrite N.mod_add by discriminate. reflexivity. }
  assert (Hm : x mod 8388608 <> 0).
  { intro E. pose proof (N.div_mod x 8388608 ltac:(discriminate)) as D. rewrite E in D.
    pose proof (N.div_mod (x / 8388608) 256 ltac:(discriminate)) as D2. rewrite He in D2.
    pose proof (N.div_mod x 2147483648 ltac:(discriminate)) as D3. pose proof (N.mod_lt x 2147483648 ltac:(discriminate)) as M3.
    set (q := x / 8388608 / 256) in *. set (s := x / 2147483648) in *. set (a := x mod 2147483648) in *.
    assert (x = 2147483648 * q + 2139095040) by lia.
    assert (Hq : q = s).
    { unfold s. rewrite H. replace (2147483648 * q + 2139095040) with (2139095040 + q * 2147483648) by lia.
      rewrite N.div_add by discriminate. reflexivity. }
    lia. }
  unfold f64_of_f32. rewrite He. cbn [N.eqb Pos.eqb]. destruct (N.eqb_spec (x mod 8388608) 0) as [E|_]; [now elim Hm|].
  set (m := x mod 8388608) in *. set (L := N.lor (m * 536870912) 2251799813685248).
  assert (HL : L < 4503599627370496).
  { apply (lor_lt_pow2 _ _ 52); [|reflexivity]. pose proof (N.mod_lt x 8388608 ltac:(discriminate)). change (2 ^ 52) with 4503599627370496. unfold m. lia. }
  assert (HL0 : L <> 0).
  { unfold L. intro E. apply N.lor_eq_0_iff in E. destruct E as [_ E]. discriminate E. }
  unfold f64_is_nan. apply N.ltb_lt.
  set (s := x / 2147483648).
  replace (s * 9223372036854775808 + 9218868437227405312 + L) with ((9218868437227405312 + L) + s * 9223372036854775808) by lia.
  rewrite N.mod_add by discriminate. rewrite N.mod_small by lia. lia.
Qed.

Section OtherType.
  Variable c : enc_ctx.
  Variable dc : dec_ctx.
  Variable o : xoracle.

  Lemma xml_back_intro v nx : (forall tag evs, write_xml o v = Some (tag, Ok evs) -> xml_rt o tag evs nx) -> xml_writes o v -> xml_back o v nx.
  Proof. intros H (tag & evs & W). exists tag, evs. split; [exact W|]. now apply H. Qed.
  Lemma xml_back_det v nx vx : (forall tag evs, write_xml o v = Some (tag, Ok evs) -> xml_rt o tag evs nx) -> xml_back o v vx -> vx = nx.
  Proof. intros H (tag & evs & W & R). apply (xml_back_fun o v); [exists tag, evs; now split|]. exists tag, evs. split; [exact W|]. now apply H. Qed.

  (* (a) a Color3 value of a property serialized as Color3uint8 (Part.Color in the bundled database: canonical type Color3,
     serialized as Color3uint8): both readers return the QUANTISED Color3uint8; they agree as soon as the two models are given
     the same quantiser (both stand for `impl From<Color3> for Color3uint8`) *)
  Theorem cross_color3_as_color3uint8 r g b cty vb vx :
    cty = VT_Color3 \/ cty = VT_Color3uint8 ->
    (forall x, xo_quant o x = Some (ec_quant c x) /\ ec_quant c x < 256) ->
    bin_back_at WColor3uint8 cty c dc (VColor3 r g b) vb -> xml_back_as o XT_Color3uint8 cty (VColor3 r g b) vx ->
    vb = VColor3uint8 (ec_quant c r) (ec_quant c g) (ec_quant c b) /\ vx = vb.
  Proof.
    intros Hcty Hq Hb (conv & vx0 & Hc & Hx & Hc').
    assert (Eb : vb = VColor3uint8 (ec_quant c r) (ec_quant c g) (ec_quant c b)).
    { apply (bin_back_at_fun _ _ _ _ _ _ _ Hb). exact (col_quantise_color3_color3uint8 c dc cty [(r, g, b)] [] Hcty). }
    split; [exact Eb|]. subst vb.
    cbn [try_convert] in Hc. change (XT_Color3uint8 =? XT_Color3uint8) with true in Hc. cbv iota in Hc.
    rewrite (proj1 (Hq r)), (proj1 (Hq g)), (proj1 (Hq b)) in Hc. cbn [ask rbind] in Hc. injection Hc as <-.
    assert (Hs : c3u8_scope (ec_quant c r) (ec_quant c g) (ec_quant c b) = true).
    { unfold c3u8_scope. rewrite !andb_true_iff. repeat split; apply N.ltb_lt; apply Hq. }
    rewrite (xml_back_det _ _ _ (fun t e => xml_c3u8 o _ _ _ t e Hs) Hx) in Hc'. cbn [try_convert] in Hc'. now injection Hc'.
  Qed.

  (* (b) an Int32 value of a property declared (and serialized) as Int64 *)
  Theorem cross_int32_as_int64 z vb vx : in_i64 z = true ->
    bin_back_at WInt64 VT_Int64 c dc (VInt32 z) vb -> xml_back_as o XT_Int64 VT_Int64 (VInt32 z) vx -> vb = VInt64 z /\ vx = vb.
  Proof.
    intros Hz Hb (conv & vx0 & Hc & Hx & Hc').
    assert (Eb : vb = VInt64 z).
    { apply (bin_back_at_fun _ _ _ _ _ _ _ Hb). exact (col_roundtrip_int64 c dc [z] [] (F1 _ _ Hz)). }
    split; [exact Eb|]. subst vb. cbn [try_convert] in Hc. change (XT_Int64 =? XT_Int64) with true in Hc. cbv iota in Hc. injection Hc as <-.
    rewrite (xml_back_det _ _ _ (fun t e => xml_int64 o z t e Hz) Hx) in Hc'. cbn [try_convert] in Hc'. now injection Hc'.
  Qed.
  (* (b') an Int32 column (serialized type Int32) of a property whose canonical type is Int64 *)
  Theorem cross_int32_widened z vb vx : in_i32 z = true ->
    bin_back_at WInt32 VT_Int64 c dc (VInt32 z) vb -> xml_back_as o VT_Int32 VT_Int64 (VInt32 z) vx -> vb = VInt64 z /\ vx = vb.
  Proof.
    intros Hz Hb (conv & vx0 & Hc & Hx & Hc').
    assert (Eb : vb = VInt64 z).
    { apply (bin_back_at_fun _ _ _ _ _ _ _ Hb). exact (col_widen_int32_int64 c dc [z] [] (F1 _ _ Hz)). }
    split; [exact Eb|]. subst vb. cbn [try_convert] in Hc. change (VT_Int32 =? XT_Int64) with false in Hc.
    change (VT_Int32 =? XT_BrickColor) with false in Hc. cbv iota in Hc. injection Hc as <-.
    rewrite (xml_back_det _ _ _ (fun t e => xml_int32 o z t e Hz) Hx) in Hc'. cbn [try_convert] in Hc'.
    change (VT_Int64 =? XT_Int64) with true in Hc'. cbv iota in Hc'. now injection Hc'.
  Qed.

  (* (c) a Float32 value of a property declared (and serialized) as Float64: widened by both writers (`as f64`), then the
     usual Float64 agreement *)
  Theorem cross_float32_as_float64 x vb vx : float64_text_law o -> f32_ok x = true ->
    bin_back_at WFloat64 VT_Float64 c dc (VFloat32 x) vb -> xml_back_as o XT_Float64 VT_Float64 (VFloat32 x) vx ->
    vb = VFloat64 (f64_of_f32 x) /\ nan_equiv vb vx.
  Proof.
    intros law Hx Hb (conv & vx0 & Hc & Hxb & Hc').
    assert (Eb : vb = VFloat64 (f64_of_f32 x)).
    { apply (bin_back_at_fun _ _ _ _ _ _ _ Hb).
      exact (col_widen_float32_in_float64_column c dc [x] [] (F1 (fun x => f32_ok x = true) x Hx)). }
    split; [exact Eb|]. subst vb. cbn [try_convert] in Hc. change (XT_Float64 =? XT_Float64) with true in Hc. cbv iota in Hc. injection Hc as <-.
    rewrite (xml_back_det _ _ _ (fun t e => xml_float64 o _ t e law) Hxb) in Hc'. cbn [try_convert] in Hc'. injection Hc' as <-.
    apply feq64_norm.
  Qed.
  (* (c') a Float32 column (serialized type Float32) of a property whose canonical type is Float64: the binary reader widens the
     exact bits, the XML reader widens the canonicalised float — NaN on both sides when the source is a NaN *)
  Theorem cross_float32_widened x vb vx : float_text_law o -> f32_ok x = true ->
    bin_back_at WFloat32 VT_Float64 c dc (VFloat32 x) vb -> xml_back_as o VT_Float32 VT_Float64 (VFloat32 x) vx ->
    vb = VFloat64 (f64_of_f32 x) /\ vx = VFloat64 (f64_of_f32 (norm_f32 x)) /\ nan_equiv vb vx.
  Proof.
    intros law Hx Hb (conv & vx0 & Hc & Hxb & Hc').
    assert (Eb : vb = VFloat64 (f64_of_f32 x)).
    { apply (bin_back_at_fun _ _ _ _ _ _ _ Hb). exact (col_widen_float32_float64 c dc [x] [] (F1 (fun x => f32_ok x = true) x Hx)). }
    split; [exact Eb|]. subst vb. cbn [try_convert] in Hc. change (VT_Float32 =? XT_Float64) with false in Hc. cbv iota in Hc. injection Hc as <-.
    rewrite (xml_back_det _ _ _ (fun t e => xml_float32 o x t e law Hx) Hxb) in Hc'. cbn [try_convert] in Hc'.
    change (VT_Float64 =? XT_Float64) with true in Hc'. cbv iota in Hc'. injection Hc' as <-. split; [reflexivity|].
    cbn [nan_equiv]. unfold norm_f32. destruct (f32_is_nan x) eqn:En; [|now left]. right. split.
    - apply f64_of_f32_nan; [now apply f32_ok_lt|exact En].
    - vm_compute. reflexivity.
  Qed.
End OtherType.

(* ================================================================ 7. non-vacuity: concrete oracle, concrete values, concrete witnesses *)
(* o1 of XmlCompound2 (texts of 0, 1, -1, 0.5, inf, -inf, NaN) extended with the two floats of the snapping witnesses and a
   Float64 entry *)
Definition F64_ONE : f64 := 4607182418800017408.          (* 0x3FF0000000000000 *)
Definition F64_NNAN : f64 := 18444492273895866369.        (* 0xFFF8000000000001: a negative NaN with a payload *)
Definition o2_table : list (f32 * bytes) :=
  [(F32_ZERO, B "0"); (F32_ONE, B "1"); (F32_NEG_ONE, B "-1"); (XmlCompound2.F32_HALF, B "0.5");
   (F32_INF, B "inf"); (F32_NINF, B "-inf"); (F32_NAN, B "NaN"); (F32_NNAN, B "NaN");
   (F32_ONE_PLUS_ULP, B "1.0000001"); (F32_NEG_ZERO, B "-0")].
Definition o2 : xoracle :=
  mkXO (o1_show o2_table) (fun x => if x =? F64_ONE then Some (B "1") else None)
       (o1_parse o2_table) (fun t => if bytes_eqb t (B "1") then Some (Some F64_ONE) else None)
       (fun _ => None) (fun _ => None).

Lemma o2_display_law : display_law o2 all32.
Proof.
  intros x t _ Hs. cbn [o2 xo_show32 xo_parse32] in *. unfold o2_table in Hs. cbn [o1_show] in Hs.
  repeat match type of Hs with
         | (if ?a =? ?k then _ else _) = _ =>
             destruct (N.eqb_spec a k) as [->|_];
             [apply (f_equal (fun o => match o with Some u => u | None => [] end)) in Hs; subst t;
              repeat split; try (vm_compute; reflexivity); discriminate|]
         end.
  discriminate.
Qed.
Lemma o2_plain : show32_plain o2.
Proof.
  intros x t Hs. cbn [o2 xo_show32] in Hs. unfold o2_table in Hs. cbn [o1_show] in Hs.
  repeat match type of Hs with
         | (if ?a =? ?k then _ else _) = _ =>
             destruct (N.eqb_spec a k) as [->|_];
             [apply (f_equal (fun o => match o with Some u => u | None => [] end)) in Hs; subst t;
              split; [discriminate|repeat constructor; vm_compute; reflexivity]|]
         end.
  discriminate.
Qed.
Lemma o2_ok : xml_oracle_ok o2.
Proof.
  split; [exact o2_display_law|]. split; [exact o2_plain|]. split; [exists F32_ZERO; reflexivity|].
  intros x t _ _ _ Hs. cbn [o2 xo_show64 xo_parse64] in *. destruct (N.eqb_spec x F64_ONE) as [->|_]; [|discriminate Hs].
  injection Hs as <-. repeat split; try discriminate.
Qed.

Definition xml_writes_b (o : xoracle) (v : value) : bool := match write_xml o v with Some (_, Ok _) => true | _ => false end.
Lemma xml_writes_b_sound o v : xml_writes_b o v = true -> xml_writes o v.
Proof. unfold xml_writes_b, xml_writes. destruct (write_xml o v) as [[t [evs| | |]]|]; try discriminate. eauto. Qed.

Definition cf_plain : cframe :=                  (* a rotation without a basic rotation id (0.5 * I), non-finite position *)
  mkCF (mkV3 F32_ONE F32_INF F32_NINF) half_identity.
Definition cf_basis : cframe :=                  (* an exact basis (id 0x0a), a NaN in the position *)
  mkCF (mkV3 F32_NNAN XmlCompound2.F32_HALF F32_NEG_ONE) (m9 0 F32_NEG_ONE 0  F32_ONE 0 0  0 0 F32_ONE).

(* one value (or more) of every constructor in scope, with NaNs, infinities, a nil UniqueId, an empty string, a string with outer
   whitespace, both Content forms, both OptionalCFrame forms *)
Definition samples : list value :=
  [VAxes 5; VBinaryString [0; 255; 7]; VBinaryString []; VBool true; VCFrame cf_plain; VCFrame cf_basis;
   VColor3 F32_ONE XmlCompound2.F32_HALF F32_NNAN; VColor3uint8 255 128 7;
   VColorSequence [(0, (F32_ONE, 0, XmlCompound2.F32_HALF)); (F32_ONE, (F32_ONE, F32_NNAN, XmlCompound2.F32_HALF))];
   VContentId (B "rbxassetid://1"); VContentId []; VEnum 7; VFaces 63; VFloat32 F32_NNAN; VFloat32 F32_NEG_ZERO; VFloat64 F64_ONE; VFloat64 F64_NNAN;
   VInt32 (-5); VInt64 1099511627776; VNumberRange F32_NEG_ONE F32_INF;
   VNumberSequence [(0, F32_ONE, 0); (F32_ONE, F32_INF, F32_NNAN)];
   VPhysicalProperties (Some (mkPhys F32_ONE XmlCompound2.F32_HALF 0 F32_NNAN F32_INF)); VPhysicalProperties None;
   VRay (mkV3 0 F32_ONE F32_NNAN) (mkV3 F32_INF 0 0); VRect (mkV2 0 F32_ONE) (mkV2 XmlCompound2.F32_HALF F32_NNAN);
   VString (B " hello ]]> "); VString []; VUDim (mkUDim XmlCompound2.F32_HALF (-5)); VUDim2 (mkUDim F32_NNAN (-5)) (mkUDim F32_NINF 2147483647);
   VVector2 (mkV2 XmlCompound2.F32_HALF F32_NNAN); VVector3 (mkV3 F32_NNAN 0 F32_NEG_ONE); VVector3int16 (-32768) 0 32767;
   VOptionalCFrame None; VOptionalCFrame (Some cf_basis);
   VFont (mkFont (B "rbxasset://x") 700 1 (Some (B "y"))); VFont (mkFont [] 400 0 None);
   VUniqueId 0 0 0; VUniqueId 1 2 (-3); VSecurityCapabilities 5; VContent CNone; VContent (CUri (B "u"))].

Example samples_hypotheses : forallb (fun v => cross_scope None v && xml_writes_b o2 v) samples = true.
Proof. vm_compute. reflexivity. Qed.

(* the summary theorem applies to each of them: both read-backs exist and are related *)
Example samples_agree :
  Forall (fun v => exists vb vx, bin_back ectx0 ctx0 v vb /\ xml_back o2 v vx /\ nan_equiv vb vx) samples.
Proof.
  apply Forall_forall. intros v Hv. pose proof samples_hypotheses as H. rewrite forallb_forall in H. specialize (H v Hv).
  apply andb_true_iff in H. destruct H as [Hs Hw].
  exact (cross_format_values_exist ectx0 ctx0 o2 v o2_ok Hs (xml_writes_b_sound _ _ Hw)).
Qed.

(* the relation is needed, equality would be false: a negative NaN with a payload is kept by the binary codec and
   canonicalised by the XML codec *)
Example sample_nan_related_not_equal :
  bin_back ectx0 ctx0 (VFloat32 F32_NNAN) (VFloat32 F32_NNAN) /\ xml_back o2 (VFloat32 F32_NNAN) (VFloat32 F32_NAN) /\
  VFloat32 F32_NNAN <> VFloat32 F32_NAN /\ nan_equiv (VFloat32 F32_NNAN) (VFloat32 F32_NAN).
Proof.
  split; [apply bin_float32; reflexivity|]. split.
  - apply xml_back_intro; [|apply xml_writes_b_sound; reflexivity].
    intros t e. exact (xml_float32 o2 F32_NNAN t e (display_all_float_law o2 o2_display_law) eq_refl).
  - split; [discriminate|]. right. split; reflexivity.
Qed.

(* ---------------------------------------------------------------- witnesses of the differing classes *)
(* every value of a differing class whose XML writer succeeds has two read-backs that are NOT related *)
Lemma cframe_differs_exists c dc o cf : display_law o all32 -> cframe_ok cf = true -> rot_fixed (cf_rot cf) = false ->
  xml_writes o (VCFrame cf) ->
  exists vb vx, bin_back c dc (VCFrame cf) vb /\ xml_back o (VCFrame cf) vx /\ ~ nan_equiv vb vx.
Proof.
  intros dl Hc Hf Hw. pose proof (bin_cframe c dc cf Hc) as Hb.
  pose proof (xml_back_intro o _ _ (fun t e => xml_cframe o cf t e dl) Hw) as Hx.
  eexists. eexists. split; [exact Hb|]. split; [exact Hx|]. exact (proj2 (proj2 (cross_cframe_differs c dc o cf _ _ dl Hc Hf Hb Hx))).
Qed.

(* (1) within epsilon of the identity: 1 + 2^-23 in a corner *)
Definition cf_near : cframe := mkCF (mkV3 F32_ONE XmlCompound2.F32_HALF F32_NEG_ONE) near_identity.
(* (2) the exact identity with ONE entry -0.0 instead of +0.0: binary reads +0.0 back (the basis of the table), XML reads -0.0 *)
Definition cf_negzero : cframe :=
  mkCF (mkV3 F32_ONE XmlCompound2.F32_HALF F32_NEG_ONE) (m9 F32_ONE F32_NEG_ZERO 0  0 F32_ONE 0  0 0 F32_ONE).

Example cframe_witnesses_hypotheses :
  forallb (fun cf => cframe_ok cf && negb (rot_fixed (cf_rot cf)) && xml_writes_b o2 (VCFrame cf)) [cf_near; cf_negzero] = true.
Proof. vm_compute. reflexivity. Qed.
Example cframe_near_differs :
  exists vb vx, bin_back ectx0 ctx0 (VCFrame cf_near) vb /\ xml_back o2 (VCFrame cf_near) vx /\ ~ nan_equiv vb vx.
Proof. apply (cframe_differs_exists ectx0 ctx0 o2 cf_near o2_display_law); [vm_compute; reflexivity|vm_compute; reflexivity|]. apply xml_writes_b_sound. vm_compute. reflexivity. Qed.
Example cframe_negzero_differs :
  exists vb vx, bin_back ectx0 ctx0 (VCFrame cf_negzero) vb /\ xml_back o2 (VCFrame cf_negzero) vx /\ ~ nan_equiv vb vx.
Proof. apply (cframe_differs_exists ectx0 ctx0 o2 cf_negzero o2_display_law); [vm_compute; reflexivity|vm_compute; reflexivity|]. apply xml_writes_b_sound. vm_compute. reflexivity. Qed.
(* what the two read-backs of (2) are *)
Example cframe_negzero_readbacks :
  bin_back ectx0 ctx0 (VCFrame cf_negzero) (VCFrame (mkCF (cf_pos cf_negzero) mat3_identity)) /\
  xml_back o2 (VCFrame cf_negzero) (VCFrame cf_negzero).
Proof.
  split; [exact (bin_cframe ectx0 ctx0 cf_negzero eq_refl)|].
  apply (xml_back_intro o2 _ _ (fun t e => xml_cframe o2 cf_negzero t e o2_display_law)). apply xml_writes_b_sound. reflexivity.
Qed.
Example ocf_near_differs :
  exists vb vx, bin_back ectx0 ctx0 (VOptionalCFrame (Some cf_near)) vb /\ xml_back o2 (VOptionalCFrame (Some cf_near)) vx /\ ~ nan_equiv vb vx.
Proof.
  pose proof (bin_ocf ectx0 ctx0 (Some cf_near) eq_refl) as Hb.
  assert (Hx : xml_back o2 (VOptionalCFrame (Some cf_near)) (VOptionalCFrame (option_map norm_cf (Some cf_near)))).
  { apply (xml_back_intro o2 _ _ (fun t e => xml_ocf o2 (Some cf_near) t e o2_display_law)). apply xml_writes_b_sound. reflexivity. }
  eexists. eexists. split; [exact Hb|]. split; [exact Hx|].
  exact (proj2 (proj2 (cross_ocf_differs ectx0 ctx0 o2 cf_near _ _ o2_display_law eq_refl eq_refl Hb Hx))).
Qed.

(* Font with cached face id Some "" *)
Definition font_empty_cached : font := mkFont (B "rbxasset://x") 400 0 (Some []).
Example font_differs :
  font_ok None font_empty_cached = true /\ cached_empty font_empty_cached = true /\
  bin_back ectx0 ctx0 (VFont font_empty_cached) (VFont (mkFont (B "rbxasset://x") 400 0 None)) /\
  xml_back o2 (VFont font_empty_cached) (VFont font_empty_cached) /\
  ~ nan_equiv (VFont (mkFont (B "rbxasset://x") 400 0 None)) (VFont font_empty_cached).
Proof.
  split; [reflexivity|]. split; [reflexivity|].
  pose proof (bin_font ectx0 ctx0 font_empty_cached eq_refl) as Hb.
  assert (Hx : xml_back o2 (VFont font_empty_cached) (VFont font_empty_cached)).
  { apply (xml_back_intro o2 _ _ (fun t e => xml_font ctx0 o2 font_empty_cached t e eq_refl)). apply xml_writes_b_sound. reflexivity. }
  split; [exact Hb|]. split; [exact Hx|].
  exact (proj2 (proj2 (cross_font_differs ectx0 ctx0 o2 font_empty_cached _ _ eq_refl eq_refl Hb Hx))).
Qed.

(* BrickColor 194 (Medium stone grey): Int32 from read_value_xml, the same BrickColor after the reader's conversion *)
Example brickcolor_differs :
  brick_scope 194 = true /\ bin_back ectx0 ctx0 (VBrickColor 194) (VBrickColor 194) /\
  xml_back o2 (VBrickColor 194) (VInt32 194) /\ ~ nan_equiv (VBrickColor 194) (VInt32 194) /\
  xml_back_typed o2 (VBrickColor 194) (VBrickColor 194).
Proof.
  split; [reflexivity|]. pose proof (bin_brick ectx0 ctx0 194 eq_refl) as Hb.
  assert (Hx : xml_back o2 (VBrickColor 194) (VInt32 194)).
  { apply (xml_back_intro o2 _ _ (fun t e => xml_brick o2 194 t e eq_refl)). apply xml_writes_b_sound. reflexivity. }
  split; [exact Hb|]. split; [exact Hx|]. split; [intro H; exact H|]. exists (VInt32 194). split; [exact Hx|reflexivity].
Qed.
Example brickcolor_typed_in_scope :
  cross_scope None (VBrickColor 194) = false /\ cross_scope_typed None (VBrickColor 194) = true /\ xml_writes o2 (VBrickColor 194).
Proof. split; [reflexivity|]. split; [reflexivity|]. apply xml_writes_b_sound. reflexivity. Qed.

(* the scope conditions that are ranges are needed too: a String that is not UTF-8 comes back different from the binary file
   (from_utf8_lossy) and unchanged from the XML file *)
Example string_scope_needed :
  string_scope None [255] = false /\
  enc_then_dec WString VT_Str ectx0 ctx0 [VString [255]] = Ok ([VString [239; 191; 189]], []) /\
  xml_back o2 (VString [255]) (VString [255]).
Proof.
  split; [reflexivity|]. split; [vm_compute; reflexivity|].
  apply (xml_back_intro o2 _ _ (xml_string o2 [255])). apply xml_writes_b_sound. reflexivity.
Qed.

(* ---------------------------------------------------------------- C4 on concrete property lists *)
(* the binary reader saw a negative NaN, the XML reader the canonical NaN; a migrating legacy property; a repeated name *)
Definition itemsB_ex : list pitem :=
  [(B "Transparency", None, VFloat32 F32_NNAN); (B "IgnoreGuiInset", Some (B "ScreenInsets", MigInset), VBool true);
   (B "Anchored", None, VBool false); (B "Transparency", None, VFloat32 XmlCompound2.F32_HALF)].
Definition itemsX_ex : list pitem :=
  [(B "Transparency", None, VFloat32 F32_NAN); (B "IgnoreGuiInset", Some (B "ScreenInsets", MigInset), VBool true);
   (B "Anchored", None, VBool false); (B "Transparency", None, VFloat32 XmlCompound2.F32_HALF)].
Definition itemsB_ex2 : list pitem := [(B "Size", None, VFloat32 F32_NNAN); (B "Anchored", None, VBool false)].
Definition itemsX_ex2 : list pitem := [(B "Size", None, VFloat32 F32_NAN); (B "Anchored", None, VBool false)].

Lemma pitem_rel_intro n m v v' : nan_equiv v v' -> pitem_rel (n, m, v) (n, m, v').
Proof. intro H. split; [reflexivity|]. split; [reflexivity|exact H]. Qed.
Example cross_props_hypotheses :
  Forall2 pitem_rel itemsB_ex itemsX_ex /\ Forall2 pitem_rel itemsB_ex2 itemsX_ex2 /\
  xml_props [] [] itemsX_ex = Some [(B "Transparency", VFloat32 XmlCompound2.F32_HALF); (B "Anchored", VBool false); (B "ScreenInsets", VEnum 1)] /\
  xml_props [] [] itemsX_ex2 = Some [(B "Anchored", VBool false); (B "Size", VFloat32 F32_NAN)] /\
  bin_props dp_empty itemsB_ex2 = [(B "Anchored", VBool false); (B "Size", VFloat32 F32_NNAN)].
Proof.
  split; [|split; [|split; [|split]]].
  - constructor; [apply pitem_rel_intro; right; split; reflexivity|].
    repeat (constructor; [apply pitem_rel_intro; apply nan_equiv_refl|]). constructor.
  - constructor; [apply pitem_rel_intro; right; split; reflexivity|].
    repeat (constructor; [apply pitem_rel_intro; apply nan_equiv_refl|]). constructor.
  - vm_compute. reflexivity.
  - vm_compute. reflexivity.
  - vm_compute. reflexivity.
Qed.
Example cross_props_example :
  props_rel (bin_props dp_empty itemsB_ex2) [(B "Anchored", VBool false); (B "Size", VFloat32 F32_NAN)] /\
  opt_rel nan_equiv (bfind (B "Size") (bin_props dp_empty itemsB_ex2)) (Some (VFloat32 F32_NAN)).
Proof.
  destruct cross_props_hypotheses as (_ & H2 & _ & Hx & _).
  destruct (cross_props dp_empty itemsB_ex2 itemsX_ex2 _ H2 Hx) as [R Rf]. split; [exact R|]. exact (Rf (B "Size")).
Qed.

(* sections 4 and 5 together, on a source instance with a NaN Size and a legacy BrickColor (which both readers migrate to Color) *)
Definition dp_brick194 : dec_params := mkDP [] [(194, (163, 162, 165))] (fun _ _ => None) (VUniqueId 0 0 0%Z) None.
Definition l_ex : list pitem := [(B "Size", None, VFloat32 F32_NNAN); (B "BrickColor", Some (B "Color", MigBrick), VBrickColor 194)].
Definition lX_ex : list pitem := [(B "Size", None, VFloat32 F32_NAN); (B "BrickColor", Some (B "Color", MigBrick), VBrickColor 194)].
Example cross_dom_props_example :
  props_rel (bin_props dp_brick194 l_ex) [(B "Color", VColor3uint8 163 162 165); (B "Size", VFloat32 F32_NAN)] /\
  bin_props dp_brick194 l_ex = [(B "Color", VColor3uint8 163 162 165); (B "Size", VFloat32 F32_NNAN)].
Proof.
  split; [|vm_compute; reflexivity].
  refine (proj1 (cross_dom_props ectx0 ctx0 o2 dp_brick194 l_ex l_ex lX_ex _ o2_ok _ _ _ _)).
  - repeat constructor.
  - constructor; [split; [reflexivity|split; [reflexivity|apply bin_float32; reflexivity]]|].
    constructor; [split; [reflexivity|split; [reflexivity|apply bin_brick; reflexivity]]|constructor].
  - constructor; [split; [reflexivity|split; [reflexivity|]]|].
    { exists (VFloat32 F32_NAN). split; [exact (proj1 (proj2 sample_nan_related_not_equal))|reflexivity]. }
    constructor; [split; [reflexivity|split; [reflexivity|]]|constructor].
    exact (proj2 (proj2 (proj2 (proj2 brickcolor_differs)))).
  - vm_compute. reflexivity.
Qed.

(* ---------------------------------------------------------------- the values that are in scope only after the reader's conversion *)
(* a legacy BrickColor; Tags with an empty member and a member containing a NUL (the witness of C01_tags_refuted: both readers
   return the SAME normalised list, so that normalisation is not a cross-format difference); MaterialColors *)
Definition samples_typed : list value :=
  [VBrickColor 194; VTags [[97]; []; [98; 0; 99]]; VTags []; VMaterialColors [(3, (1, 2, 3))]; VMaterialColors []].
Example samples_typed_hypotheses :
  forallb (fun v => cross_scope_typed None v && negb (cross_scope None v) && xml_writes_b o2 v) samples_typed = true.
Proof. vm_compute. reflexivity. Qed.
Example samples_typed_agree :
  Forall (fun v => exists vb vx, bin_back ectx0 ctx0 v vb /\ xml_back_typed o2 v vx /\ nan_equiv vb vx) samples_typed.
Proof.
  apply Forall_forall. intros v Hv. pose proof samples_typed_hypotheses as H. rewrite forallb_forall in H. specialize (H v Hv).
  apply andb_true_iff in H. destruct H as [H Hw]. apply andb_true_iff in H. destruct H as [Hs _].
  exact (cross_format_values_exist_typed ectx0 ctx0 o2 v o2_ok Hs (xml_writes_b_sound _ _ Hw)).
Qed.
(* computed: what both readers return for the Tags witness *)
Definition typed_rt_check (o : xoracle) (v : value) : res value :=
  match rt_check o v with
  | Some (Ok (RVal vx0, [])) => try_convert o vx0 (vtype v)
  | _ => Err 0
  end.
Example tags_computed :
  enc_then_dec WString VT_Tags ectx0 ctx0 [VTags [[97]; []; [98; 0; 99]]] = Ok ([VTags [[97]; [98]; [99]]], []) /\
  typed_rt_check o2 (VTags [[97]; []; [98; 0; 99]]) = Ok (VTags [[97]; [98]; [99]]) /\
  tags_norm [[97]; []; [98; 0; 99]] = [[97]; [98]; [99]].
Proof. repeat split; vm_compute; reflexivity. Qed.

(* ---------------------------------------------------------------- section 6 on concrete values *)
(* a quantiser that is not constant, given to both models *)
Definition q_ex (x : f32) : N := if x =? F32_ONE then 255 else if x =? XmlCompound2.F32_HALF then 128 else 0.
Definition ectx_q : enc_ctx := mkEC (fun _ => None) (fun _ => None) q_ex.
Definition o_q : xoracle := mkXO (xo_show32 o2) (xo_show64 o2) (xo_parse32 o2) (xo_parse64 o2) (fun x => Some (q_ex x)) (fun _ => None).
Lemma q_ex_ok x : xo_quant o_q x = Some (ec_quant ectx_q x) /\ ec_quant ectx_q x < 256.
Proof. split; [reflexivity|]. cbn [ec_quant ectx_q]. unfold q_ex. destruct (x =? F32_ONE); [reflexivity|]. destruct (x =? XmlCompound2.F32_HALF); reflexivity. Qed.

Example other_type_hypotheses :
  (* Part.Color: a Color3 in a Color3uint8 column, declared Color3 *)
  (bin_back_at WColor3uint8 VT_Color3 ectx_q ctx0 (VColor3 F32_ONE XmlCompound2.F32_HALF F32_NNAN) (VColor3uint8 255 128 0) /\
   xml_back_as o_q XT_Color3uint8 VT_Color3 (VColor3 F32_ONE XmlCompound2.F32_HALF F32_NNAN) (VColor3uint8 255 128 0)) /\
  (bin_back_at WInt64 VT_Int64 ectx0 ctx0 (VInt32 (-7)) (VInt64 (-7)) /\ xml_back_as o2 XT_Int64 VT_Int64 (VInt32 (-7)) (VInt64 (-7))) /\
  (bin_back_at WInt32 VT_Int64 ectx0 ctx0 (VInt32 (-7)) (VInt64 (-7)) /\ xml_back_as o2 VT_Int32 VT_Int64 (VInt32 (-7)) (VInt64 (-7))) /\
  (bin_back_at WFloat64 VT_Float64 ectx0 ctx0 (VFloat32 F32_NNAN) (VFloat64 (f64_of_f32 F32_NNAN)) /\
   xml_back_as o2 XT_Float64 VT_Float64 (VFloat32 F32_NNAN) (VFloat64 F64_NAN)) /\
  (bin_back_at WFloat32 VT_Float64 ectx0 ctx0 (VFloat32 F32_NNAN) (VFloat64 (f64_of_f32 F32_NNAN)) /\
   xml_back_as o2 VT_Float32 VT_Float64 (VFloat32 F32_NNAN) (VFloat64 (f64_of_f32 F32_NAN))).
Proof.
  pose proof (display_all_float_law o2 o2_display_law) as law. destruct o2_ok as (_ & _ & _ & l64).
  split; [|split; [|split; [|split]]]; split.
  - exact (col_quantise_color3_color3uint8 ectx_q ctx0 VT_Color3 [(F32_ONE, XmlCompound2.F32_HALF, F32_NNAN)] [] (or_introl eq_refl)).
  - exists (VColor3uint8 255 128 0), (VColor3uint8 255 128 0). split; [reflexivity|]. split; [|reflexivity].
    apply (xml_back_intro o_q _ _ (fun t e => xml_c3u8 o_q 255 128 0 t e eq_refl)). apply xml_writes_b_sound. reflexivity.
  - exact (col_roundtrip_int64 ectx0 ctx0 [(-7)%Z] [] (F1 (fun z => in_i64 z = true) (-7)%Z eq_refl)).
  - exists (VInt64 (-7)), (VInt64 (-7)). split; [reflexivity|]. split; [|reflexivity].
    apply (xml_back_intro o2 _ _ (fun t e => xml_int64 o2 (-7) t e eq_refl)). apply xml_writes_b_sound. reflexivity.
  - exact (col_widen_int32_int64 ectx0 ctx0 [(-7)%Z] [] (F1 (fun z => in_i32 z = true) (-7)%Z eq_refl)).
  - exists (VInt32 (-7)), (VInt32 (-7)). split; [reflexivity|]. split; [|reflexivity].
    apply (xml_back_intro o2 _ _ (fun t e => xml_int32 o2 (-7) t e eq_refl)). apply xml_writes_b_sound. reflexivity.
  - exact (col_widen_float32_in_float64_column ectx0 ctx0 [F32_NNAN] [] (F1 (fun x => f32_ok x = true) F32_NNAN eq_refl)).
  - exists (VFloat64 (f64_of_f32 F32_NNAN)), (VFloat64 (norm_f64 (f64_of_f32 F32_NNAN))). split; [reflexivity|]. split; [|vm_compute; reflexivity].
    apply (xml_back_intro o2 _ _ (fun t e => xml_float64 o2 _ t e l64)). apply xml_writes_b_sound. vm_compute. reflexivity.
  - exact (col_widen_float32_float64 ectx0 ctx0 [F32_NNAN] [] (F1 (fun x => f32_ok x = true) F32_NNAN eq_refl)).
  - exists (VFloat32 F32_NNAN), (VFloat32 F32_NAN). split; [reflexivity|]. split; [|reflexivity].
    exact (proj1 (proj2 sample_nan_related_not_equal)).
Qed.

(* ---------------------------------------------------------------- cross_names on the bundled database *)
From RbxVerif Require Import Database.
Example cross_names_bundled ty class pname :
  (exists canon ser,
     find_desc_xml database (S_ class) (S_ pname) = Ok (Some (canon, ser)) /\
     find_canonical_property database ty class pname = Ok (Some (B (pd_name canon), XmlFile.dtype_vt (pd_type canon), mig_of canon))) \/
  (find_desc_xml database (S_ class) (S_ pname) = Ok None /\
   find_canonical_property database ty class pname = Ok (Some (pname, to_default_rbx_type ty, None))) \/
  (find_desc_xml database (S_ class) (S_ pname) = Ok None /\ find_canonical_property database ty class pname = Ok None).
Proof. exact (cross_names database ty class pname bundled_coherent). Qed.
(* the three cases occur: Part.Color3uint8 is an alias of Color (declared Color3); Part.BrickColor migrates to Color; an unknown
   name is kept; Part.Parent does not serialize *)
Example cross_names_cases :
  find_canonical_property database WColor3uint8 (B "Part") (B "Color3uint8") = Ok (Some (B "Color", VT_Color3, None)) /\
  find_canonical_property database WBrickColor (B "Part") (B "BrickColor") = Ok (Some (B "BrickColor", VT_BrickColor, Some (B "Color", MigBrick))) /\
  find_canonical_property database WBool (B "Part") (B "NoSuchProperty") = Ok (Some (B "NoSuchProperty", VT_Bool, None)) /\
  find_canonical_property database WRef (B "Part") (B "Parent") = Ok None /\ find_desc_xml database "Part" "Parent" = Ok None.
Proof. repeat split; vm_compute; reflexivity. Qed.

(* ================================================================ 8. assumptions *)
Print Assumptions nan_equiv_Equivalence.
Print Assumptions cross_format_values_agree.
Print Assumptions cross_format_values_exist.
Print Assumptions cross_format_values_agree_typed.
Print Assumptions cross_format_values_exist_typed.
Print Assumptions cross_cframe_differs.
Print Assumptions cross_ocf_differs.
Print Assumptions cross_font_differs.
Print Assumptions cross_brickcolor_differs.
Print Assumptions cross_tags_differs_raw.
Print Assumptions samples_typed_agree.
Print Assumptions cross_content_object_differs.
Print Assumptions cross_nseq_empty_differs.
Print Assumptions cross_cseq_empty_differs.
Print Assumptions one_format_only.
Print Assumptions cross_names.
Print Assumptions cross_props.
Print Assumptions cross_dom_props.
Print Assumptions cross_collect_props.
Print Assumptions cross_props_binfile.
Print Assumptions cross_migration_failure_differs.
Print Assumptions deserialize_property_described.
Print Assumptions cross_color3_as_color3uint8.
Print Assumptions cross_int32_as_int64.
Print Assumptions cross_int32_widened.
Print Assumptions cross_float32_as_float64.
Print Assumptions cross_float32_widened.
Print Assumptions samples_agree.
Print Assumptions cframe_negzero_differs.
