(* CrossFormatKnown.v — property C06 for database-KNOWN properties: the two reflection theorems
     Proofs/BinKnownProps.v  known_props_roundtrip (binary: own value under the canonical name, normB of it; class-mate defaults)
     Proofs/XmlKnownProps.v  xml_roundtrip_known   (XML: canonical name, norm_known of the value; nothing that was not set)
   composed through the source DOM (the forest through CrossFormatFile.forest_iso_core).
     0. [resolve_of_desc]: the binary WRITER's lookup (resolve_prop) and the XML lookup (find_desc_xml) give the same canonical
        name, serialized name and serialized type for a non-migrating key (from DbFacts.desc_lookup_agree)
     1. [bin_known_side]: known_props_roundtrip re-indexed by written instance and by the XML descriptors (canon, ser) of a key:
        the column's wire type is from_rbx_type of the SERIALIZED type, the reader's type is the CANONICAL type
     2. [cross_format_known_forms]: both whole-file theorems at once; per written instance and non-migrating known key the two decoded
        instances hold the SAME canonical key, the binary one normB (wire type, canonical type) of the value, the XML one
        norm_known (serialized type, canonical type) of it ([known_forms]); Z2 [xml_keys_in_binary], [binary_only_defaults]
     3. the value level: [own_type_agree], [normB_norm_known_agree] (scope [agree_scope]: a value of the declared type in
        CrossFormat.cross_scope; Color3 / Color3uint8 under Color3uint8-serialized descriptors; Int32 for Int64; Float32 for Float64;
        EnumItem for Enum); needs [quant_agree] (one quantiser in both models)
     4. Z1 [cross_format_known_agree] ([props_agree_known]: same key, nan_equiv values, Refs to corresponding instances, or the
        binary reader's regenerated UniqueId); Z3 [cross_format_known_agree_bundled]
     5. where the two sides normalise DIFFERENTLY: [known_font_differs_refuted] (cached face id Some ""), [known_cframe_differs_refuted]
        (rotation with a -0.0 entry); model scope conditions [known_string_utf8_needed], [quant_agree_needed]
     6. non-vacuity on the bundled database: [KnownExample.k_hypotheses], [KnownExample.cross_format_known_example],
        [KnownExample.k_in_scope], [binary_keys_not_in_xml_refuted]
   NOT covered (outside [agree_scope]): Tags / Attributes / MaterialColors / BrickColor-typed values and an Int32 given for a
   BrickColor property (the XML side needs ext_codec's blob round trips against normS), migrating (legacy) keys.
   Standard library only; no axioms. *)
From Coq Require Import List Arith Lia Bool NArith ZArith Permutation Sorted String.
From RbxVerif Require Import Base Bytes Value Utf8 Db DbCheck DbFacts CodecDom BinValues BinFile BytesFacts BaseFacts BinPostorder BinStructure
  BinFileFacts BinColumnsFacts BinTypeInfoFacts BinRoundTrip XmlEvents XmlValues XmlFile XmlStructure XmlRoundTrip XmlCompound2 CrossFormat CrossFormatFile
  BinKnownProps XmlKnownProps.
From RbxVerif Require BinKnownPropsBundled.
Import ListNotations.
Open Scope list_scope.
Open Scope N_scope.

(* ================================================================ 0. the two lookups *)
Lemma resolve_of_desc d c n v canon ser : db_coherent d = true ->
  find_desc_xml d (S_ c) (S_ n) = Ok (Some (canon, ser)) -> nonmig ser ->
  resolve_prop d c n v = Ok (RProp (B (pd_name canon)) (B (pd_name ser)) (XmlFile.dtype_vt (pd_type ser)) None).
Proof.
  intros Hd Hx Hm. unfold resolve_prop. unfold S_ in Hx.
  destruct (desc_lookup_agree d Hd (string_of_bytes c) (string_of_bytes n)) as [[Eb Ex]|[(cn & sr & Eb & Ex)|(cn & Hk & Eb & Ex)]];
    rewrite Ex in Hx; try discriminate Hx.
  injection Hx as -> ->. rewrite Eb. cbn [rbind]. unfold nonmig in Hm.
  destruct (pd_kind ser) as [[| | |to op]|]; try contradiction; reflexivity.
Qed.

Lemma col_plan_wire d cls c ty dv wt : col_plan d cls c ty = Ok (dv, wt) -> from_rbx_type ty = Some wt.
Proof.
  unfold col_plan. destruct (match cls with Some c0 => find_default d c0 (string_of_bytes c) | None => Ok None end) as [o| | |]; cbn [rbind]; try discriminate.
  destruct (match o with Some v => Some v | None => fallback_default_value ty end); [|discriminate].
  destruct (from_rbx_type ty); [|discriminate]. now intros [= _ <-].
Qed.

(* ================================================================ 1. the binary side, per written instance *)
Definition bin_inst_known (d : db) (ep : enc_params) (p : dec_params) (st : ser_state) (i iB : inst) (ti : type_info) : Prop :=
  (* every key read back names a column of the class *)
  (forall k v, In (k, v) (i_props iB) -> k <> NAME /\ exists pi, In (k, pi) (ti_props ti)) /\
  (* an explicitly set, non-migrating known property: own value, canonical key, normB at (wire type of the serialized type, canonical type) *)
  (inst_one_spelling d i -> forall n v canon ser ser', In (n, v) (i_props i) ->
     find_desc_xml d (S_ (i_class i)) (S_ n) = Ok (Some (canon, ser)) -> nonmig ser ->
     find_desc_xml d (S_ (i_class i)) (pd_name ser) = Ok (Some (canon, ser')) -> pd_name canon <> "Name"%string ->
     exists wt, from_rbx_type (XmlFile.dtype_vt (pd_type ser)) = Some wt /\
       cell_ok wt (XmlFile.dtype_vt (pd_type canon)) v = true /\
       reads_back p (B (pd_name canon))
         (normB (ep_quant ep) (ref_new st) wt (XmlFile.dtype_vt (pd_type canon)) v) (i_props iB)) /\
  (* a column of the class the instance has no spelling of: the class default *)
  (forall canon pi, In (canon, pi) (ti_props ti) -> canon <> NAME ->
     (forall n v s ty m, In (n, v) (i_props i) -> resolve_prop d (i_class i) n v <> Ok (RProp canon s ty m)) ->
     exists cty, reads_back p canon (normB (ep_quant ep) (ref_new st) (pi_type pi) cty (migv ep (pi_migration pi) (pi_default pi))) (i_props iB)).

Theorem bin_known_side d ep cmp dom ts p :
  db_coherent d = true ->
  enc_ready d ep dom ts -> BinRoundTrip.input_ok dom ts -> BinRoundTrip.names_ok dom ->
  dom_spellings_agree d dom -> (forall i, In i dom -> class_good d (i_class i)) ->
  dom_values_ok d ep dom = true -> dom_sstrs_ok d dom = true -> dp_lim p = None ->
  (forall e, encode_chunks d ep dom (List.map root ts) = Ok e -> BinRoundTrip.frame_ok p cmp e) ->
  exists b st out,
    encode_file d ep cmp dom (List.map root ts) = Ok b /\
    add_instances d ep dom (List.map root ts) = Ok st /\
    decode_file d p b = Ok out /\
    BinRoundTrip.same_forest dom ts (lbl st) out /\
    forall r i, In r (flat_map refs ts) -> find_inst dom r = Some i ->
      exists iB ti, In (i_class i, ti) (ss_types st) /\
        find_inst out (lbl st r) = Some iB /\ i_ref iB = lbl st r /\ i_class iB = i_class i /\ i_name iB = i_name i /\
        bin_inst_known d ep p st i iB ti.
Proof.
  intros Hd Hr Hin Hnames HS Hgood Hvals Hss Hlim Hframe.
  destruct (known_props_roundtrip d ep cmp dom ts p Hr Hin Hnames HS Hgood Hvals Hss Hlim Hframe) as (b & st & out & Hb & Hadd & Hdec & Hfor & Hinst).
  exists b, st, out. split; [exact Hb|]. split; [exact Hadd|]. split; [exact Hdec|]. split; [exact Hfor|].
  pose proof (dom_spellings_types d dom HS) as HA. pose proof (dom_values_inst_ok d ep dom Hvals) as Hok.
  destruct (add_instances_total d ep dom ts Hr HA Hok) as (st' & st0 & Hadd' & Hrel & Hndr & Hinv & Hg0 & Hty & Hperm).
  rewrite Hadd in Hadd'. injection Hadd' as <-.
  pose proof (known_columns_cells d ep dom ts st Hr HS Hgood Hvals Hadd) as Hcols.
  pose proof (relevant_written d ep dom ts st Hin Hadd) as Hrw.
  destruct (enc_class_ids _ _ _ _ _ Hadd) as (_ & _ & _ & _ & _ & Hall & Hcov & _).
  intros r i Hrin Hfi. apply Hrw in Hrin.
  destruct (Hcov r Hrin) as (ti & Hct). unfold class_of in Hct. rewrite Hfi in Hct. set (cn := i_class i) in *.
  destruct (Hall _ _ Hct) as (Hfil & _ & _).
  assert (Hri : In r (ti_instances ti)).
  { rewrite Hfil. apply filter_In. split; [exact Hrin|]. unfold of_class, class_of. rewrite Hfi. apply bytes_eqb_refl. }
  destruct (In_nth_error _ _ Hri) as [k Hk].
  destruct (Hinst cn ti k r Hct Hk) as (i0 & iB & Hfi0 & Hcl & H1 & H2 & H3 & H4 & Hkeys & Hcolumns).
  rewrite Hfi in Hfi0. injection Hfi0 as <-.
  exists iB, ti. split; [exact Hct|]. split; [exact H1|]. split; [exact H2|]. split; [exact H3|]. split; [exact H4|].
  assert (Hb' : bfind cn (ss_types st0) = Some ti).
  { rewrite <- Hty. apply in_bfind; [|exact Hct]. apply sorted_NoDup. exact (inv_sorted _ _ Hinv). }
  destruct (proj1 Hg0 cn ti Hb') as (C0 & A0 & M0 & P0 & S0).
  destruct (HS cn) as [SA MA].
  assert (Hseen : forall x, seen_of dom (ti_instances ti) x -> In x (class_pairs dom cn)).
  { intros x (r' & j & Hr' & Hj & Hx). eapply in_class_pairs; [eapply BinTypeInfoFacts.find_inst_in; eauto|eapply M0; eauto|exact Hx]. }
  assert (Hmine : forall x, In x (i_props i) -> seen_of dom (ti_instances ti) x) by (intros x Hx; exists r, i; auto).
  split; [exact Hkeys|]. split.
  - intros H1s n v canon ser ser' Hnv Hx Hms Hback Hnn. fold cn in Hx, Hback.
    pose proof (resolve_of_desc d cn n v canon ser Hd Hx Hms) as Hres.
    set (K := B (pd_name canon)) in *. set (sty := XmlFile.dtype_vt (pd_type ser)) in *.
    assert (HK : K <> NAME).
    { unfold K, NAME, bstr. intro E. apply Hnn. now apply B_inj. }
    destruct (pv_col _ _ _ _ _ P0 n v K _ _ _ (Hmine _ Hnv) Hres) as (pi & Hbf & _ & _). cbn [ps_props snd] in Hbf.
    pose proof (bfind_in _ _ _ Hbf) as Hcp.
    destruct (Hcolumns K pi Hcp HK) as (cty & Hfc & Hown & _).
    specialize (Hown H1s n v _ _ _ Hnv Hres). cbn [migv] in Hown.
    (* the serialized name of the column *)
    destruct (pv_ser _ _ _ _ _ P0 K pi Hbf HK) as (n1 & v1 & ty1 & m1 & Hs1 & Hr1).
    destruct (SA n1 v1 n v K _ _ _ _ _ _ (Hseen _ Hs1) (Hseen _ (Hmine _ Hnv)) Hr1 Hres) as [Esn _].
    (* the wire type of the column *)
    destruct (pv_mk _ _ _ _ _ P0 K pi Hbf HK) as (n0 & v0 & s0 & ty0 & m0 & Hs0 & Hr0 & Hcp0).
    destruct (SA n0 v0 n v K _ _ _ _ _ _ (Hseen _ Hs0) (Hseen _ (Hmine _ Hnv)) Hr0 Hres) as [_ Ety].
    subst ty0. apply col_plan_wire in Hcp0.
    (* the reader's type *)
    assert (Ecty : cty = XmlFile.dtype_vt (pd_type canon)).
    { rewrite Esn in Hfc.
      destruct (cross_names d (pi_type pi) cn (B (pd_name ser)) Hd) as [(c2 & s2 & Hx2 & Hf2)|[[Hx2 _]|[Hx2 _]]];
        unfold B in Hx2; rewrite S_bytes in Hx2; rewrite Hback in Hx2; try discriminate Hx2.
      injection Hx2 as <- <-. rewrite Hf2 in Hfc. congruence. }
    subst cty.
    exists (pi_type pi). split; [exact Hcp0|]. split; [|exact Hown].
    destruct (proj1 (Hcols cn ti K pi Hct Hcp) HK) as (cty' & Hfc' & Hcells & _).
    rewrite Hfc in Hfc'. injection Hfc' as <-.
    destruct (Hcells r i Hri Hfi) as [Hcell Hmg].
    destruct (written_columns_spec d ep dom ts st Hr HA Hgood Hok Hadd cn ti K pi r i Hct Hcp HK Hri Hfi) as (_ & Hownv & _).
    rewrite (Hownv H1s n v _ _ _ Hnv Hres), (Hmg n v _ _ _ Hnv Hres) in Hcell. exact Hcell.
  - intros canon pi Hcp Hn Hno. destruct (Hcolumns canon pi Hcp Hn) as (cty & _ & _ & Hdef).
    exists cty. exact (proj1 (Hdef Hno)).
Qed.
Print Assumptions bin_known_side.

(* ================================================================ 2. Z1 (closed forms) / Z2: the two decoded instances of one written instance *)
(* the key [n] of an instance of class [c] is known to the database, with descriptors (canon, ser), and does not migrate *)
Definition known_key (e : xenv) (c n : bytes) (canon ser : pdesc) : Prop :=
  find_desc_xml (xe_db e) (S_ c) (S_ n) = Ok (Some (canon, ser)) /\ XmlKnownProps.mig_of ser = None.
(* every explicitly set property of the instance is such a key (the scope of the default clause) *)
Definition inst_in_scope (e : xenv) (i : inst) : Prop :=
  forall n v, In (n, v) (i_props i) -> exists canon ser, known_key e (i_class i) n canon ser.

(* Z1, closed forms: both decoded instances hold the property under the SAME canonical key; the binary one holds
   normB (wire type of the serialized type, canonical type) of the value (or the regenerated UniqueId), the XML one
   norm_known (serialized type, canonical type) of it (a Ref relabelled, a SharedString restored) *)
Definition known_forms (e : xenv) (vc : vcodec (xe_o e)) (ep : enc_params) (p : dec_params) (st : ser_state) (W : list N)
                       (i iB iX : inst) : Prop :=
  forall n v canon ser, In (n, v) (i_props i) -> known_key e (i_class i) n canon ser ->
    exists wt vx,
      from_rbx_type (XmlFile.dtype_vt (pd_type ser)) = Some wt /\
      cell_ok wt (XmlFile.dtype_vt (pd_type canon)) v = true /\
      reads_back p (B (pd_name canon))
        (normB (ep_quant ep) (ref_new st) wt (XmlFile.dtype_vt (pd_type canon)) v) (i_props iB) /\
      bfind (B (pd_name canon)) (i_props iX) = Some vx /\
      value_known_back e vc W (XmlFile.dtype_vt (pd_type ser)) (XmlFile.dtype_vt (pd_type canon)) v vx /\
      val_ok e vc (XmlFile.dtype_vt (pd_type ser)) (XmlFile.dtype_vt (pd_type canon)) v.

(* Z2, the default clause: every key of the XML-decoded instance is a key of the binary-decoded one; the binary-decoded one
   holds in addition the class default of every column (opened by a class-mate) the instance has no spelling of — and the
   XML-decoded one does not hold that key *)
Definition xml_keys_in_binary (iB iX : inst) : Prop :=
  forall k, bfind k (i_props iX) <> None -> bfind k (i_props iB) <> None.
Definition binary_only_defaults (d : db) (ep : enc_params) (p : dec_params) (st : ser_state) (ti : type_info) (i iB iX : inst) : Prop :=
  forall canon pi, In (canon, pi) (ti_props ti) -> canon <> NAME ->
    (forall n v s ty m, In (n, v) (i_props i) -> resolve_prop d (i_class i) n v <> Ok (RProp canon s ty m)) ->
    bfind canon (i_props iX) = None /\
    exists cty, reads_back p canon (normB (ep_quant ep) (ref_new st) (pi_type pi) cty (migv ep (pi_migration pi) (pi_default pi))) (i_props iB).

Lemma okey_known e keep c keys k canon ser ser' :
  find_desc_xml (xe_db e) (S_ c) (S_ k) = Ok (Some (canon, ser)) -> XmlKnownProps.mig_of ser = None ->
  find_desc_xml (xe_db e) (S_ c) (pd_name ser) = Ok (Some (canon, ser')) ->
  okey e keep c keys k = Some (B (pd_name canon)).
Proof.
  intros Hx Hm Hb. unfold okey, wname, kdesc. rewrite Hx, Hm. unfold tkey, kdesc. unfold B at 1. rewrite S_bytes, Hb. reflexivity.
Qed.

Lemma reads_back_some p k w ps : reads_back p k w ps -> bfind k ps <> None.
Proof. intros [H|(_ & _ & H)]; rewrite H; discriminate. Qed.

Definition insts_agree_known (e : xenv) (vc : vcodec (xe_o e)) (ep : enc_params) (p : dec_params) (st : ser_state)
                             (dom outB outX : cdom) (W : list N) : Prop :=
  forall r i, In r W -> find_inst dom r = Some i ->
    exists iB iX ti, In (i_class i, ti) (ss_types st) /\
      find_inst outB (lbl st r) = Some iB /\ find_inst outX (label W r) = Some iX /\
      i_class iB = i_class i /\ i_class iX = i_class i /\ i_name iB = i_name i /\ i_name iX = i_name i /\
      known_forms e vc ep p st W i iB iX /\
      (inst_in_scope e i -> xml_keys_in_binary iB iX /\ binary_only_defaults (xe_db e) ep p st ti i iB iX).

Theorem cross_format_known_forms e (vc : vcodec (xe_o e)) keep ep cmp dom ts p evs revs :
  db_coherent (xe_db e) = true ->
  (* the binary side: BinKnownProps.known_props_roundtrip *)
  enc_ready (xe_db e) ep dom ts -> BinRoundTrip.input_ok dom ts -> BinRoundTrip.names_ok dom ->
  dom_spellings_agree (xe_db e) dom -> (forall i, In i dom -> class_good (xe_db e) (i_class i)) ->
  dom_values_ok (xe_db e) ep dom = true -> dom_sstrs_ok (xe_db e) dom = true -> dp_lim p = None ->
  (forall e0, encode_chunks (xe_db e) ep dom (List.map root ts) = Ok e0 -> BinRoundTrip.frame_ok p cmp e0) ->
  (forall r i, In r (flat_map refs ts) -> find_inst dom r = Some i -> inst_one_spelling (xe_db e) i) ->
  (* the XML side: XmlKnownProps.xml_roundtrip_known *)
  props_ok dom ts -> hash_ok e -> known_dom e vc keep dom (List.map root ts) ->
  xml_encode e (ebeh_of keep) dom (List.map root ts) = Ok evs -> channel evs = Ok revs ->
  exists b st outB outX,
    encode_file (xe_db e) ep cmp dom (List.map root ts) = Ok b /\
    add_instances (xe_db e) ep dom (List.map root ts) = Ok st /\
    decode_file (xe_db e) p b = Ok outB /\ xml_decode e (dbeh_of keep) revs = Ok outX /\
    dom_iso (lab_iso (lbl st) (label (flat_map refs ts)) (flat_map refs ts)) outB outX /\
    insts_agree_known e vc ep p st dom outB outX (flat_map refs ts).
Proof.
  intros Hd Hr Hin Hnames HS Hgood Hvals Hss Hlim Hframe H1sp Hpo Hh Hk He Hc.
  destruct (bin_known_side (xe_db e) ep cmp dom ts p Hd Hr Hin Hnames HS Hgood Hvals Hss Hlim Hframe)
    as (b & st & outB & Hb & Hadd & HdB & HfB & HiB).
  pose proof (xml_input_ok dom ts Hin Hpo) as HinX.
  destruct (xml_roundtrip_known e vc keep dom _ evs revs HinX Hh Hk He Hc) as (outX & HdX & HfX & HkX).
  exists b, st, outB, outX. split; [exact Hb|]. split; [exact Hadd|]. split; [exact HdB|]. split; [exact HdX|].
  pose proof Hin as (_ & _ & Hag & Hnd & _). pose proof (written_refs dom ts Hag Hnd) as EW.
  unfold known_dom in Hk. rewrite EW in HkX, Hk. set (W := flat_map refs ts) in *.
  split.
  - apply (forest_iso_core dom ts (lbl st) outB outX Hin HfB); [|exact HfX].
    intros r Hrw. fold W in Hrw.
    destruct (find_inst dom r) as [i|] eqn:Hfi.
    + destruct (HiB r i Hrw Hfi) as (iB & ti & _ & H1 & H2 & H3 & H4 & _). exists iB. split; [exact H1|]. split; [exact H2|].
      unfold class_of, src. rewrite Hfi. auto.
    + exfalso. destruct (Forall2_in_l _ _ _ r HkX Hrw) as (iX & _ & i0 & Hf0 & _). congruence.
  - intros r i Hrw Hfi.
    destruct (HiB r i Hrw Hfi) as (iB & ti & Hct & H1 & H2 & H3 & H4 & Hkeys & Hown & Hdef).
    destruct (Forall2_in_l _ _ _ r HkX Hrw) as (iX & HiX & i0 & Hf0 & Eref & Ecl & Enm & Hnd' & Hcl2 & Hcl3).
    rewrite Hfi in Hf0. injection Hf0 as <-.
    destruct (Hk r i Hrw Hfi) as (Hname & Hpok & _).
    assert (HfiX : find_inst outX (label W r) = Some iX).
    { rewrite <- Eref. apply find_inst_nodup; [|exact HiX]. destruct HfX as (_ & Hl & _). rewrite Hl. apply nodup_nseq. }
    assert (Hback : forall n v canon ser, In (n, v) (i_props i) -> known_key e (i_class i) n canon ser ->
              nonmig ser /\ pd_name canon <> "Name"%string /\
              val_ok e vc (XmlFile.dtype_vt (pd_type ser)) (XmlFile.dtype_vt (pd_type canon)) v /\
              exists ser', find_desc_xml (xe_db e) (S_ (i_class i)) (pd_name ser) = Ok (Some (canon, ser'))).
    { intros n v canon ser Hnv [Hx Hm]. pose proof (Hpok n v Hnv) as Hp. unfold known_prop_ok, kdesc in Hp. rewrite Hx, Hm in Hp.
      destruct Hp as (Hms & _ & Hbk & Hnn & Hvo). auto. }
    assert (Hforms : known_forms e vc ep p st W i iB iX).
    { intros n v canon ser Hnv Hkk. destruct (Hback n v canon ser Hnv Hkk) as (Hms & Hnn & Hvo & ser' & Hbk). destruct Hkk as [Hx Hm].
      destruct (Hown (H1sp r i Hrw Hfi) n v canon ser ser' Hnv Hx Hms Hbk Hnn) as (wt & Hwt & Hcell & Hrb).
      pose proof (Hcl2 n v Hnv) as Hp. unfold kdesc in Hp. rewrite Hx, Hm in Hp. destruct Hp as (vx & Hvx & Hvk).
      exists wt, vx. repeat (split; [assumption|]). assumption. }
    assert (Hokey : forall k v k', In (k, v) (i_props i) -> inst_in_scope e i -> okey e keep (i_class i) (ikeys i) k = Some k' ->
              exists canon ser, known_key e (i_class i) k canon ser /\ k' = B (pd_name canon)).
    { intros k v k' Hkv Hsc Hok. destruct (Hsc k v Hkv) as (canon & ser & Hkk). exists canon, ser. split; [exact Hkk|].
      destruct (Hback k v canon ser Hkv Hkk) as (_ & _ & _ & ser' & Hbk). destruct Hkk as [Hx Hm].
      rewrite (okey_known e keep _ _ k canon ser ser' Hx Hm Hbk) in Hok. now injection Hok. }
    exists iB, iX, ti. split; [exact Hct|]. split; [exact H1|]. split; [exact HfiX|]. split; [exact H3|]. split; [exact Ecl|].
    split; [exact H4|]. split; [exact Enm|]. split; [exact Hforms|]. intro Hsc. split.
    + intros k' Hk'. destruct (Hcl3 k' Hk') as (k & v & Hkv & Hok).
      destruct (Hokey k v k' Hkv Hsc Hok) as (canon & ser & Hkk & ->).
      destruct (Hforms k v canon ser Hkv Hkk) as (wt & vx & _ & _ & Hrb & _). exact (reads_back_some _ _ _ _ Hrb).
    + intros canon pi Hcp Hn Hno. split; [|exact (Hdef canon pi Hcp Hn Hno)].
      destruct (bfind canon (i_props iX)) as [vx|] eqn:Ex; [|reflexivity]. exfalso.
      destruct (Hcl3 canon ltac:(congruence)) as (k & v & Hkv & Hok).
      destruct (Hokey k v canon Hkv Hsc Hok) as (cd & sd & Hkk & ->).
      destruct (Hback k v cd sd Hkv Hkk) as (Hms & _ & _). destruct Hkk as [Hx Hm].
      exact (Hno k v _ _ _ Hkv (resolve_of_desc (xe_db e) (i_class i) k v cd sd Hd Hx Hms)).
Qed.
Print Assumptions cross_format_known_forms.
(* both models stand for `impl From<Color3> for Color3uint8`: the two quantisers are the same function *)
Definition quant_agree (q : f32 -> N) (o : xoracle) : Prop := forall x, xo_quant o x = Some (q x).

Lemma norm_known_ext_own o v : cross_scope None v = true -> norm_known o ext_norm (vtype v) (vtype v) v = Ok (ext_norm v).
Proof. destruct v; cbn [cross_scope]; intro H; try discriminate H; reflexivity. Qed.

Lemma norm_font_keep f : fo_cached f <> Some [] -> BinValuesFacts3.norm_font f = f.
Proof. destruct f as [fam w s [[|x l]|]]; cbn; intro H; try reflexivity. now elim H. Qed.

(* (a) a value of the declared type, serialized under its own type *)
Theorem own_type_agree q rn o wt v :
  from_rbx_type (vtype v) = Some wt -> cross_scope None v = true ->
  forall vx, norm_known o ext_norm (vtype v) (vtype v) v = Ok vx -> nan_equiv (normB q rn wt (vtype v) v) vx.
Proof.
  intros Hw Hs vx Hx. rewrite (norm_known_ext_own o v Hs) in Hx. injection Hx as <-.
  destruct v; cbn [cross_scope] in Hs; try discriminate Hs; cbn [vtype from_rbx_type] in Hw; injection Hw as <-;
    unfold normB; cbn [canonv normB0 ext_norm norm_simple spay]; try apply nan_equiv_refl.
  all: try (cbn [nan_equiv]; auto with feq; fail).
  - (* CFrame *) cbn [nan_equiv]. apply cfeq_fixed. unfold cframe_scope in Hs. apply andb_true_iff in Hs. exact (proj2 Hs).
  - (* Color3 *) cbn [nan_equiv]. repeat split; apply feq32_norm.
  - (* ColorSequence *) cbn [nan_equiv]. apply all2_map_r. apply kp4eq_norm.
  - (* Float32 *) cbn. apply feq32_norm.
  - (* Float64 *) cbn. apply feq64_norm.
  - (* NumberRange *) cbn [nan_equiv]. split; apply feq32_norm.
  - (* NumberSequence *) cbn [nan_equiv]. apply all2_map_r. apply kp3eq_norm.
  - (* PhysicalProperties *) cbn [nan_equiv]. apply physeq_norm.
  - (* Ray *) cbn [nan_equiv]. split; apply v3eq_norm.
  - (* Rect *) cbn [nan_equiv]. split; apply v2eq_norm.
  - (* String *) unfold string_scope in Hs. apply andb_true_iff in Hs. change (normS (vtype (VString s)) s) with (VString (BinValuesFacts2.str_norm s)).
    rewrite (BinValuesFacts2.str_norm_valid s (proj2 Hs)). apply nan_equiv_refl.
  - (* UDim *) cbn [nan_equiv]. apply udeq_norm.
  - (* UDim2 *) cbn [nan_equiv]. split; apply udeq_norm.
  - (* Vector2 *) cbn [nan_equiv]. apply v2eq_norm.
  - (* Vector3 *) cbn [nan_equiv]. apply v3eq_norm.
  - (* OptionalCFrame *) cbn [nan_equiv]. destruct c as [cf|]; cbn; [|exact I]. cbn in Hs. apply cfeq_fixed.
    unfold cframe_scope in Hs. apply andb_true_iff in Hs. exact (proj2 Hs).
  - (* Font *) cbn [nan_equiv]. unfold font_scope in Hs. apply andb_true_iff in Hs. destruct Hs as [Hf Hc].
    rewrite (proj2 (font_ok_xml f None Hf)). apply norm_font_keep. intro E. unfold cached_empty in Hc. rewrite E in Hc. discriminate Hc.
  - (* Content *) cbn [nan_equiv]. destruct c; [reflexivity|reflexivity|discriminate Hs].
Qed.
Print Assumptions own_type_agree.

(* (b) a value under descriptors of another type: what conversion.rs (XML) and the multi-variant arms of the binary writer /
   the widening arms of the binary reader accept *)
Definition other_scope (sty cty : N) (v : value) : Prop :=
  match v with
  | VInt32 _ => (sty = VT_Int64 /\ cty = VT_Int64) \/ (sty = VT_Int32 /\ cty = VT_Int64)
  | VFloat32 x => f32_ok x = true /\ ((sty = VT_Float64 /\ cty = VT_Float64) \/ (sty = VT_Float32 /\ cty = VT_Float64))
  | VColor3 _ _ _ => sty = VT_Color3uint8                                   (* Part.Color: quantised by both *)
  | VColor3uint8 _ _ _ => sty = VT_Color3uint8 /\ cty = VT_Color3           (* no way back in conversion.rs: stays Color3uint8 in both *)
  | VEnumItem _ _ => sty = VT_Enum /\ cty = VT_Enum
  | _ => False
  end.
Definition agree_scope (sty cty : N) (v : value) : Prop :=
  (sty = vtype v /\ cty = vtype v /\ cross_scope None v = true) \/ other_scope sty cty v.

Theorem normB_norm_known_agree q rn o wt sty cty v :
  quant_agree q o -> from_rbx_type sty = Some wt -> agree_scope sty cty v ->
  forall vx, norm_known o ext_norm sty cty v = Ok vx -> nan_equiv (normB q rn wt cty v) vx.
Proof.
  intros Hq Hw [(-> & -> & Hs)|Ho] vx Hx; [exact (own_type_agree q rn o wt v Hw Hs vx Hx)|].
  destruct v; cbn [other_scope] in Ho; try contradiction Ho.
  - (* Color3 in a Color3uint8 column *) subst sty. injection Hw as <-.
    unfold norm_known in Hx. cbn [try_convert] in Hx. change (VT_Color3uint8 =? XT_Color3uint8) with true in Hx. cbv iota in Hx.
    rewrite !Hq in Hx. cbn [ask rbind ext_norm norm_simple try_convert] in Hx. injection Hx as <-.
    unfold normB. cbn [canonv normB0 nan_equiv]. auto.
  - (* Color3uint8 under canonical type Color3 *) destruct Ho as [-> ->]. injection Hw as <-. injection Hx as <-. cbn. auto.
  - (* Float32 *) destruct Ho as [Hok [[-> ->]|[-> ->]]]; injection Hw as <-; injection Hx as <-; unfold normB; cbn [canonv normB0].
    + cbn. apply feq64_norm.
    + cbn. unfold XmlText.norm_f32. destruct (f32_is_nan x) eqn:En; [|now left]. right. split.
      * apply f64_of_f32_nan; [now apply CrossFormat.f32_ok_lt|exact En].
      * vm_compute. reflexivity.
  - (* Int32 *) destruct Ho as [[-> ->]|[-> ->]]; injection Hw as <-; injection Hx as <-; reflexivity.
  - (* EnumItem *) destruct Ho as [-> ->]. injection Hw as <-. injection Hx as <-. reflexivity.
Qed.
Print Assumptions normB_norm_known_agree.

(* ================================================================ 4. Z1: the same canonical key, nan_equiv values *)
(* the two value codecs of XmlKnownProps ([simple_codec], [ext_codec]) read back [ext_norm] of what was written *)
Definition codec_ext (o : xoracle) (vc : vcodec o) : Prop := forall w, vc_ok vc w -> nonspecial w -> vc_norm vc w = ext_norm w.
Lemma simple_codec_ext o H : codec_ext o (simple_codec o H).
Proof. intros w Hok _. cbn [vc_ok vc_norm simple_codec] in *. destruct w; try contradiction Hok; reflexivity. Qed.
Lemma ext_codec_ext o H : codec_ext o (ext_codec o H).
Proof. intros w _ _. reflexivity. Qed.

Lemma val_ok_nonspecial e vc sty cty v : nonspecial v -> val_ok e vc sty cty v ->
  exists w, try_convert (xe_o e) v sty = Ok w /\ vc_ok vc w.
Proof. intro Hn. destruct v; try contradiction Hn; intros (w & H1 & H2 & _); eauto. Qed.
Lemma norm_known_codec_ext o (vc : vcodec o) sty cty v w : codec_ext o vc -> try_convert o v sty = Ok w -> vc_ok vc w -> nonspecial v ->
  norm_known o (vc_norm vc) sty cty v = norm_known o ext_norm sty cty v.
Proof.
  intros He Hc Hok Hns. unfold norm_known. rewrite Hc. cbn [rbind].
  pose proof (try_convert_nonspecial _ _ _ _ Hns Hc) as Hw. rewrite (He w Hok Hw). reflexivity.
Qed.
Lemma agree_scope_nonspecial sty cty v : agree_scope sty cty v -> nonspecial v.
Proof. intros [(_ & _ & H)|H]; destruct v; cbn in *; try exact I; try discriminate H; contradiction H. Qed.

(* every explicitly set known property in scope: both decoded instances hold it under the canonical key, with values that
   agree — nan_equiv, a Ref pointing at corresponding instances — or the binary reader has regenerated the UniqueId *)
Definition props_agree_known (e : xenv) (p : dec_params) (st : ser_state) (W : list N) (i iB iX : inst) : Prop :=
  forall n v canon ser, In (n, v) (i_props i) -> known_key e (i_class i) n canon ser ->
    special v \/ agree_scope (XmlFile.dtype_vt (pd_type ser)) (XmlFile.dtype_vt (pd_type canon)) v ->
    exists vb vx, bfind (B (pd_name canon)) (i_props iB) = Some vb /\ bfind (B (pd_name canon)) (i_props iX) = Some vx /\
      (val_agree (lab_iso (lbl st) (label W) W) v vb vx \/ (B (pd_name canon) = UNIQUE_ID /\ vb = dp_fresh_uid p)).

Lemma known_forms_agree e vc ep p st W i iB iX :
  codec_ext (xe_o e) vc -> quant_agree (ep_quant ep) (xe_o e) ->
  (forall r, In r (ss_relevant st) <-> In r W) ->
  known_forms e vc ep p st W i iB iX -> props_agree_known e p st W i iB iX.
Proof.
  intros Hce Hq Hrel Hforms n v canon ser Hnv Hkk Hsc.
  destruct (Hforms n v canon ser Hnv Hkk) as (wt & vx & Hwt & Hcell & Hrb & Hvx & Hvk & Hvo).
  destruct Hrb as [Hvb|(EK & _ & Hvb)]; [|exists (dp_fresh_uid p), vx; auto].
  eexists _, vx. split; [exact Hvb|]. split; [exact Hvx|]. left.
  destruct Hsc as [Hsp|Hsc].
  - destruct v; try contradiction Hsp; cbn [value_known_back] in Hvk; subst vx;
      unfold cell_ok in Hcell; destruct wt; cbn in Hcell; try discriminate Hcell.
    + (* Ref *) match goal with |- val_agree _ (VRef ?r0) _ _ => rename r0 into rr end.
      cbn [val_agree]. unfold normB. cbn [canonv normB0]. do 2 eexists. split; [reflexivity|]. split; [reflexivity|]. unfold ref_new.
      destruct (existsb (N.eqb rr) (ss_relevant st)) eqn:E.
      * right. exists rr. split; [|auto]. apply Hrel. now apply existsb_eqb_In.
      * left. split; [reflexivity|]. apply label_notin. intro Hin. apply Hrel in Hin. apply existsb_eqb_In in Hin. congruence.
    + (* SharedString *) cbn. reflexivity.
  - pose proof (agree_scope_nonspecial _ _ _ Hsc) as Hns.
    destruct (val_ok_nonspecial e vc _ _ v Hns Hvo) as (w & Hc & Hok).
    apply (value_known_back_nonspecial e vc W _ _ v vx Hns) in Hvk.
    rewrite (norm_known_codec_ext (xe_o e) vc _ _ v w Hce Hc Hok Hns) in Hvk.
    pose proof (normB_norm_known_agree (ep_quant ep) (ref_new st) (xe_o e) wt _ _ v Hq Hwt Hsc vx Hvk) as Hnan.
    destruct v; try contradiction Hns; exact Hnan.
Qed.

Theorem cross_format_known_agree e (vc : vcodec (xe_o e)) keep ep cmp dom ts p evs revs :
  db_coherent (xe_db e) = true -> codec_ext (xe_o e) vc -> quant_agree (ep_quant ep) (xe_o e) ->
  enc_ready (xe_db e) ep dom ts -> BinRoundTrip.input_ok dom ts -> BinRoundTrip.names_ok dom ->
  dom_spellings_agree (xe_db e) dom -> (forall i, In i dom -> class_good (xe_db e) (i_class i)) ->
  dom_values_ok (xe_db e) ep dom = true -> dom_sstrs_ok (xe_db e) dom = true -> dp_lim p = None ->
  (forall e0, encode_chunks (xe_db e) ep dom (List.map root ts) = Ok e0 -> BinRoundTrip.frame_ok p cmp e0) ->
  (forall r i, In r (flat_map refs ts) -> find_inst dom r = Some i -> inst_one_spelling (xe_db e) i) ->
  props_ok dom ts -> hash_ok e -> known_dom e vc keep dom (List.map root ts) ->
  xml_encode e (ebeh_of keep) dom (List.map root ts) = Ok evs -> channel evs = Ok revs ->
  exists b st outB outX,
    encode_file (xe_db e) ep cmp dom (List.map root ts) = Ok b /\
    add_instances (xe_db e) ep dom (List.map root ts) = Ok st /\
    decode_file (xe_db e) p b = Ok outB /\ xml_decode e (dbeh_of keep) revs = Ok outX /\
    dom_iso (lab_iso (lbl st) (label (flat_map refs ts)) (flat_map refs ts)) outB outX /\
    forall r i, In r (flat_map refs ts) -> find_inst dom r = Some i ->
      exists iB iX ti, In (i_class i, ti) (ss_types st) /\
        find_inst outB (lbl st r) = Some iB /\ find_inst outX (label (flat_map refs ts) r) = Some iX /\
        i_class iB = i_class i /\ i_class iX = i_class i /\ i_name iB = i_name i /\ i_name iX = i_name i /\
        (* Z1 *) props_agree_known e p st (flat_map refs ts) i iB iX /\
        (* Z2 *) (inst_in_scope e i -> xml_keys_in_binary iB iX /\ binary_only_defaults (xe_db e) ep p st ti i iB iX).
Proof.
  intros Hd Hce Hq Hr Hin Hnames HS Hgood Hvals Hss Hlim Hframe H1sp Hpo Hh Hk He Hc.
  destruct (cross_format_known_forms e vc keep ep cmp dom ts p evs revs Hd Hr Hin Hnames HS Hgood Hvals Hss Hlim Hframe H1sp Hpo Hh Hk He Hc)
    as (b & st & outB & outX & Hb & Hadd & HdB & HdX & Hiso & Hinst).
  exists b, st, outB, outX. repeat (split; [assumption|]).
  pose proof (relevant_written (xe_db e) ep dom ts st Hin Hadd) as Hrel.
  intros r i Hrw Hfi. destruct (Hinst r i Hrw Hfi) as (iB & iX & ti & H1 & H2 & H3 & H4 & H5 & H6 & H7 & Hforms & HZ2).
  exists iB, iX, ti. repeat (split; [assumption|]). split; [|exact HZ2].
  exact (known_forms_agree e vc ep p st _ i iB iX Hce Hq Hrel Hforms).
Qed.
Print Assumptions cross_format_known_agree.

(* ================================================================ 4b. Z3: the database the crates load *)
(* the database hypotheses discharged by the computed checks both files already use: DbFacts.bundled_coherent,
   BinKnownProps.bundled_class_good (class_cols_ok over every class), BinTypeInfoFacts.bundled_agree (spellings), XmlKnownProps.bundled_keys_ok
   (22588 (class, key) pairs; exceptions MaterialService.Use2022Materials, Sound.MaxDistance) and bundled_names_ok *)
Theorem cross_format_known_agree_bundled e (vc : vcodec (xe_o e)) keep ep cmp dom ts p evs revs :
  xe_db e = Database.database -> codec_ext (xe_o e) vc -> quant_agree (ep_quant ep) (xe_o e) ->
  enc_ready Database.database ep dom ts -> BinRoundTrip.input_ok dom ts -> BinRoundTrip.names_ok dom ->
  (forall cn n v1 v2, In (n, v1) (class_pairs dom cn) -> In (n, v2) (class_pairs dom cn) ->
     BinTypeInfoFacts.known_resolve Database.database (string_of_bytes cn) (string_of_bytes n) = Ok None -> vtype v1 = vtype v2) ->
  dom_values_ok Database.database ep dom = true -> dom_sstrs_ok Database.database dom = true -> dp_lim p = None ->
  (forall e0, encode_chunks Database.database ep dom (List.map root ts) = Ok e0 -> BinRoundTrip.frame_ok p cmp e0) ->
  (forall r i, In r (flat_map refs ts) -> find_inst dom r = Some i -> inst_one_spelling Database.database i) ->
  props_ok dom ts -> hash_ok e -> db_dom e vc keep bundled_exceptions dom (List.map root ts) ->
  xml_encode e (ebeh_of keep) dom (List.map root ts) = Ok evs -> channel evs = Ok revs ->
  exists b st outB outX,
    encode_file Database.database ep cmp dom (List.map root ts) = Ok b /\
    add_instances Database.database ep dom (List.map root ts) = Ok st /\
    decode_file Database.database p b = Ok outB /\ xml_decode e (dbeh_of keep) revs = Ok outX /\
    dom_iso (lab_iso (lbl st) (label (flat_map refs ts)) (flat_map refs ts)) outB outX /\
    forall r i, In r (flat_map refs ts) -> find_inst dom r = Some i ->
      exists iB iX ti, In (i_class i, ti) (ss_types st) /\
        find_inst outB (lbl st r) = Some iB /\ find_inst outX (label (flat_map refs ts) r) = Some iX /\
        i_class iB = i_class i /\ i_class iX = i_class i /\ i_name iB = i_name i /\ i_name iX = i_name i /\
        props_agree_known e p st (flat_map refs ts) i iB iX /\
        (inst_in_scope e i -> xml_keys_in_binary iB iX /\ binary_only_defaults Database.database ep p st ti i iB iX).
Proof.
  intros Edb Hce Hq Hr Hin Hnames Hunk Hvals Hss Hlim Hframe H1sp Hpo Hh Hdd He Hc.
  pose proof (cross_format_known_agree e vc keep ep cmp dom ts p evs revs) as T. rewrite Edb in T.
  assert (Hkd : known_dom e vc keep dom (List.map root ts)).
  { apply (db_dom_known e vc keep bundled_exceptions);
      [rewrite Edb; exact bundled_coherent|rewrite Edb; exact bundled_keys_ok|rewrite Edb; exact bundled_names_ok|exact Hdd]. }
  exact (T bundled_coherent Hce Hq Hr Hin Hnames (fun cn => bundled_agree cn _ (Hunk cn)) (fun i _ => bundled_class_good (i_class i))
           Hvals Hss Hlim Hframe H1sp Hpo Hh Hkd He Hc).
Qed.
Print Assumptions cross_format_known_agree_bundled.
(* ================================================================ 5. where the two sides normalise DIFFERENTLY *)
(* (1) FINDING (value level, already CrossFormat.font_differs; here for the closed forms of the two reflection theorems): a Font
   whose cached face id is Some "" meets the hypotheses of both theorems (cell_ok, simple_ok); the binary-decoded instance holds
   cached face id None, the XML-decoded one Some "" *)
Example known_font_differs_refuted q rn o :
  from_rbx_type VT_Font = Some WFont /\ cell_ok WFont VT_Font (VFont font_empty_cached) = true /\ simple_ok (VFont font_empty_cached) /\
  normB q rn WFont VT_Font (VFont font_empty_cached) = VFont (mkFont (B "rbxasset://x") 400 0 None) /\
  norm_known o ext_norm VT_Font VT_Font (VFont font_empty_cached) = Ok (VFont font_empty_cached) /\
  ~ nan_equiv (normB q rn WFont VT_Font (VFont font_empty_cached)) (VFont font_empty_cached).
Proof.
  split; [reflexivity|]. split; [reflexivity|]. split; [vm_compute; reflexivity|]. split; [reflexivity|]. split; [reflexivity|].
  cbn. discriminate.
Qed.

(* (2) FINDING (CrossFormat.cframe_negzero_differs at the level of the closed forms): a CFrame whose rotation is the identity with
   one entry -0.0: the binary writer finds the basic-rotation id and the reader returns the table's +0.0; the XML reader
   returns -0.0.  Both theorems apply (cell_ok, ext_ok). *)
Example known_cframe_differs_refuted q rn o :
  from_rbx_type VT_CFrame = Some WCFrame /\ cell_ok WCFrame VT_CFrame (VCFrame cf_negzero) = true /\ ext_ok (VCFrame cf_negzero) /\
  normB q rn WCFrame VT_CFrame (VCFrame cf_negzero) = VCFrame (mkCF (cf_pos cf_negzero) mat3_identity) /\
  norm_known o ext_norm VT_CFrame VT_CFrame (VCFrame cf_negzero) = Ok (VCFrame cf_negzero) /\
  ~ nan_equiv (VCFrame (mkCF (cf_pos cf_negzero) mat3_identity)) (VCFrame cf_negzero).
Proof.
  split; [reflexivity|]. split; [vm_compute; reflexivity|]. split; [exact I|]. split; [vm_compute; reflexivity|]. split; [vm_compute; reflexivity|].
  intro H. cbn [nan_equiv] in H. destruct H as [_ [[_ [Hy _]] _]]. vm_compute in Hy. destruct Hy as [E|[E _]]; discriminate E.
Qed.

(* (3) a scope condition of the MODEL, not a finding about the Rust code: the models carry a String as bytes; on bytes that are
   not UTF-8 (impossible for a Rust `String`) the binary reader's from_utf8_lossy shows, the XML model returns the bytes *)
Example known_string_utf8_needed q rn o :
  cell_ok WString VT_Str (VString [255]) = true /\
  exists vx, norm_known o ext_norm VT_Str VT_Str (VString [255]) = Ok vx /\ ~ nan_equiv (normB q rn WString VT_Str (VString [255])) vx.
Proof.
  split; [vm_compute; reflexivity|]. exists (VString [255]). split; [reflexivity|]. vm_compute. discriminate.
Qed.

(* (4) the quantiser hypothesis is a consistency condition between the two models (both stand for one Rust function) *)
Example quant_agree_needed :
  exists vx, norm_known CrossFormat.o_q ext_norm VT_Color3uint8 VT_Color3 (VColor3 F32_ONE F32_ONE F32_ONE) = Ok vx /\
    ~ nan_equiv (normB (fun _ => 0) (fun r => r) WColor3uint8 VT_Color3 (VColor3 F32_ONE F32_ONE F32_ONE)) vx.
Proof. eexists. split; [vm_compute; reflexivity|]. vm_compute. intros (E & _). discriminate E. Qed.

(* ================================================================ 6. non-vacuity: a computed example on the bundled database *)
Module KnownExample.
(* a Part with the alias spelling `size` (a NaN inside), a Color3 in Color (serialized as Color3uint8), a Bool and a Float32;
   a second Part that sets only Locked (class-mate: opens no column the first needs, finds the defaults of the first's columns);
   an IntValue whose Int64 property Value is given as an Int32 *)
Definition kdom : cdom :=
  [mkInst 1 0 (B "Part") (B "p")
     [(B "size", VVector3 (mkV3 F32_ONE F32_NNAN F32_ZERO)); (B "Color", VColor3 F32_ONE F32_HALF F32_ZERO); (B "Anchored", VBool true);
      (B "Transparency", VFloat32 F32_HALF)];
   mkInst 2 0 (B "Part") (B "q") [(B "Locked", VBool true)];
   mkInst 3 0 (B "IntValue") (B "n") [(B "Value", VInt32 7)]].
Definition kts : list tree := [Node 1 []; Node 2 []; Node 3 []].
Definition kep : enc_params := mkEP [] [] q_k (fun l => l) [].
Definition kdp : dec_params := mkDP [] [] (fun _ _ => None) (VUniqueId 0 0 0%Z) None.

Lemma k_quant : quant_agree (ep_quant kep) (xe_o e_b).
Proof. intro x. reflexivity. Qed.

Lemma k_dom : db_dom e_b vc_b false bundled_exceptions kdom [1; 2; 3].
Proof.
  assert (HW : written kdom [1; 2; 3] = [1; 2; 3]) by reflexivity.
  intros id i Hid Hf. rewrite HW in Hid. cbn [In] in Hid.
  destruct Hid as [<-|[<-|[<-|[]]]]; vm_compute in Hf; inversion Hf; subst i; cbn [i_class i_props]; split.
  all: try (apply one_spelling_b_sound; vm_compute; reflexivity).
  all: intros k v Hkv; cbn [In] in Hkv;
       repeat (destruct Hkv as [Hkv|Hkv]; [inversion Hkv; subst k v; clear Hkv|]); try contradiction;
       (split; [vm_compute; discriminate|]);
       (split; [cbn [bundled_exceptions In]; intros [E|[E|[]]]; vm_compute in E; discriminate E|]); kdesc_compute.
  all: first [ split; [exact I|split; [exact I|val_ok_solve]] | mig_solve | exact I ].
Qed.

Example k_hypotheses :
  enc_ready Database.database kep kdom kts /\ BinRoundTrip.input_ok kdom kts /\ BinRoundTrip.names_ok kdom /\
  (forall cn n v1 v2, In (n, v1) (class_pairs kdom cn) -> In (n, v2) (class_pairs kdom cn) ->
     BinTypeInfoFacts.known_resolve Database.database (string_of_bytes cn) (string_of_bytes n) = Ok None -> vtype v1 = vtype v2) /\
  dom_values_ok Database.database kep kdom = true /\ dom_sstrs_ok Database.database kdom = true /\
  (forall e0, encode_chunks Database.database kep kdom (List.map root kts) = Ok e0 -> BinRoundTrip.frame_ok kdp None e0) /\
  (forall r i, In r (flat_map refs kts) -> find_inst kdom r = Some i -> inst_one_spelling Database.database i) /\
  props_ok kdom kts /\ hash_ok e_b /\
  exists evs revs, xml_encode e_b (ebeh_of false) kdom (List.map root kts) = Ok evs /\ channel evs = Ok revs.
Proof.
  assert (Hs : dom_sstrs Database.database kdom = []) by (vm_compute; reflexivity).
  split; [|split; [|split; [|split; [|split; [|split; [|split; [|split; [|split; [|split]]]]]]]]].
  - constructor.
    + cbn. repeat constructor; cbn; intuition discriminate.
    + repeat (constructor; try (vm_compute; reflexivity)).
    + cbn. repeat constructor; cbn; intuition discriminate.
    + apply Forall_forall. intros t [<-|[<-|[<-|[]]]]; cbn; auto.
    + cbn. lia.
    + intros l. apply Permutation_refl.
    + intros s H. unfold sstr_src in H. rewrite Hs in H. destruct H.
  - split; [|split; [|split; [|split]]].
    + cbn. repeat constructor; cbn; intuition discriminate.
    + repeat constructor; vm_compute; reflexivity.
    + repeat (constructor; try (vm_compute; reflexivity)).
    + cbn. repeat constructor; cbn; intuition discriminate.
    + cbn. intuition discriminate.
  - repeat constructor; vm_compute; reflexivity.
  - intros cn n v1 v2 H1 H2 _. f_equal.
    assert (Hall : forall x, In x (class_pairs kdom cn) -> In x (flat_map i_props kdom)).
    { intros x Hx. unfold class_pairs in Hx. apply in_flat_map in Hx. destruct Hx as (i & Hi & Hx). apply filter_In in Hi.
      apply in_flat_map. exists i. tauto. }
    apply (BinKnownPropsBundled.pairs_nodup_agree (flat_map i_props kdom)) with (n := n); auto.
    vm_compute. repeat constructor; cbn; intuition discriminate.
  - vm_compute. reflexivity.
  - vm_compute. reflexivity.
  - intros e0 He. apply BinKnownPropsBundled.frame_okb_ok.
    assert (H : match encode_chunks Database.database kep kdom (List.map root kts) with Ok e1 => BinKnownPropsBundled.frame_okb e1 | _ => true end = true)
      by (vm_compute; reflexivity).
    rewrite He in H. exact H.
  - intros r i Hr Hf. cbn in Hr.
    assert (Hi : In i kdom) by (eapply BinTypeInfoFacts.find_inst_in; eauto).
    assert (Hb : inst_one_spelling_b Database.database i = true) by (destruct Hi as [<-|[<-|[<-|[]]]]; vm_compute; reflexivity).
    split.
    + destruct Hi as [<-|[<-|[<-|[]]]]; cbn; repeat constructor; cbn; intuition discriminate.
    + intros n1 n2 c K1 K2 S1 S2.
      exact (dom_one_spelling_check Database.database [i] ltac:(cbn [forallb]; rewrite Hb; reflexivity) i n1 n2 c (or_introl eq_refl) K1 K2 S1 S2).
  - apply props_okb_sound. vm_compute. reflexivity.
  - exact e_rt_hash_ok.
  - eexists. eexists. split; [vm_compute; reflexivity|vm_compute; reflexivity].
Qed.

(* the theorem applies (every hypothesis above), and the two decoded DOMs computed.  Part p: `size` is back as Size in both, the
   binary side with the source's NaN bits, the XML side with the canonical NaN (nan_equiv, not equal); Color is the SAME quantised
   Color3uint8 in both; the binary side holds in addition Locked = false, the default of the column its class-mate q opened.
   Part q: Locked in both; the binary side alone holds the class defaults of p's four columns (Z2).  IntValue n: the Int32 is
   back as Int64 7 in both. *)
Example cross_format_known_example :
  (exists evs revs b st outB outX,
     xml_encode e_b (ebeh_of false) kdom (List.map root kts) = Ok evs /\ channel evs = Ok revs /\
     encode_file Database.database kep None kdom (List.map root kts) = Ok b /\
     add_instances Database.database kep kdom (List.map root kts) = Ok st /\
     decode_file Database.database kdp b = Ok outB /\ xml_decode e_b (dbeh_of false) revs = Ok outX /\
     dom_iso (lab_iso (lbl st) (label (flat_map refs kts)) (flat_map refs kts)) outB outX /\
     forall r i, In r (flat_map refs kts) -> find_inst kdom r = Some i ->
       exists iB iX ti, In (i_class i, ti) (ss_types st) /\
         find_inst outB (lbl st r) = Some iB /\ find_inst outX (label (flat_map refs kts) r) = Some iX /\
         i_class iB = i_class i /\ i_class iX = i_class i /\ i_name iB = i_name i /\ i_name iX = i_name i /\
         props_agree_known e_b kdp st (flat_map refs kts) i iB iX /\
         (inst_in_scope e_b i -> xml_keys_in_binary iB iX /\ binary_only_defaults Database.database kep kdp st ti i iB iX)) /\
  BinKnownPropsBundled.obs (b <- encode_file Database.database kep None kdom [1; 2; 3] ;; decode_file Database.database kdp b)
  = [(B "Part", B "p", [(B "Transparency", VFloat32 F32_HALF); (B "Size", VVector3 (mkV3 F32_ONE F32_NNAN F32_ZERO));
                        (B "Locked", VBool false); (B "Color", VColor3uint8 255 128 0); (B "Anchored", VBool true)]);
     (B "Part", B "q", [(B "Transparency", VFloat32 0); (B "Size", VVector3 (mkV3 1082130432 1067030938 1073741824));
                        (B "Locked", VBool true); (B "Color", VColor3uint8 163 162 165); (B "Anchored", VBool false)]);
     (B "IntValue", B "n", [(B "Value", VInt64 7)])] /\
  BinKnownPropsBundled.obs (thru e_b EIgnoreUnknown DIgnoreUnknown kdom [1; 2; 3])
  = [(B "Part", B "p", [(B "Size", VVector3 (mkV3 F32_ONE F32_NAN F32_ZERO)); (B "Transparency", VFloat32 F32_HALF);
                        (B "Color", VColor3uint8 255 128 0); (B "Anchored", VBool true)]);
     (B "Part", B "q", [(B "Locked", VBool true)]);
     (B "IntValue", B "n", [(B "Value", VInt64 7)])].
Proof.
  destruct k_hypotheses as (H1 & H2 & H3 & H4 & H5 & H6 & H7 & H8 & H9 & H10 & evs & revs & He & Hc).
  split; [|split; vm_compute; reflexivity].
  exists evs, revs.
  destruct (cross_format_known_agree_bundled e_b vc_b false kep None kdom kts kdp evs revs eq_refl
              (simple_codec_ext _ _) k_quant H1 H2 H3 H4 H5 H6 eq_refl H7 H8 H9 H10 k_dom He Hc)
    as (b & st & outB & outX & A1 & A2 & A3 & A4 & A5 & A6).
  exists b, st, outB, outX. auto 10.
Qed.
(* every explicitly set property of the example is a known, non-migrating key (the scope of Z2), and its value is in the scope
   of Z1 *)
Example k_in_scope : forall i, In i kdom -> inst_in_scope e_b i /\
  forall n v, In (n, v) (i_props i) -> exists canon ser, known_key e_b (i_class i) n canon ser /\
    agree_scope (XmlFile.dtype_vt (pd_type ser)) (XmlFile.dtype_vt (pd_type canon)) v.
Proof.
  assert (G : forall i, In i kdom -> forall n v, In (n, v) (i_props i) -> exists canon ser, known_key e_b (i_class i) n canon ser /\
    agree_scope (XmlFile.dtype_vt (pd_type ser)) (XmlFile.dtype_vt (pd_type canon)) v).
  { intros i [<-|[<-|[<-|[]]]] n v Hnv; cbn [i_props i_class In] in *;
      repeat (destruct Hnv as [Hnv|Hnv]; [inversion Hnv; subst n v; clear Hnv|]); try contradiction;
      unfold known_key;
      match goal with |- context [find_desc_xml ?d ?c ?k] =>
        let r := eval vm_compute in (find_desc_xml d c k) in
        match r with Ok (Some (?cd, ?sd)) => exists cd, sd; split; [split; [vm_compute; reflexivity|reflexivity]|] end end;
      first [ left; split; [reflexivity|split; [reflexivity|vm_compute; reflexivity]]
            | right; cbn; first [reflexivity | left; split; reflexivity | right; split; reflexivity ] ]. }
  intros i Hi. split; [|exact (G i Hi)]. intros n v Hnv. destruct (G i Hi n v Hnv) as (cd & sd & Hk & _). eauto.
Qed.
End KnownExample.
Print Assumptions KnownExample.cross_format_known_example.

(* Z2 is one-directional: the converse inclusion fails on the property tables computed above (Part p: Locked is the default of the
   column opened by its class-mate q; the XML file has no such element) *)
Example binary_keys_not_in_xml_refuted :
  let psB := [(B "Transparency", VFloat32 F32_HALF); (B "Size", VVector3 (mkV3 F32_ONE F32_NNAN F32_ZERO));
              (B "Locked", VBool false); (B "Color", VColor3uint8 255 128 0); (B "Anchored", VBool true)] in
  let psX := [(B "Size", VVector3 (mkV3 F32_ONE F32_NAN F32_ZERO)); (B "Transparency", VFloat32 F32_HALF);
              (B "Color", VColor3uint8 255 128 0); (B "Anchored", VBool true)] in
  (forall k, bfind k psX <> None -> bfind k psB <> None) /\
  ~ (forall k, bfind k psB <> None -> bfind k psX <> None).
Proof.
  cbv zeta. split.
  - intros k Hk. cbn [bfind] in Hk |- *.
    repeat match type of Hk with context [bytes_eqb k ?c] => destruct (bytes_eqb k c) eqn:?E end; try discriminate; try congruence.
    all: try (apply BinColumnsFacts.bytes_eqb_eq in E; subst k; vm_compute; discriminate).
    all: try (apply BinColumnsFacts.bytes_eqb_eq in E0; subst k; vm_compute; discriminate).
    all: try (apply BinColumnsFacts.bytes_eqb_eq in E1; subst k; vm_compute; discriminate).
    all: try (apply BinColumnsFacts.bytes_eqb_eq in E2; subst k; vm_compute; discriminate).
  - intro H. apply (H (B "Locked")); vm_compute; [discriminate|reflexivity].
Qed.
