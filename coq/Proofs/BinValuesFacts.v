(* BinValuesFacts.v — round-trip laws of the per-wire-type column codecs of Model/BinValues.v
   (one lemma per wire type: what enc_col writes, dec_col reads back, leaving the rest of the chunk
   untouched), the agreement of the model's wire-type tables with the tables regenerated from
   types.rs (Gen/BinaryTypes.v), and refutation witnesses computed on the model. *)
From Coq Require Import Lia.
From RbxVerif Require Import Base Bytes Value Utf8 Rotation BrickColor Attr BinValues BytesFacts.
From RbxVerif Require BinaryTypes.
Open Scope N_scope.

(* ------------------------------------------------------------------------------------------ *)
(* 0. generic helpers                                                                           *)
(* ------------------------------------------------------------------------------------------ *)
Lemma collect_map {A B} (f : value -> res B) (C : A -> value) (g : A -> B) l :
  (forall a, f (C a) = Ok (g a)) -> collect f (List.map C l) = Ok (List.map g l).
Proof.
  intros H. induction l as [|a l IH]; cbn; auto. rewrite H. cbn. rewrite IH. reflexivity.
Qed.

Lemma zip_map {A B C} (f : A -> B) (g : A -> C) l :
  zip (List.map f l) (List.map g l) = List.map (fun a => (f a, g a)) l.
Proof. induction l; cbn; congruence. Qed.

Lemma map_map_id {A B} (f : A -> B) (g : B -> A) l :
  (forall a, g (f a) = a) -> List.map g (List.map f l) = l.
Proof. intros H. rewrite map_map. rewrite <- (map_id l) at 2. apply map_ext. exact H. Qed.

Lemma pow32 : 2 ^ 32 = 4294967296. Proof. reflexivity. Qed.

Lemma Forall_map_f32 {A} (f : A -> f32) (P : A -> Prop) l :
  (forall a, P a -> f a < 2 ^ 32) -> Forall P l -> Forall (fun v => v < 2 ^ 32) (List.map f l).
Proof.
  intros H HF. apply Forall_forall. intros v Hv. apply in_map_iff in Hv. destruct Hv as [a [<- Ha]].
  apply H. rewrite Forall_forall in HF. auto.
Qed.

(* a parser that reads back one encoded item, repeated *)
Lemma prepeat_roundtrip {A} (P : A -> Prop) (enc : A -> bytes) (p : parser A) :
  (forall a rest, P a -> p (enc a ++ rest) = Ok (a, rest)) ->
  forall l rest, Forall P l -> prepeat (length l) p (flat_map enc l ++ rest) = Ok (l, rest).
Proof.
  intros H. induction l as [|a l IH]; intros rest HF; cbn [length prepeat flat_map].
  - reflexivity.
  - inversion HF as [|? ? Ha Hl]; subst.
    rewrite <- app_assoc. unfold pbind at 1. rewrite (H a _ Ha).
    unfold pbind at 1. rewrite (IH _ Hl). reflexivity.
Qed.

Lemma concat_map_flat_map {A} (f : A -> bytes) l : concat (List.map f l) = flat_map f l.
Proof. symmetry. apply flat_map_concat_map. Qed.

Lemma f32_lt v : f32_ok v = true -> v < 2 ^ 32.
Proof. unfold f32_ok. intros H. apply N.ltb_lt in H. exact H. Qed.

Lemma f32_lt8 v : f32_ok v = true -> v < 2 ^ (8 * N.of_nat 4).
Proof. intros H. apply f32_lt in H. exact H. Qed.

Lemma read_f32le_app v rest : f32_ok v = true -> read_f32le (w_f32 v ++ rest) = Ok (v, rest).
Proof. intros H. unfold read_f32le, w_f32. apply read_le_app. now apply f32_lt8. Qed.

Lemma read_u8_app v rest : v < 256 -> read_u8 (w_u8 v ++ rest) = Ok (v, rest).
Proof.
  intros H. unfold read_u8, w_u8. cbn [app]. unfold pbind, read_exact. cbn [take_n].
  unfold pret. cbn [of_le]. f_equal. f_equal. lia.
Qed.

(* ------------------------------------------------------------------------------------------ *)
(* 1. the tables of types.rs                                                                    *)
(* ------------------------------------------------------------------------------------------ *)
(* the wire ids of the model are the discriminants regenerated from `enum Type` *)
Theorem wire_ids_match_source :
  List.map wire_id all_wire_types = List.map snd BinaryTypes.binary_type_ids.
Proof. vm_compute. reflexivity. Qed.

(* from_rbx_type of the model is the regenerated Type::from_rbx_type table *)
Theorem from_rbx_type_matches_source :
  forall vt, vt < 40 ->
    option_map wire_id (from_rbx_type vt) =
    (fix look (l : list (N * N)) := match l with [] => None | (k, w) :: r => if N.eqb k vt then Some w else look r end)
      BinaryTypes.binary_wire_type.
Proof.
  assert (H : forallb (fun vt =>
            match option_map wire_id (from_rbx_type vt),
                  (fix look (l : list (N * N)) := match l with [] => None | (k, w) :: r => if N.eqb k vt then Some w else look r end)
                    BinaryTypes.binary_wire_type with
            | Some a, Some b => N.eqb a b | None, None => true | _, _ => false end)
            (List.map N.of_nat (seq 0 40)) = true) by (vm_compute; reflexivity).
  intros vt Hvt. rewrite forallb_forall in H.
  specialize (H vt). assert (Hin : In vt (List.map N.of_nat (seq 0 40))).
  { apply in_map_iff. exists (N.to_nat vt). split; [apply N2Nat.id|]. apply in_seq. lia. }
  specialize (H Hin).
  destruct (option_map wire_id (from_rbx_type vt)) as [a|];
  destruct ((fix look (l : list (N * N)) := match l with [] => None | (k, w) :: r => if N.eqb k vt then Some w else look r end)
              BinaryTypes.binary_wire_type) as [b|]; try discriminate; auto.
  apply N.eqb_eq in H. now subst.
Qed.

Theorem wire_of_id_wire_id t : wire_of_id (wire_id t) = Some t.
Proof. destruct t; vm_compute; reflexivity. Qed.

Theorem wire_id_injective a b : wire_id a = wire_id b -> a = b.
Proof.
  intros H. assert (Ha := wire_of_id_wire_id a). rewrite H, wire_of_id_wire_id in Ha. congruence.
Qed.

(* ------------------------------------------------------------------------------------------ *)
(* 2. column round trips                                                                        *)
(* ------------------------------------------------------------------------------------------ *)
Section Columns.
Variable c : enc_ctx.
Variable dc : dec_ctx.

(* Bool *)
Theorem col_roundtrip_bool (bs : list bool) rest :
  exists b, enc_col WBool c (List.map VBool bs) = Ok b /\
            dec_col WBool VT_Bool dc (length bs) (b ++ rest) = Ok (List.map VBool bs, rest).
Proof.
  eexists. split.
  - cbn [enc_col]. rewrite (collect_map _ VBool w_bool) by reflexivity. cbn [rbind]. reflexivity.
  - cbn [dec_col]. rewrite N.eqb_refl. rewrite concat_map_flat_map.
    rewrite <- (map_length VBool bs).
    assert (E : flat_map w_bool bs = flat_map (fun v => match v with VBool x => w_bool x | _ => [] end) (List.map VBool bs)).
    { induction bs; cbn; congruence. }
    rewrite E.
    apply (prepeat_roundtrip (fun v => exists x, v = VBool x)).
    + intros a r [x ->]. unfold pbind, read_bool, pbind, read_u8, pbind, read_exact. destruct x; reflexivity.
    + apply Forall_forall. intros v Hv. apply in_map_iff in Hv. destruct Hv as [x [<- _]]. now exists x.
Qed.

(* Int32 *)
Theorem col_roundtrip_int32 (zs : list Z) rest :
  Forall (fun z => in_i32 z = true) zs ->
  exists b, enc_col WInt32 c (List.map VInt32 zs) = Ok b /\
            dec_col WInt32 VT_Int32 dc (length zs) (b ++ rest) = Ok (List.map VInt32 zs, rest).
Proof.
  intros H. eexists. split.
  - cbn [enc_col]. rewrite (collect_map _ VInt32 (fun z => z)) by reflexivity. cbn [rbind]. rewrite map_id. reflexivity.
  - cbn [dec_col]. rewrite N.eqb_refl. unfold pbind. rewrite i32_array_roundtrip by exact H. reflexivity.
Qed.

(* an Int32 column read for a property the database declares Int64: widened exactly (C04) *)
Theorem col_widen_int32_int64 (zs : list Z) rest :
  Forall (fun z => in_i32 z = true) zs ->
  exists b, enc_col WInt32 c (List.map VInt32 zs) = Ok b /\
            dec_col WInt32 VT_Int64 dc (length zs) (b ++ rest) = Ok (List.map VInt64 zs, rest).
Proof.
  intros H. eexists. split.
  - cbn [enc_col]. rewrite (collect_map _ VInt32 (fun z => z)) by reflexivity. cbn [rbind]. rewrite map_id. reflexivity.
  - cbn [dec_col]. replace (N.eqb VT_Int64 VT_Int32) with false by reflexivity. rewrite N.eqb_refl.
    unfold pbind. rewrite i32_array_roundtrip by exact H. reflexivity.
Qed.

(* Int64 *)
Theorem col_roundtrip_int64 (zs : list Z) rest :
  Forall (fun z => in_i64 z = true) zs ->
  exists b, enc_col WInt64 c (List.map VInt64 zs) = Ok b /\
            dec_col WInt64 VT_Int64 dc (length zs) (b ++ rest) = Ok (List.map VInt64 zs, rest).
Proof.
  intros H. eexists. split.
  - cbn [enc_col]. rewrite (collect_map _ VInt64 (fun z => z)) by reflexivity. cbn [rbind]. rewrite map_id. reflexivity.
  - cbn [dec_col]. rewrite N.eqb_refl. unfold pbind. rewrite i64_array_roundtrip by exact H. reflexivity.
Qed.

(* Float32: every bit pattern, including NaN payloads and signed zeros *)
Theorem col_roundtrip_float32 (xs : list f32) rest :
  Forall (fun x => f32_ok x = true) xs ->
  exists b, enc_col WFloat32 c (List.map VFloat32 xs) = Ok b /\
            dec_col WFloat32 VT_Float32 dc (length xs) (b ++ rest) = Ok (List.map VFloat32 xs, rest).
Proof.
  intros H. eexists. split.
  - cbn [enc_col]. rewrite (collect_map _ VFloat32 (fun z => z)) by reflexivity. cbn [rbind]. rewrite map_id. reflexivity.
  - cbn [dec_col]. rewrite N.eqb_refl. unfold pbind. rewrite f32_array_roundtrip; [reflexivity|].
    eapply Forall_impl; [|exact H]. intros a. apply f32_lt.
Qed.

(* a Float32 column read for a property declared Float64: widened exactly (C04, after repair 9cbdf7e3) *)
Theorem col_widen_float32_float64 (xs : list f32) rest :
  Forall (fun x => f32_ok x = true) xs ->
  exists b, enc_col WFloat32 c (List.map VFloat32 xs) = Ok b /\
            dec_col WFloat32 VT_Float64 dc (length xs) (b ++ rest)
            = Ok (List.map (fun x => VFloat64 (f64_of_f32 x)) xs, rest).
Proof.
  intros H. eexists. split.
  - cbn [enc_col]. rewrite (collect_map _ VFloat32 (fun z => z)) by reflexivity. cbn [rbind]. rewrite map_id. reflexivity.
  - cbn [dec_col]. replace (N.eqb VT_Float64 VT_Float32) with false by reflexivity. rewrite N.eqb_refl.
    unfold pbind. rewrite f32_array_roundtrip; [reflexivity|].
    eapply Forall_impl; [|exact H]. intros a. apply f32_lt.
Qed.

(* Enum *)
Theorem col_roundtrip_enum (ns : list N) rest :
  Forall (fun v => v < 2 ^ 32) ns ->
  exists b, enc_col WEnum c (List.map VEnum ns) = Ok b /\
            dec_col WEnum VT_Enum dc (length ns) (b ++ rest) = Ok (List.map VEnum ns, rest).
Proof.
  intros H. eexists. split.
  - cbn [enc_col]. rewrite (collect_map _ VEnum (fun z => z)) by reflexivity. cbn [rbind]. rewrite map_id. reflexivity.
  - cbn [dec_col]. rewrite N.eqb_refl. unfold pbind. rewrite u32_array_roundtrip by exact H. reflexivity.
Qed.

(* BrickColor: the numbers of the palette *)
Theorem col_roundtrip_brickcolor (ns : list N) rest :
  Forall (fun v => v < 65536 /\ brick_valid v = true) ns ->
  exists b, enc_col WBrickColor c (List.map VBrickColor ns) = Ok b /\
            dec_col WBrickColor VT_BrickColor dc (length ns) (b ++ rest) = Ok (List.map VBrickColor ns, rest).
Proof.
  intros H. eexists. split.
  - cbn [enc_col]. rewrite (collect_map _ VBrickColor (fun z => z)) by reflexivity. cbn [rbind]. rewrite map_id. reflexivity.
  - cbn [dec_col]. rewrite N.eqb_refl. unfold pbind. rewrite u32_array_roundtrip.
    + assert (E : find (fun v => negb (N.ltb v 65536 && brick_valid v)) ns = None).
      { induction H as [|v l [Hv Hb] _ IH]; cbn [find]; auto. apply N.ltb_lt in Hv. rewrite Hv, Hb. cbn [andb negb]. exact IH. }
      rewrite E. reflexivity.
    + eapply Forall_impl; [|exact H]. intros a [Ha _]. rewrite pow32. lia.
Qed.

(* Vector3 *)
Theorem col_roundtrip_vector3 (ps : list vec3) rest :
  Forall (fun p => vec3_ok p = true) ps ->
  exists b, enc_col WVector3 c (List.map VVector3 ps) = Ok b /\
            dec_col WVector3 VT_Vector3 dc (length ps) (b ++ rest) = Ok (List.map VVector3 ps, rest).
Proof.
  intros H.
  assert (Hx : Forall (fun v => v < 2 ^ 32) (List.map vx ps)).
  { eapply Forall_map_f32; [|exact H]. intros a Ha. unfold vec3_ok in Ha. apply andb_true_iff in Ha. destruct Ha as [Ha _].
    apply andb_true_iff in Ha. now apply f32_lt. }
  assert (Hy : Forall (fun v => v < 2 ^ 32) (List.map vy ps)).
  { eapply Forall_map_f32; [|exact H]. intros a Ha. unfold vec3_ok in Ha. apply andb_true_iff in Ha. destruct Ha as [Ha _].
    apply andb_true_iff in Ha. now apply f32_lt. }
  assert (Hz : Forall (fun v => v < 2 ^ 32) (List.map vz ps)).
  { eapply Forall_map_f32; [|exact H]. intros a Ha. unfold vec3_ok in Ha. apply andb_true_iff in Ha. now apply f32_lt. }
  eexists. split.
  - cbn [enc_col]. rewrite (collect_map _ VVector3 (fun z => z)) by reflexivity. cbn [rbind]. rewrite map_id. reflexivity.
  - cbn [dec_col]. rewrite N.eqb_refl. unfold dec_vec3_arrays, pbind.
    rewrite <- (map_length vx ps) at 1. rewrite <- app_assoc. rewrite f32_array_roundtrip by exact Hx.
    rewrite <- (map_length vy ps) at 1. rewrite <- app_assoc. rewrite f32_array_roundtrip by exact Hy.
    rewrite <- (map_length vz ps) at 1. rewrite f32_array_roundtrip by exact Hz.
    unfold pret. f_equal. f_equal.
    rewrite zip_map. rewrite (zip_map (fun a => (vx a, vy a)) vz). rewrite !map_map. cbn.
    apply map_ext. intros [x y z]. reflexivity.
Qed.

(* Vector2 *)
Theorem col_roundtrip_vector2 (ps : list vec2) rest :
  Forall (fun p => vec2_ok p = true) ps ->
  exists b, enc_col WVector2 c (List.map VVector2 ps) = Ok b /\
            dec_col WVector2 VT_Vector2 dc (length ps) (b ++ rest) = Ok (List.map VVector2 ps, rest).
Proof.
  intros H.
  assert (Hx : Forall (fun v => v < 2 ^ 32) (List.map v2x ps)).
  { eapply Forall_map_f32; [|exact H]. intros a Ha. unfold vec2_ok in Ha. apply andb_true_iff in Ha. now apply f32_lt. }
  assert (Hy : Forall (fun v => v < 2 ^ 32) (List.map v2y ps)).
  { eapply Forall_map_f32; [|exact H]. intros a Ha. unfold vec2_ok in Ha. apply andb_true_iff in Ha. now apply f32_lt. }
  eexists. split.
  - cbn [enc_col]. rewrite (collect_map _ VVector2 (fun z => z)) by reflexivity. cbn [rbind]. rewrite map_id. reflexivity.
  - cbn [dec_col]. rewrite N.eqb_refl. unfold pbind.
    rewrite <- (map_length v2x ps) at 1. rewrite <- app_assoc. rewrite f32_array_roundtrip by exact Hx.
    rewrite <- (map_length v2y ps) at 1. rewrite f32_array_roundtrip by exact Hy.
    unfold pret. f_equal. f_equal. rewrite zip_map, map_map. cbn.
    apply map_ext. intros [x y]. reflexivity.
Qed.

(* Color3 *)
Theorem col_roundtrip_color3 (cs : list (f32 * f32 * f32)) rest :
  Forall (fun p => f32_ok (fst (fst p)) = true /\ f32_ok (snd (fst p)) = true /\ f32_ok (snd p) = true) cs ->
  exists b, enc_col WColor3 c (List.map (fun p => VColor3 (fst (fst p)) (snd (fst p)) (snd p)) cs) = Ok b /\
            dec_col WColor3 VT_Color3 dc (length cs) (b ++ rest)
            = Ok (List.map (fun p => VColor3 (fst (fst p)) (snd (fst p)) (snd p)) cs, rest).
Proof.
  intros H.
  assert (Hr : Forall (fun v => v < 2 ^ 32) (List.map (fun p : f32 * f32 * f32 => fst (fst p)) cs)).
  { eapply Forall_map_f32; [|exact H]. intros a (Ha & _ & _). now apply f32_lt. }
  assert (Hg : Forall (fun v => v < 2 ^ 32) (List.map (fun p : f32 * f32 * f32 => snd (fst p)) cs)).
  { eapply Forall_map_f32; [|exact H]. intros a (_ & Ha & _). now apply f32_lt. }
  assert (Hb : Forall (fun v => v < 2 ^ 32) (List.map (fun p : f32 * f32 * f32 => snd p) cs)).
  { eapply Forall_map_f32; [|exact H]. intros a (_ & _ & Ha). now apply f32_lt. }
  eexists. split.
  - cbn [enc_col].
    rewrite (collect_map _ (fun p : f32 * f32 * f32 => VColor3 (fst (fst p)) (snd (fst p)) (snd p)) (fun p => p)).
    + cbn [rbind]. rewrite map_id. reflexivity.
    + intros [[r g] b]. reflexivity.
  - cbn [dec_col]. rewrite N.eqb_refl. unfold pbind.
    rewrite <- (map_length (fun p : f32 * f32 * f32 => fst (fst p)) cs) at 1. rewrite <- app_assoc.
    rewrite f32_array_roundtrip by exact Hr.
    rewrite <- (map_length (fun p : f32 * f32 * f32 => snd (fst p)) cs) at 1. rewrite <- app_assoc.
    rewrite f32_array_roundtrip by exact Hg.
    rewrite <- (map_length (fun p : f32 * f32 * f32 => snd p) cs) at 1.
    rewrite f32_array_roundtrip by exact Hb.
    unfold pret. f_equal. f_equal.
    rewrite zip_map. rewrite (zip_map (fun a : f32 * f32 * f32 => (fst (fst a), snd (fst a))) snd). rewrite !map_map. cbn.
    apply map_ext. intros [[r g] b]. reflexivity.
Qed.

(* UDim *)
Theorem col_roundtrip_udim (us : list udim) rest :
  Forall (fun u => f32_ok (ud_scale u) = true /\ in_i32 (ud_offset u) = true) us ->
  exists b, enc_col WUDim c (List.map VUDim us) = Ok b /\
            dec_col WUDim VT_UDim dc (length us) (b ++ rest) = Ok (List.map VUDim us, rest).
Proof.
  intros H.
  assert (Hs : Forall (fun v => v < 2 ^ 32) (List.map ud_scale us)).
  { eapply Forall_map_f32; [|exact H]. intros a [Ha _]. now apply f32_lt. }
  assert (Ho : Forall (fun v => in_i32 v = true) (List.map ud_offset us)).
  { apply Forall_forall. intros v Hv. apply in_map_iff in Hv. destruct Hv as [a [<- Ha]].
    rewrite Forall_forall in H. now apply H. }
  eexists. split.
  - cbn [enc_col]. rewrite (collect_map _ VUDim (fun z => z)) by reflexivity. cbn [rbind]. rewrite map_id. reflexivity.
  - cbn [dec_col]. rewrite N.eqb_refl. unfold pbind.
    rewrite <- (map_length ud_scale us) at 1. rewrite <- app_assoc. rewrite f32_array_roundtrip by exact Hs.
    rewrite <- (map_length ud_offset us) at 1. rewrite i32_array_roundtrip by exact Ho.
    unfold pret. f_equal. f_equal. rewrite zip_map, map_map. cbn.
    apply map_ext. intros [s o]. reflexivity.
Qed.

(* Ref: referents of written instances come back through the decoder's resolution, others as none *)
Theorem col_roundtrip_ref (rs : list N) rest :
  Forall (fun r => in_i32 (ref_id c r) = true) rs ->
  exists b, enc_col WRef c (List.map VRef rs) = Ok b /\
            dec_col WRef VT_Ref dc (length rs) (b ++ rest)
            = Ok (List.map (fun r => VRef (dc_resolve dc (ref_id c r))) rs, rest).
Proof.
  intros H. eexists. split.
  - cbn [enc_col]. rewrite (collect_map _ VRef (ref_id c)) by reflexivity. cbn [rbind]. reflexivity.
  - cbn [dec_col]. rewrite N.eqb_refl. unfold pbind.
    rewrite <- (map_length (ref_id c) rs) at 1. rewrite ref_array_roundtrip.
    + unfold pret. now rewrite map_map.
    + apply Forall_forall. intros v Hv. apply in_map_iff in Hv. destruct Hv as [a [<- Ha]].
      rewrite Forall_forall in H. now apply H.
Qed.

(* Ray (after repair de369328: all six components) *)
Theorem col_roundtrip_ray (rs : list (vec3 * vec3)) rest :
  Forall (fun p => vec3_ok (fst p) = true /\ vec3_ok (snd p) = true) rs ->
  exists b, enc_col WRay c (List.map (fun p => VRay (fst p) (snd p)) rs) = Ok b /\
            dec_col WRay VT_Ray dc (length rs) (b ++ rest) = Ok (List.map (fun p => VRay (fst p) (snd p)) rs, rest).
Proof.
  intros H. eexists. split.
  - cbn [enc_col].
    rewrite (collect_map _ (fun p : vec3 * vec3 => VRay (fst p) (snd p)) (fun p => ray_bytes (fst p) (snd p))) by reflexivity.
    cbn [rbind]. rewrite concat_map_flat_map. reflexivity.
  - cbn [dec_col]. rewrite N.eqb_refl.
    rewrite <- (map_length (fun p : vec3 * vec3 => VRay (fst p) (snd p)) rs).
    assert (E : flat_map (fun p : vec3 * vec3 => ray_bytes (fst p) (snd p)) rs
                = flat_map (fun v => match v with VRay o d => ray_bytes o d | _ => [] end)
                           (List.map (fun p : vec3 * vec3 => VRay (fst p) (snd p)) rs)).
    { clear H. induction rs as [|[o d] l IH]; cbn [flat_map List.map fst snd]; [reflexivity|]. now rewrite IH. }
    rewrite E.
    apply (prepeat_roundtrip (fun v => exists o d, v = VRay o d /\ vec3_ok o = true /\ vec3_ok d = true)).
    + intros a r (o & d & -> & Ho & Hd). unfold ray_bytes.
      unfold vec3_ok in Ho, Hd. apply andb_true_iff in Ho. destruct Ho as [Ho Hoz]. apply andb_true_iff in Ho. destruct Ho as [Hox Hoy].
      apply andb_true_iff in Hd. destruct Hd as [Hd Hdz]. apply andb_true_iff in Hd. destruct Hd as [Hdx Hdy].
      rewrite <- !app_assoc.
      unfold pbind. rewrite (read_f32le_app _ _ Hox). rewrite (read_f32le_app _ _ Hoy). rewrite (read_f32le_app _ _ Hoz).
      rewrite (read_f32le_app _ _ Hdx). rewrite (read_f32le_app _ _ Hdy). rewrite (read_f32le_app _ _ Hdz).
      unfold pret. destruct o, d; reflexivity.
    + apply Forall_forall. intros v Hv. apply in_map_iff in Hv. destruct Hv as [[o d] [<- Hin]].
      rewrite Forall_forall in H. destruct (H _ Hin) as [Ho Hd]. now exists o, d.
Qed.

(* NumberRange *)
Theorem col_roundtrip_numberrange (rs : list (f32 * f32)) rest :
  Forall (fun p => f32_ok (fst p) = true /\ f32_ok (snd p) = true) rs ->
  exists b, enc_col WNumberRange c (List.map (fun p => VNumberRange (fst p) (snd p)) rs) = Ok b /\
            dec_col WNumberRange VT_NumberRange dc (length rs) (b ++ rest)
            = Ok (List.map (fun p => VNumberRange (fst p) (snd p)) rs, rest).
Proof.
  intros H. eexists. split.
  - cbn [enc_col].
    rewrite (collect_map _ (fun p : f32 * f32 => VNumberRange (fst p) (snd p)) (fun p => w_f32 (fst p) ++ w_f32 (snd p))) by reflexivity.
    cbn [rbind]. rewrite concat_map_flat_map. reflexivity.
  - cbn [dec_col]. rewrite N.eqb_refl.
    rewrite <- (map_length (fun p : f32 * f32 => VNumberRange (fst p) (snd p)) rs).
    assert (E : flat_map (fun p : f32 * f32 => w_f32 (fst p) ++ w_f32 (snd p)) rs
                = flat_map (fun v => match v with VNumberRange lo hi => w_f32 lo ++ w_f32 hi | _ => [] end)
                           (List.map (fun p : f32 * f32 => VNumberRange (fst p) (snd p)) rs)).
    { clear H. induction rs as [|[o d] l IH]; cbn [flat_map List.map fst snd]; [reflexivity|]. now rewrite IH. }
    rewrite E.
    apply (prepeat_roundtrip (fun v => exists lo hi, v = VNumberRange lo hi /\ f32_ok lo = true /\ f32_ok hi = true)).
    + intros a r (lo & hi & -> & Hlo & Hhi). rewrite <- app_assoc.
      unfold pbind. rewrite (read_f32le_app _ _ Hlo). rewrite (read_f32le_app _ _ Hhi). reflexivity.
    + apply Forall_forall. intros v Hv. apply in_map_iff in Hv. destruct Hv as [[lo hi] [<- Hin]].
      rewrite Forall_forall in H. destruct (H _ Hin) as [H1 H2]. now exists lo, hi.
Qed.

(* Faces / Axes: the valid bit sets *)
Theorem col_roundtrip_faces (ns : list N) rest :
  Forall (fun v => v < 64) ns ->
  exists b, enc_col WFaces c (List.map VFaces ns) = Ok b /\
            dec_col WFaces VT_Faces dc (length ns) (b ++ rest) = Ok (List.map VFaces ns, rest).
Proof.
  intros H. eexists. split.
  - cbn [enc_col]. rewrite (collect_map _ VFaces w_u8) by reflexivity. cbn [rbind]. rewrite concat_map_flat_map. reflexivity.
  - cbn [dec_col]. rewrite N.eqb_refl. rewrite <- (map_length VFaces ns).
    assert (E : flat_map w_u8 ns = flat_map (fun v => match v with VFaces x => w_u8 x | _ => [] end) (List.map VFaces ns)).
    { clear H. induction ns; cbn; congruence. }
    rewrite E.
    apply (prepeat_roundtrip (fun v => exists x, v = VFaces x /\ x < 64)).
    + intros a r (x & -> & Hx). unfold pbind. rewrite read_u8_app by lia.
      apply N.ltb_lt in Hx. rewrite Hx. reflexivity.
    + apply Forall_forall. intros v Hv. apply in_map_iff in Hv. destruct Hv as [x [<- Hin]].
      rewrite Forall_forall in H. exists x. auto.
Qed.

Theorem col_roundtrip_axes (ns : list N) rest :
  Forall (fun v => v < 8) ns ->
  exists b, enc_col WAxes c (List.map VAxes ns) = Ok b /\
            dec_col WAxes VT_Axes dc (length ns) (b ++ rest) = Ok (List.map VAxes ns, rest).
Proof.
  intros H. eexists. split.
  - cbn [enc_col]. rewrite (collect_map _ VAxes w_u8) by reflexivity. cbn [rbind]. rewrite concat_map_flat_map. reflexivity.
  - cbn [dec_col]. rewrite N.eqb_refl. rewrite <- (map_length VAxes ns).
    assert (E : flat_map w_u8 ns = flat_map (fun v => match v with VAxes x => w_u8 x | _ => [] end) (List.map VAxes ns)).
    { clear H. induction ns; cbn; congruence. }
    rewrite E.
    apply (prepeat_roundtrip (fun v => exists x, v = VAxes x /\ x < 8)).
    + intros a r (x & -> & Hx). unfold pbind. rewrite read_u8_app by lia.
      apply N.ltb_lt in Hx. rewrite Hx. reflexivity.
    + apply Forall_forall. intros v Hv. apply in_map_iff in Hv. destruct Hv as [x [<- Hin]].
      rewrite Forall_forall in H. exists x. auto.
Qed.

(* SecurityCapabilities: every 64-bit set *)
Lemma sec_roundtrip bits : bits < 2 ^ 64 -> sec_bits (wrap_s 64 bits) = bits.
Proof. intros H. unfold sec_bits. now apply wrap_us'. Qed.

Theorem col_roundtrip_seccap (ns : list N) rest :
  Forall (fun v => v < 2 ^ 64) ns ->
  exists b, enc_col WSecurityCapabilities c (List.map VSecurityCapabilities ns) = Ok b /\
            dec_col WSecurityCapabilities VT_SecurityCapabilities dc (length ns) (b ++ rest)
            = Ok (List.map VSecurityCapabilities ns, rest).
Proof.
  intros H. eexists. split.
  - cbn [enc_col]. rewrite (collect_map _ VSecurityCapabilities (wrap_s 64)) by reflexivity. cbn [rbind]. reflexivity.
  - cbn [dec_col]. rewrite N.eqb_refl. unfold pbind.
    rewrite <- (map_length (wrap_s 64) ns) at 1. rewrite i64_array_roundtrip.
    + unfold pret. f_equal. f_equal. rewrite map_map. apply map_ext_in. intros a Ha.
      rewrite Forall_forall in H. now rewrite sec_roundtrip by (apply H; exact Ha).
    + apply Forall_forall. intros v Hv. apply in_map_iff in Hv. destruct Hv as [a [<- Ha]].
      rewrite Forall_forall in H. apply wrap_s64_range. exact (H a Ha).
Qed.

End Columns.

(* ------------------------------------------------------------------------------------------ *)
(* 3. witnesses                                                                                 *)
(* ------------------------------------------------------------------------------------------ *)
Definition f32_4 : f32 := 0x40800000.
Definition f32_5 : f32 := 0x40A00000.
Definition f32_6 : f32 := 0x40C00000.
Definition ctx0 : dec_ctx := mkDC (fun _ => 0) [] None.
Definition ectx0 : enc_ctx := mkEC (fun _ => None) (fun _ => None) (fun _ => 0).

(* F5, on the serializer arm as it was before repair de369328: a Ray with direction (4,5,6) written by the old
   arm is read back with direction (4,5,4) *)
Theorem ray_refuted :
  dec_col WRay VT_Ray ctx0 1 (ray_bytes_pinned (mkV3 0 0 0) (mkV3 f32_4 f32_5 f32_6))
  = Ok ([VRay (mkV3 0 0 0) (mkV3 f32_4 f32_5 f32_4)], []).
Proof. vm_compute. reflexivity. Qed.

(* encode one column, then decode it *)
Definition enc_then_dec (ty : wire_type) (cty : N) (ec : enc_ctx) (dc : dec_ctx) (vs : list value) : res (list value * bytes) :=
  match enc_col ty ec vs with
  | Ok b => dec_col ty cty dc (length vs) b
  | Err e => Err e | Panic => Panic | OutOfFuel => OutOfFuel
  end.

(* and with the repaired arm it comes back intact *)
Theorem ray_repaired :
  enc_then_dec WRay VT_Ray ectx0 ctx0 [VRay (mkV3 0 0 0) (mkV3 f32_4 f32_5 f32_6)]
  = Ok ([VRay (mkV3 0 0 0) (mkV3 f32_4 f32_5 f32_6)], []).
Proof. vm_compute. reflexivity. Qed.

(* a Color3uint8 value of a property the database does not know is written with wire type Color3uint8; before
   repair 459caf55 the reader's arm rejected that column (it accepted only properties declared Color3), so the
   file written for such a DOM could not be read back *)
Theorem color3uint8_unknown_property_refuted :
  match enc_col WColor3uint8 ectx0 [VColor3uint8 1 2 3] with
  | Ok b => dec_color3uint8_pinned (to_default_rbx_type WColor3uint8) 1 b
  | _ => Ok ([], [])
  end = Err E_TYPE_MISMATCH.
Proof. vm_compute. reflexivity. Qed.

Theorem color3uint8_unknown_property_repaired :
  enc_then_dec WColor3uint8 (to_default_rbx_type WColor3uint8) ectx0 ctx0 [VColor3uint8 1 2 3]
  = Ok ([VColor3uint8 1 2 3], []).
Proof. vm_compute. reflexivity. Qed.

Definition ectx_id : enc_ctx := mkEC (fun r => Some (Z.of_N r)) (fun _ => None) (fun _ => 0).
Definition dctx_id : dec_ctx := mkDC (fun z => Z.to_N z) [] None.

(* before repair 55a7c594 two Content::Object values in one column came back in the opposite order (the reader
   popped its deque of object referents from the back) *)
Theorem content_object_order_refuted :
  content_values_pinned dctx_id [2%Z; 2%Z] [] [7%Z; 9%Z] = Ok [VContent (CObject 9); VContent (CObject 7)].
Proof. vm_compute. reflexivity. Qed.

Theorem content_object_order_repaired :
  enc_then_dec WContent VT_Content ectx_id dctx_id [VContent (CObject 7); VContent (CUri [97]); VContent (CObject 9); VContent CNone]
  = Ok ([VContent (CObject 7); VContent (CUri [97]); VContent (CObject 9); VContent CNone], []).
Proof. vm_compute. reflexivity. Qed.

(* Font: cached_face_id = Some "" is written as the empty string and read back as None *)
Theorem font_cached_empty_refuted :
  enc_then_dec WFont VT_Font ectx0 ctx0 [VFont (mkFont [97] 400 0 (Some []))]
  = Ok ([VFont (mkFont [97] 400 0 None)], []).
Proof. vm_compute. reflexivity. Qed.

(* Tags: an empty member and a member containing NUL do not survive the NUL-separated blob *)
Theorem tags_refuted :
  enc_then_dec WString VT_Tags ectx0 ctx0 [VTags [[97]; []; [98; 0; 99]]] = Ok ([VTags [[97]; [98]; [99]]], []).
Proof. vm_compute. reflexivity. Qed.
