(* Lz4Facts.v — the LZ4 block decoder of Spec/Lz4.v: it terminates with the stated fuel on every input, never
   panics, and inflates the literal-only block of any data back to the data.  Standard library only. *)
From Coq Require Import List NArith ZArith Lia Bool Arith.
From RbxVerif Require Import Base Bytes BytesFacts Lz4.
Import ListNotations.
Open Scope N_scope.

Lemma shorter_than_spec l : forall k, shorter_than l k = N.ltb (N.of_nat (length l)) k.
Proof.
  induction l as [|x l IH]; intros k; cbn [shorter_than length].
  - destruct (N.eqb k 0) eqn:E; cbn [negb]; symmetry.
    + apply N.eqb_eq in E. subst. reflexivity.
    + apply N.eqb_neq in E. apply N.ltb_lt. cbn. lia.
  - destruct (N.eqb k 0) eqn:E.
    + apply N.eqb_eq in E. subst. symmetry. apply N.ltb_ge. lia.
    + apply N.eqb_neq in E. rewrite IH. rewrite Nat2N.inj_succ.
      destruct (N.ltb (N.of_nat (length l)) (N.pred k)) eqn:E2; symmetry.
      * apply N.ltb_lt in E2. apply N.ltb_lt. lia.
      * apply N.ltb_ge in E2. apply N.ltb_ge. lia.
Qed.

(* ---- every helper returns a suffix of its input *)
Lemma lz4_ext_shorter b acc n r : lz4_ext b acc = Some (n, r) -> (length r < length b)%nat.
Proof.
  revert acc. induction b as [|x b IH]; intros acc H; cbn in H; [discriminate|].
  destruct (N.eqb x 255).
  - apply IH in H. cbn. lia.
  - injection H as _ <-. cbn. lia.
Qed.

Lemma lz4_len_shorter nib b n r : lz4_len nib b = Some (n, r) -> (length r <= length b)%nat.
Proof.
  unfold lz4_len. destruct (N.eqb nib 15); intros H.
  - apply lz4_ext_shorter in H. lia.
  - injection H as _ <-. lia.
Qed.

Lemma take_N_shorter n b h t : take_N n b = Some (h, t) -> (length t <= length b)%nat.
Proof.
  unfold take_N. destruct (shorter_than _ _); [discriminate|]. intros H.
  apply take_n_length in H. destruct H as [_ ->]. rewrite app_length. lia.
Qed.

(* ---- the loop never runs out of fuel when the fuel exceeds the input length, and never panics *)
Lemma lz4_loop_fuel fuel : forall b racc, (length b < fuel)%nat ->
  lz4_loop fuel b racc <> OutOfFuel /\ lz4_loop fuel b racc <> Panic.
Proof.
  induction fuel as [|f IH]; intros b racc Hlt; [lia|].
  cbn [lz4_loop].
  destruct b as [|tok b1]; [split; discriminate|].
  destruct (lz4_len (tok / 16) b1) as [[ll b2]|] eqn:E1; [|split; discriminate].
  destruct (take_N ll b2) as [[lits b3]|] eqn:E2; [|split; discriminate].
  destruct b3 as [|y b3']; [split; discriminate|].
  destruct (take_n 2 (y :: b3')) as [[ob b4]|] eqn:E3; [|split; discriminate].
  destruct (N.eqb (of_le ob) 0); [split; discriminate|].
  destruct (lz4_len (tok mod 16) b4) as [[ml b5]|] eqn:E4; [|split; discriminate].
  destruct (lz4_copy _ _ _) as [racc2|]; [|split; discriminate].
  apply IH.
  apply lz4_len_shorter in E1. apply take_N_shorter in E2. apply take_n_length in E3.
  apply lz4_len_shorter in E4. destruct E3 as [Hob E3]. rewrite E3 in E2. rewrite app_length in E2.
  cbn [length] in Hlt. lia.
Qed.

Theorem lz4_decode_total b : lz4_decode b <> OutOfFuel /\ lz4_decode b <> Panic.
Proof. unfold lz4_decode. apply lz4_loop_fuel. lia. Qed.

Theorem lz4_decode_no_panic b : lz4_decode b <> Panic.
Proof. apply lz4_decode_total. Qed.

Theorem lz4_decode_fuel b : lz4_decode b <> OutOfFuel.
Proof. apply lz4_decode_total. Qed.

Theorem lz4_inflate_total b n : lz4_inflate b n <> OutOfFuel /\ lz4_inflate b n <> Panic.
Proof.
  unfold lz4_inflate. pose proof (lz4_decode_total b) as [H1 H2].
  destruct (lz4_decode b); try contradiction.
  - destruct (N.eqb _ _); split; discriminate.
  - split; discriminate.
Qed.

(* what inflate returns has the length the chunk header states *)
Lemma lz4_inflate_length b n r : lz4_inflate b n = Ok r -> N.of_nat (length r) = n.
Proof.
  unfold lz4_inflate. destruct (lz4_decode b); try discriminate.
  destruct (N.eqb _ _) eqn:E; [|discriminate]. intros H. injection H as <-. now apply N.eqb_eq.
Qed.

(* ---- literal-only blocks *)
Lemma lz4_ext_repeat k m acc rest : m < 255 ->
  lz4_ext (repeat 255 k ++ m :: rest) acc = Some (acc + 255 * N.of_nat k + m, rest).
Proof.
  intros Hm. revert acc. induction k as [|k IH]; intros acc.
  - cbn [repeat app lz4_ext]. replace (N.eqb m 255) with false by (symmetry; apply N.eqb_neq; lia).
    f_equal. f_equal. lia.
  - cbn [repeat app lz4_ext]. rewrite N.eqb_refl. rewrite IH. f_equal. f_equal. lia.
Qed.

Lemma lz4_ext_bytes_ok n rest : lz4_ext (lz4_ext_bytes n ++ rest) 15 = Some (15 + n, rest).
Proof.
  unfold lz4_ext_bytes. rewrite <- app_assoc. cbn [app].
  rewrite lz4_ext_repeat by (apply N.mod_lt; lia).
  f_equal. f_equal. rewrite N2Nat.id. pose proof (N.div_mod n 255). lia.
Qed.

Lemma take_N_app a rest : take_N (N.of_nat (length a)) (a ++ rest) = Some (a, rest).
Proof.
  unfold take_N. rewrite shorter_than_spec, app_length.
  replace (N.ltb _ _) with false by (symmetry; apply N.ltb_ge; lia).
  rewrite Nat2N.id. apply take_n_app.
Qed.

Theorem lz4_literal_only x : lz4_decode (literal_only_block x) = Ok x.
Proof.
  unfold lz4_decode, literal_only_block.
  destruct (N.ltb (N.of_nat (length x)) 15) eqn:E.
  - apply N.ltb_lt in E. cbn [length lz4_loop].
    replace (16 * N.of_nat (length x) / 16) with (N.of_nat (length x))
      by (rewrite N.mul_comm, N.div_mul; lia).
    unfold lz4_len at 1.
    replace (N.eqb (N.of_nat (length x)) 15) with false by (symmetry; apply N.eqb_neq; lia).
    rewrite <- (app_nil_r x) at 2. rewrite take_N_app.
    now rewrite rev_append_rev, app_nil_r, rev_append_rev, app_nil_r, rev_involutive.
  - apply N.ltb_ge in E. cbn [length lz4_loop].
    change (240 / 16) with 15. unfold lz4_len at 1. cbn [N.eqb Pos.eqb].
    rewrite lz4_ext_bytes_ok.
    replace (15 + (N.of_nat (length x) - 15)) with (N.of_nat (length x)) by lia.
    rewrite <- (app_nil_r x) at 2. rewrite take_N_app.
    now rewrite rev_append_rev, app_nil_r, rev_append_rev, app_nil_r, rev_involutive.
Qed.

Theorem lz4_inflate_literal_only x : lz4_inflate (literal_only_block x) (N.of_nat (length x)) = Ok x.
Proof. unfold lz4_inflate. rewrite lz4_literal_only. now rewrite N.eqb_refl. Qed.

(* a literal-only block never starts with the Zstandard magic number (docs/binary.md tells the two apart by it) *)
Lemma literal_only_not_zstd x : hd 0 (literal_only_block x) <> 40.
Proof.
  unfold literal_only_block. destruct (N.ltb _ _) eqn:E; cbn [hd].
  - apply N.ltb_lt in E. lia.
  - lia.
Qed.

Lemma literal_only_nonempty x : literal_only_block x <> [].
Proof. unfold literal_only_block. destruct (N.ltb _ _); discriminate. Qed.

Lemma literal_only_ok x : bytes_ok x = true -> bytes_ok (literal_only_block x) = true.
Proof.
  intros H. unfold literal_only_block. destruct (N.ltb _ _) eqn:E.
  - apply N.ltb_lt in E. rewrite bytes_ok_cons, H, andb_true_r. apply N.ltb_lt. lia.
  - rewrite bytes_ok_cons. cbn [N.ltb N.compare Pos.compare Pos.compare_cont andb].
    rewrite bytes_ok_app, H, andb_true_r. unfold lz4_ext_bytes. rewrite bytes_ok_app.
    apply andb_true_iff. split.
    + apply bytes_ok_forall. intros y Hy. apply repeat_spec in Hy. subst. lia.
    + rewrite bytes_ok_cons. cbn [bytes_ok forallb]. rewrite andb_true_r. apply N.ltb_lt.
      pose proof (N.mod_lt (N.of_nat (length x) - 15) 255). lia.
Qed.

Print Assumptions lz4_decode_total.
Print Assumptions lz4_literal_only.
